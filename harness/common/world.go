package common

import (
	"bytes"
	"context"
	"errors"
	"fmt"
	"io"
	"sort"
	"strings"
	gosync "sync"
	"time"

	ocispec "github.com/opencontainers/image-spec/specs-go/v1"
	"oras.land/oras-go/v2/content"
	"oras.land/oras-go/v2/errdef"
	"verif.local/engine/vs"
)

// ErrInjected is the root of every injected fault.
var ErrInjected = errors.New("injected fault")

type injected struct {
	where    string
	notFound bool // the fault is "the source no longer has this content": the error also matches errdef.ErrNotFound
}

func (e *injected) Error() string { return "injected fault at " + e.where }
func (e *injected) Unwrap() []error {
	if e.notFound {
		return []error{ErrInjected, errdef.ErrNotFound}
	}
	return []error{ErrInjected}
}

// Full is the union of the read/write/tag/graph interfaces a store may offer.
type Full interface {
	content.Storage
	content.TagResolver
}

// World is the per-execution monitor state shared by the source and
// destination doubles of one copy call.
type World struct {
	D    *DAG
	Conc int // effective concurrency limit being checked (0 = do not check)

	Faults bool // fault menus are choice points
	// SlowPush: the destination's Push may (a choice that counts as a fault) take an hour of virtual time
	// while honouring its context - it returns the context's error as soon as that is done, and stores
	// normally otherwise (an upload that hangs until it is cancelled)
	SlowPush bool
	// FaultSites, when not empty, limits the fault menus to operations whose label starts with it
	// (e.g. "dst.Push"); elsewhere the operation is a plain scheduling point
	FaultSites string
	Split      bool // begin/end points around every storage operation
	// Racing: at a destination Push another writer (a second copy into the same destination) may have
	// stored the same content in the meantime - an input choice per push, offered only when the node's
	// successors are present (the other writer obeys link closure too). The push then meets ErrAlreadyExists.
	Racing  bool
	RacedIn map[int]int

	Cancel context.CancelCauseFunc

	SrcInflight, DstInflight int
	MaxSrc, MaxDst           int
	FetchCount               map[int]int // completed source Fetch calls per node (reader handed out)
	PushCount                map[int]int // destination Push calls that began, per node
	PushDone                 map[int]int
	MountCount               map[int]int
	Trace                    []string // callback / operation trace
	Fails                    []string // monitor failures observed during the run
	Injected                 []string // faults actually injected: "op(node):answer"
	NeededFault              bool     // at least one injected fault hit an operation whose result the call needs
	Cancelled                bool
	Contended                int // times a goroutine found another one inside the same kind of operation

	// mu guards the monitor state in the free-running race pass (under the cooperative scheduler it is
	// never contended). It is never held across a scheduling point.
	mu gosync.Mutex
}

// Do runs f with the monitor state locked.
func (w *World) Do(f func()) {
	w.mu.Lock()
	defer w.mu.Unlock()
	f()
}

// Log appends an event to the trace.
func (w *World) Log(ev string) { w.Do(func() { w.Trace = append(w.Trace, ev) }) }

func NewWorld(d *DAG, conc int) *World {
	return &World{D: d, Conc: conc, FetchCount: map[int]int{}, PushCount: map[int]int{}, PushDone: map[int]int{}, MountCount: map[int]int{}, RacedIn: map[int]int{}}
}

func (w *World) name(desc ocispec.Descriptor) (int, string) {
	id := w.D.Find(desc)
	if id < 0 {
		return -1, "?" + desc.Digest.Encoded()[:6]
	}
	return id, w.D.Nodes[id].Name
}

// failf records a monitor failure; callers hold w.mu or run inside Do.
func (w *World) failf(format string, a ...any) {
	w.Fails = append(w.Fails, fmt.Sprintf(format, a...))
}

// Answers of a fault menu.
const (
	ANormal = iota
	AErrBefore
	ACancel
	AErrAfter // Push only
)

// fault is a scheduling point plus (when enabled) a fault choice.
func (w *World) fault(op, node string, n int) int {
	label := op + "(" + node + ")"
	if !w.Faults || w.FaultSites != "" && !strings.HasPrefix(label, w.FaultSites) {
		vs.Pt(label)
		return ANormal
	}
	a := vs.ChooseAt(n, vs.KFault, label)
	if a != ANormal {
		w.Do(func() {
			w.Injected = append(w.Injected, fmt.Sprintf("%s:%d", label, a))
			if a == ACancel {
				w.Cancelled = true
			} else {
				w.NeededFault = true
			}
		})
		if a == ACancel && w.Cancel != nil {
			w.Cancel(&injected{where: "cancel at " + label})
		}
	}
	return a
}

func (w *World) begin(src bool) {
	w.mu.Lock()
	defer w.mu.Unlock()
	if src {
		if w.SrcInflight > 0 {
			w.Contended++
		}
		w.SrcInflight++
		if w.SrcInflight > w.MaxSrc {
			w.MaxSrc = w.SrcInflight
		}
		if w.Conc > 0 && w.SrcInflight > w.Conc {
			w.failf("concurrency: %d source reads in flight, limit %d", w.SrcInflight, w.Conc)
		}
	} else {
		if w.DstInflight > 0 {
			w.Contended++
		}
		w.DstInflight++
		if w.DstInflight > w.MaxDst {
			w.MaxDst = w.DstInflight
		}
		if w.Conc > 0 && w.DstInflight > w.Conc {
			w.failf("concurrency: %d destination operations in flight, limit %d", w.DstInflight, w.Conc)
		}
	}
}

func (w *World) end(src bool, label string) {
	if w.Split {
		vs.Pt(label + ".end")
	}
	w.mu.Lock()
	defer w.mu.Unlock()
	if src {
		w.SrcInflight--
	} else {
		w.DstInflight--
	}
}

// ---- source double

// Src wraps a read-only store.
type Src struct {
	W     *World
	Inner content.ReadOnlyStorage
}

type srcReader struct {
	io.Reader
	c      io.Closer
	w      *World
	label  string
	closed bool
}

func (r *srcReader) Close() error {
	if !r.closed {
		r.closed = true
		r.w.end(true, r.label)
	}
	return r.c.Close()
}

func (s *Src) Fetch(ctx context.Context, d ocispec.Descriptor) (io.ReadCloser, error) {
	id, nm := s.W.name(d)
	a := s.W.fault("src.Fetch", nm, 3)
	if a == AErrBefore {
		return nil, &injected{where: "src.Fetch(" + nm + ")", notFound: true}
	}
	s.W.begin(true)
	rc, err := s.Inner.Fetch(ctx, d)
	if err != nil {
		s.W.end(true, "src.Fetch("+nm+")")
		return nil, err
	}
	s.W.Do(func() { s.W.FetchCount[id]++ })
	return &srcReader{Reader: rc, c: rc, w: s.W, label: "src.Fetch(" + nm + ")"}, nil
}

func (s *Src) Exists(ctx context.Context, d ocispec.Descriptor) (bool, error) {
	_, nm := s.W.name(d)
	a := s.W.fault("src.Exists", nm, 3)
	if a == AErrBefore {
		return false, &injected{where: "src.Exists(" + nm + ")"}
	}
	s.W.begin(true)
	defer s.W.end(true, "src.Exists("+nm+")")
	return s.Inner.Exists(ctx, d)
}

// SrcTarget adds Resolve (and Predecessors when the inner store has it).
type SrcTarget struct {
	Src
	R content.Resolver
	P content.PredecessorFinder
}

func (s *SrcTarget) Resolve(ctx context.Context, ref string) (ocispec.Descriptor, error) {
	return s.R.Resolve(ctx, ref)
}

func (s *SrcTarget) Predecessors(ctx context.Context, d ocispec.Descriptor) ([]ocispec.Descriptor, error) {
	_, nm := s.W.name(d)
	a := s.W.fault("src.Predecessors", nm, 3)
	if a == AErrBefore {
		return nil, &injected{where: "src.Predecessors(" + nm + ")"}
	}
	return s.P.Predecessors(ctx, d)
}

// ---- destination double

// Dst wraps a destination target and evaluates the link-closure monitor at
// every completed Push.
type Dst struct {
	W     *World
	Inner Full
}

func (t *Dst) Fetch(ctx context.Context, d ocispec.Descriptor) (io.ReadCloser, error) {
	return t.Inner.Fetch(ctx, d)
}

func (t *Dst) Exists(ctx context.Context, d ocispec.Descriptor) (bool, error) {
	_, nm := t.W.name(d)
	a := t.W.fault("dst.Exists", nm, 3)
	if a == AErrBefore {
		return false, &injected{where: "dst.Exists(" + nm + ")"}
	}
	t.W.begin(false)
	defer t.W.end(false, "dst.Exists("+nm+")")
	return t.Inner.Exists(ctx, d)
}

func (t *Dst) Push(ctx context.Context, d ocispec.Descriptor, r io.Reader) error {
	id, nm := t.W.name(d)
	a := t.W.fault("dst.Push", nm, 4)
	if a == AErrBefore {
		return &injected{where: "dst.Push(" + nm + ")"}
	}
	t.W.begin(false)
	t.W.Do(func() { t.W.PushCount[id]++ })
	defer t.W.end(false, "dst.Push("+nm+")")
	// read the content first: reading the source is part of the operation
	data, rerr := io.ReadAll(r)
	if rerr != nil {
		return rerr
	}
	if t.W.SlowPush && vs.ChooseAt(2, vs.KFault, "dst.Push("+nm+") slow") == 1 {
		t.W.Do(func() { t.W.Injected = append(t.W.Injected, "dst.Push("+nm+"):slow") })
		tm := time.NewTimer(time.Hour)
		select {
		case <-ctx.Done():
			tm.Stop()
			return ctx.Err()
		case <-tm.C:
		}
	}
	if t.W.Split {
		vs.Pt("dst.Push(" + nm + ").store")
	}
	if err := ctx.Err(); err != nil {
		return err // a destination that honours its context: nothing is stored once the context is done
	}
	if t.W.Racing && id >= 0 {
		closed := true
		for _, s := range t.W.D.SuccSet(id, true) {
			if ok, _ := t.Inner.Exists(ctx, t.W.D.Nodes[s].Desc); !ok {
				closed = false
			}
		}
		if closed && vs.ChooseAt(2, vs.KInput, "other-writer-first("+nm+")") == 1 {
			if t.Inner.Push(ctx, d, bytes.NewReader(t.W.D.Nodes[id].Bytes)) == nil {
				t.W.Do(func() { t.W.RacedIn[id]++ })
			}
		}
	}
	err := t.Inner.Push(ctx, d, bytes.NewReader(data))
	if err == nil {
		t.W.Do(func() { t.W.PushDone[id]++ })
		t.W.CheckClosed(ctx, t.Inner, id)
	}
	if a == AErrAfter && err == nil {
		return &injected{where: "dst.Push(" + nm + ") after effect"}
	}
	return err
}

// CheckClosed evaluates "every successor of n is present" on the instantaneous state.
func (w *World) CheckClosed(ctx context.Context, st content.ReadOnlyStorage, id int) {
	if id < 0 {
		return
	}
	vs.Atomic(func() {
		for _, s := range w.D.SuccSet(id, true) {
			ok, err := st.Exists(context.Background(), w.D.Nodes[s].Desc)
			if err != nil || !ok {
				w.Do(func() {
					w.failf("closure: push of %s completed while successor %s is absent from the destination", w.D.Nodes[id].Name, w.D.Nodes[s].Name)
				})
			}
		}
	})
}

func (t *Dst) Resolve(ctx context.Context, ref string) (ocispec.Descriptor, error) {
	return t.Inner.Resolve(ctx, ref)
}

func (t *Dst) Tag(ctx context.Context, d ocispec.Descriptor, ref string) error {
	_, nm := t.W.name(d)
	vs.Pt("dst.Tag(" + nm + ")")
	t.W.Log("tag:" + nm + ":" + ref)
	return t.Inner.Tag(ctx, d, ref)
}

// ---- helpers shared by the copy oracles

// Populate pushes the given nodes (children first) straight into st.
func Populate(st content.Pusher, d *DAG, ids []int) error {
	sorted := append([]int{}, ids...)
	sort.Ints(sorted) // ids are topological: children are created before parents
	for _, id := range sorted {
		n := d.Nodes[id]
		if err := st.Push(context.Background(), n.Desc, bytes.NewReader(n.Bytes)); err != nil && !errors.Is(err, errdef.ErrAlreadyExists) {
			return fmt.Errorf("populate %s: %w", n.Name, err)
		}
	}
	return nil
}

// CheckCopied verifies that every node of want is present in st with the generator's bytes.
func CheckCopied(st content.ReadOnlyStorage, d *DAG, want []int) string {
	var bad []string
	for _, id := range want {
		n := d.Nodes[id]
		ok, err := st.Exists(context.Background(), n.Desc)
		if err != nil || !ok {
			bad = append(bad, n.Name+" missing")
			continue
		}
		b, err := content.FetchAll(context.Background(), st, n.Desc)
		if err != nil {
			bad = append(bad, n.Name+" unreadable: "+err.Error())
		} else if !bytes.Equal(b, n.Bytes) {
			bad = append(bad, n.Name+" bytes differ")
		}
	}
	return strings.Join(bad, "; ")
}

// IsClosed reports whether the set of nodes present in st is closed under links.
func IsClosed(st content.ReadOnlyStorage, d *DAG) string {
	for _, n := range d.Nodes {
		ok, _ := st.Exists(context.Background(), n.Desc)
		if !ok {
			continue
		}
		for _, s := range d.SuccSet(n.ID, true) {
			if ok2, _ := st.Exists(context.Background(), d.Nodes[s].Desc); !ok2 {
				return fmt.Sprintf("%s present but successor %s absent", n.Name, d.Nodes[s].Name)
			}
		}
	}
	return ""
}

// ---- destination double that can mount (registry.Mounter)

// MountDst is a destination that implements registry.Mounter. For every blob and candidate
// repository it answers "mounted" (the content appears without any source read) or "cannot
// mount here" (it calls getContent, as a registry answering 202 does); the answer is an input
// choice of the execution.
type MountDst struct {
	Dst
	Mounted map[int]int
	Events  *[]string
}

func (m *MountDst) Mount(ctx context.Context, desc ocispec.Descriptor, fromRepo string, getContent func() (io.ReadCloser, error)) error {
	id := m.W.D.Find(desc)
	nm := m.W.D.Nodes[id].Name
	if vs.ChooseAt(2, vs.KInput, "mount("+nm+","+fromRepo+")") == 0 {
		// mounted: the registry links the blob, nothing is read from the source
		m.W.Do(func() {
			*m.Events = append(*m.Events, "mounted-by-registry:"+nm+":"+fromRepo)
			m.Mounted[id]++
		})
		return m.Inner.Push(ctx, desc, bytes.NewReader(m.W.D.Nodes[id].Bytes))
	}
	rc, err := getContent()
	if err != nil {
		return err
	}
	defer rc.Close()
	m.W.Do(func() { *m.Events = append(*m.Events, "fallback:"+nm+":"+fromRepo) })
	return m.Dst.Push(ctx, desc, rc)
}

// MountCandidates are the candidate lists MountFrom hands out in the mount scenarios: none, one,
// two, the same repository twice, and a list ending in a blank name.
var MountCandidates = [][]string{nil, {"repo/a"}, {"repo/a", "repo/b"}, {"repo/a", "repo/a"}, {"repo/a", ""}}

// RefDst is a destination that also implements registry.ReferencePusher (as a remote repository does):
// Copy then pushes the root together with its reference. The push is counted like any other push.
type RefDst struct{ Dst }

func (t *RefDst) PushReference(ctx context.Context, d ocispec.Descriptor, r io.Reader, reference string) error {
	if err := t.Dst.Push(ctx, d, r); err != nil {
		return err
	}
	t.W.Log("tag:" + reference)
	return t.Inner.Tag(ctx, d, reference)
}
