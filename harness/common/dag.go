// Package common holds what the harnesses share: the DAG universe (E6), the
// instrumented store doubles, and observation helpers. It is mounted inside the
// oras-go module at internal/zzverif/common through the build overlay.
package common

import (
	"encoding/json"
	"fmt"
	"sort"
	"strings"

	"github.com/opencontainers/go-digest"
	specs "github.com/opencontainers/image-spec/specs-go"
	ocispec "github.com/opencontainers/image-spec/specs-go/v1"
)

// Media types are spelled out here (not imported from oras-go internals) so the
// generator is independent of the code under test.
const (
	MTDockerManifest = "application/vnd.docker.distribution.manifest.v2+json"
	MTDockerList     = "application/vnd.docker.distribution.manifest.list.v2+json"
	MTDockerForeign  = "application/vnd.docker.image.rootfs.foreign.diff.tar.gzip"
	MTArtifact       = "application/vnd.oci.artifact.manifest.v1+json"
	MTLayer          = "application/vnd.oci.image.layer.v1.tar"
	MTLayerGzip      = "application/vnd.oci.image.layer.v1.tar+gzip"
	MTConfig         = "application/vnd.oci.image.config.v1+json"
	MTForeign        = "application/vnd.oci.image.layer.nondistributable.v1.tar"
	MTForeignGzip    = "application/vnd.oci.image.layer.nondistributable.v1.tar+gzip"
	MTForeignZstd    = "application/vnd.oci.image.layer.nondistributable.v1.tar+zstd"
)

type Kind int

const (
	KBlob Kind = iota
	KForeign
	KManifest
	KDockerManifest
	KIndex
	KDockerList
	KArtifact
)

func (k Kind) IsManifest() bool { return k >= KManifest }

// Node is one node of the ground-truth DAG.
type Node struct {
	ID           int
	Name         string
	Kind         Kind
	Desc         ocispec.Descriptor // plain: media type, digest, size
	Bytes        []byte
	Succ         []int // direct successors in link order, with repetition, foreign layers included
	Subject      int   // -1 when none
	ArtifactType string
	ConfigMT     string
	Annotations  map[string]string
	TagAnn       map[string]string // annotations map shared by every annotated Tag of this node (see TagDesc)
}

// DAG is a generated graph plus its own edge list; oracles never ask oras-go
// for successors.
type DAG struct {
	Name  string
	Nodes []*Node
}

func desc(mt string, b []byte) ocispec.Descriptor {
	return ocispec.Descriptor{MediaType: mt, Digest: digest.FromBytes(b), Size: int64(len(b))}
}

func (d *DAG) add(n *Node) int {
	// identical (media type, bytes) is the same node
	for _, o := range d.Nodes {
		if o.Desc.MediaType == n.Desc.MediaType && o.Desc.Digest == n.Desc.Digest {
			return o.ID
		}
	}
	n.ID = len(d.Nodes)
	if n.Name == "" {
		n.Name = fmt.Sprintf("n%d", n.ID)
	}
	d.Nodes = append(d.Nodes, n)
	return n.ID
}

// Blob adds a leaf blob with the given media type.
func (d *DAG) Blob(name, mt string, data string) int {
	k := KBlob
	switch mt {
	case MTForeign, MTForeignGzip, MTForeignZstd, MTDockerForeign:
		k = KForeign
	}
	b := []byte(data)
	return d.add(&Node{Name: name, Kind: k, Desc: desc(mt, b), Bytes: b, Subject: -1})
}

// ManifestOpt customises a manifest.
type ManifestOpt struct {
	Subject      int // -1 none
	ArtifactType string
	Annotations  map[string]string
	Docker       bool
	Platforms    []*ocispec.Platform // Index only: platform of each member descriptor
	// SubjectDesc, when set, is written as the subject descriptor instead of the subject node's own
	// descriptor (same digest, but e.g. another media type or size, as a third-party producer may write it).
	SubjectDesc *ocispec.Descriptor
	// LayerURLs, when set, is written into the urls field of every layer descriptor (mirror locations
	// of an ordinary, distributable layer).
	LayerURLs []string
	// LayerTitles, when set, gives each layer descriptor (by position) an org.opencontainers.image.title
	// annotation ("" = none): the file name a file store materialises the layer under.
	LayerTitles []string
	// EmbedData (Index only): every member descriptor carries the member's bytes in its data field.
	EmbedData bool
}

func (d *DAG) descs(ids []int) []ocispec.Descriptor {
	out := make([]ocispec.Descriptor, len(ids))
	for i, id := range ids {
		out[i] = d.Nodes[id].Desc
	}
	return out
}

// Manifest adds an image manifest (OCI or Docker).
func (d *DAG) Manifest(name string, config int, layers []int, o ManifestOpt) int {
	m := ocispec.Manifest{
		Versioned:    specs.Versioned{SchemaVersion: 2},
		Config:       d.Nodes[config].Desc,
		Layers:       d.descs(layers),
		ArtifactType: o.ArtifactType,
		Annotations:  o.Annotations,
	}
	if m.Layers == nil {
		m.Layers = []ocispec.Descriptor{}
	}
	for i := range m.Layers {
		if o.LayerURLs != nil {
			m.Layers[i].URLs = o.LayerURLs
		}
		if i < len(o.LayerTitles) && o.LayerTitles[i] != "" {
			m.Layers[i].Annotations = map[string]string{ocispec.AnnotationTitle: o.LayerTitles[i]}
		}
	}
	kind, mt := KManifest, ocispec.MediaTypeImageManifest
	var succ []int
	if o.Docker {
		kind, mt = KDockerManifest, MTDockerManifest
		o.Subject = -1
	}
	m.MediaType = mt
	if o.Subject >= 0 {
		s := d.Nodes[o.Subject].Desc
		if o.SubjectDesc != nil {
			s = *o.SubjectDesc
		}
		m.Subject = &s
		succ = append(succ, o.Subject)
	}
	succ = append(succ, config)
	succ = append(succ, layers...)
	b, _ := json.Marshal(m)
	return d.add(&Node{Name: name, Kind: kind, Desc: desc(mt, b), Bytes: b, Succ: succ, Subject: o.Subject,
		ArtifactType: o.ArtifactType, ConfigMT: d.Nodes[config].Desc.MediaType, Annotations: o.Annotations})
}

// Index adds an image index (OCI) or a Docker manifest list.
func (d *DAG) Index(name string, manifests []int, o ManifestOpt) int {
	x := ocispec.Index{
		Versioned:    specs.Versioned{SchemaVersion: 2},
		Manifests:    d.descs(manifests),
		ArtifactType: o.ArtifactType,
		Annotations:  o.Annotations,
	}
	for i, p := range o.Platforms {
		x.Manifests[i].Platform = p
	}
	if o.EmbedData {
		for i, id := range manifests {
			x.Manifests[i].Data = d.Nodes[id].Bytes
		}
	}
	kind, mt := KIndex, ocispec.MediaTypeImageIndex
	if o.Docker {
		kind, mt = KDockerList, MTDockerList
		o.Subject = -1
	}
	x.MediaType = mt
	var succ []int
	if o.Subject >= 0 {
		s := d.Nodes[o.Subject].Desc
		x.Subject = &s
		succ = append(succ, o.Subject)
	}
	succ = append(succ, manifests...)
	b, _ := json.Marshal(x)
	return d.add(&Node{Name: name, Kind: kind, Desc: desc(mt, b), Bytes: b, Succ: succ, Subject: o.Subject,
		ArtifactType: o.ArtifactType, Annotations: o.Annotations})
}

// Artifact adds an ORAS artifact manifest.
func (d *DAG) Artifact(name string, blobs []int, o ManifestOpt) int {
	type artifact struct {
		MediaType    string               `json:"mediaType"`
		ArtifactType string               `json:"artifactType"`
		Blobs        []ocispec.Descriptor `json:"blobs,omitempty"`
		Subject      *ocispec.Descriptor  `json:"subject,omitempty"`
		Annotations  map[string]string    `json:"annotations,omitempty"`
	}
	a := artifact{MediaType: MTArtifact, ArtifactType: o.ArtifactType, Blobs: d.descs(blobs), Annotations: o.Annotations}
	var succ []int
	if o.Subject >= 0 {
		s := d.Nodes[o.Subject].Desc
		a.Subject = &s
		succ = append(succ, o.Subject)
	}
	succ = append(succ, blobs...)
	b, _ := json.Marshal(a)
	return d.add(&Node{Name: name, Kind: KArtifact, Desc: desc(MTArtifact, b), Bytes: b, Succ: succ, Subject: o.Subject,
		ArtifactType: o.ArtifactType, Annotations: o.Annotations})
}

// Closure returns the ids reachable from root (root included), following
// every link except into foreign layers when skipForeign.
func (d *DAG) Closure(root int, skipForeign bool) []int {
	seen := map[int]bool{}
	var walk func(int)
	walk = func(n int) {
		if seen[n] {
			return
		}
		seen[n] = true
		for _, s := range d.Nodes[n].Succ {
			if skipForeign && d.Nodes[s].Kind == KForeign {
				continue
			}
			walk(s)
		}
	}
	walk(root)
	return sortedKeys(seen)
}

// SuccSet returns the distinct direct successors of n (foreign excluded when asked).
func (d *DAG) SuccSet(n int, skipForeign bool) []int {
	seen := map[int]bool{}
	for _, s := range d.Nodes[n].Succ {
		if skipForeign && d.Nodes[s].Kind == KForeign {
			continue
		}
		seen[s] = true
	}
	return sortedKeys(seen)
}

// Preds returns the distinct direct predecessors of n among the nodes in `among` (nil = all).
func (d *DAG) Preds(n int, among map[int]bool) []int {
	seen := map[int]bool{}
	for _, p := range d.Nodes {
		if among != nil && !among[p.ID] {
			continue
		}
		for _, s := range p.Succ {
			if s == n {
				seen[p.ID] = true
			}
		}
	}
	return sortedKeys(seen)
}

// Ancestors returns every node that reaches n through links (n included),
// with the minimal number of predecessor steps.
func (d *DAG) Ancestors(n int) map[int]int {
	dist := map[int]int{n: 0}
	q := []int{n}
	for len(q) > 0 {
		x := q[0]
		q = q[1:]
		for _, p := range d.Preds(x, nil) {
			if _, ok := dist[p]; !ok {
				dist[p] = dist[x] + 1
				q = append(q, p)
			}
		}
	}
	return dist
}

func sortedKeys(m map[int]bool) []int {
	out := make([]int, 0, len(m))
	for k, v := range m {
		if v {
			out = append(out, k)
		}
	}
	sort.Ints(out)
	return out
}

// DownSets enumerates every link-closed subset of the closure of root
// (foreign layers ignored), i.e. every legal pre-population of a destination.
func (d *DAG) DownSets(root int) [][]int {
	nodes := d.Closure(root, true)
	var out [][]int
	n := len(nodes)
	for mask := 0; mask < 1<<n; mask++ {
		in := map[int]bool{}
		for i, id := range nodes {
			if mask&(1<<i) != 0 {
				in[id] = true
			}
		}
		ok := true
		for id := range in {
			for _, s := range d.SuccSet(id, true) {
				if !in[s] {
					ok = false
				}
			}
		}
		if ok {
			out = append(out, sortedKeys(in))
		}
	}
	return out
}

// TypeOf returns the artifact type of a manifest node as the property defines
// it: artifactType, else the config media type ("" for nodes with neither).
func (d *DAG) TypeOf(id int) string {
	n := d.Nodes[id]
	if n.Kind == KDockerManifest {
		return "" // Docker manifests are not artifacts; the statement's rule is read for OCI image and artifact manifests
	}
	if n.ArtifactType != "" {
		return n.ArtifactType
	}
	return n.ConfigMT
}

// RichDesc returns the node's descriptor carrying artifactType and annotations,
// as a Referrers-API listing would.
func (d *DAG) RichDesc(id int) ocispec.Descriptor {
	n := d.Nodes[id]
	r := n.Desc
	if n.Kind.IsManifest() {
		r.ArtifactType = d.TypeOf(id)
		r.Annotations = n.Annotations
	}
	return r
}

func (d *DAG) String() string {
	var sb strings.Builder
	sb.WriteString(d.Name + "{")
	for _, n := range d.Nodes {
		fmt.Fprintf(&sb, "%s:%d%v ", n.Name, n.Kind, n.Succ)
	}
	sb.WriteString("}")
	return sb.String()
}

// Find returns the node id with the given descriptor identity, or -1.
func (d *DAG) Find(desc ocispec.Descriptor) int {
	for _, n := range d.Nodes {
		if n.Desc.Digest == desc.Digest && n.Desc.MediaType == desc.MediaType && n.Desc.Size == desc.Size {
			return n.ID
		}
	}
	return -1
}

// FindDigest returns the ids of all nodes with that digest.
func (d *DAG) FindDigest(dg digest.Digest) []int {
	var out []int
	for _, n := range d.Nodes {
		if n.Desc.Digest == dg {
			out = append(out, n.ID)
		}
	}
	return out
}

// ByName returns the id of the named node (panics when absent: harness bug).
func (d *DAG) ByName(name string) int {
	for _, n := range d.Nodes {
		if n.Name == name {
			return n.ID
		}
	}
	panic("no node " + name)
}

// ---- curated collision family K

func no() ManifestOpt { return ManifestOpt{Subject: -1} }
func subj(s int) ManifestOpt {
	return ManifestOpt{Subject: s}
}

// Extra returns shapes that single harnesses add to the curated family (they are not part of it so
// that the other harnesses' spaces stay as registered).
func Extra(name string) *DAG {
	d := &DAG{Name: name}
	switch name {
	case "shared-leaf": // the smallest graph in which one leaf is a successor of two manifests that are copied side by side
		x := d.Blob("X", MTConfig, "{}")
		sh := d.Blob("S", MTLayer, "s")
		a := d.Manifest("A", x, []int{sh}, no())
		b := d.Manifest("B", sh, nil, no())
		d.Index("I", []int{a, b}, no())
	case "urls-layer": // an ordinary layer whose descriptor lists mirror URLs: still copied
		c := d.Blob("C", MTConfig, "{}")
		l := d.Blob("L", MTLayer, "l")
		f := d.Blob("F", MTForeign, "f")
		d.Manifest("M", c, []int{l, f}, ManifestOpt{Subject: -1, LayerURLs: []string{"https://mirror.example/l"}})
	case "blob-subject": // a referrer of a blob: the blob has two kinds of predecessors
		c := d.Blob("C", MTConfig, "{}")
		l := d.Blob("L", MTLayer, "l")
		d.Manifest("M", c, []int{l}, no())
		d.Manifest("R", c, nil, ManifestOpt{Subject: l, ArtifactType: "application/vnd.test.sig"})
	case "same-title": // two platform manifests whose layers carry the same file name but different bytes
		c := d.Blob("C", MTConfig, "{}")
		l1 := d.Blob("L1", MTLayer, "app for amd64")
		l2 := d.Blob("L2", MTLayer, "app for arm64")
		m1 := d.Manifest("M1", c, []int{l1}, ManifestOpt{Subject: -1, LayerTitles: []string{"app.bin"}})
		m2 := d.Manifest("M2", c, []int{l2}, ManifestOpt{Subject: -1, LayerTitles: []string{"app.bin"}})
		d.Index("I", []int{m1, m2}, no())
	case "annotated-index": // predecessors that are indexes and carry the annotation a filter looks at
		c := d.Blob("C", MTConfig, "{}")
		l := d.Blob("L", MTLayer, "l")
		m := d.Manifest("M", c, []int{l}, no())
		d.Index("IX1", []int{m}, ManifestOpt{Subject: -1, Annotations: map[string]string{"k": "v1"}})
		d.Index("IX2", []int{}, ManifestOpt{Subject: m, Annotations: map[string]string{"k": "v2"}})
		d.Manifest("R", c, nil, ManifestOpt{Subject: m, ArtifactType: "application/vnd.test.sig", Annotations: map[string]string{"other": "x"}})
	case "index-with-blob": // an index that lists, next to a manifest, an entry that is not a manifest
		c := d.Blob("C", MTConfig, "{}")
		l := d.Blob("L", MTLayer, "l")
		b := d.Blob("SBOM", "application/spdx+json", "{\"spdx\":1}")
		m := d.Manifest("M", c, []int{l}, no())
		d.Index("I", []int{m, b}, no())
	case "index-chain": // an index that is only reachable through another index, over one manifest
		c := d.Blob("C", MTConfig, "{}")
		l := d.Blob("L", MTLayer, "l")
		m := d.Manifest("M", c, []int{l}, no())
		i1 := d.Index("I1", []int{m}, no())
		d.Index("I2", []int{i1}, no())
	case "embedded-data": // an index whose member descriptor embeds the member's bytes
		c := d.Blob("C", MTConfig, "{}")
		l := d.Blob("L", MTLayer, "l")
		m := d.Manifest("M", c, []int{l}, no())
		d.Index("I", []int{m}, ManifestOpt{Subject: -1, EmbedData: true})
	case "index-and-referrer": // a manifest that is a member of an index and the subject of a referrer
		c := d.Blob("C", MTConfig, "{}")
		l := d.Blob("L", MTLayer, "l")
		m := d.Manifest("M", c, []int{l}, no())
		d.Manifest("R", c, nil, ManifestOpt{Subject: m, ArtifactType: "application/vnd.test.sig"})
		d.Index("I", []int{m}, no())
	case "many-referrers": // more pending predecessors at once than any small shape has (work-list growth)
		c := d.Blob("C", MTConfig, "{}")
		l := d.Blob("L", MTLayer, "l")
		m := d.Manifest("M", c, []int{l}, no())
		for i := 0; i < 70; i++ {
			d.Manifest(fmt.Sprintf("R%02d", i), c, nil, ManifestOpt{Subject: m, ArtifactType: "application/vnd.test.sig", Annotations: map[string]string{"n": fmt.Sprint(i)}})
		}
	default:
		panic("unknown extra shape " + name)
	}
	return d
}

// Curated returns the collision family K: each shape forces one shortcut in the code.
func Curated() []*DAG {
	var out []*DAG
	mk := func(name string, f func(d *DAG)) {
		d := &DAG{Name: name}
		f(d)
		out = append(out, d)
	}
	mk("diamond", func(d *DAG) {
		c := d.Blob("C", MTConfig, "{}")
		l1 := d.Blob("L1", MTLayer, "l1")
		l2 := d.Blob("L2", MTLayer, "l2")
		m1 := d.Manifest("M1", c, []int{l1, l2}, no())
		m2 := d.Manifest("M2", c, []int{l2}, no())
		d.Index("I", []int{m1, m2}, no())
	})
	mk("dup-layer", func(d *DAG) {
		c := d.Blob("C", MTConfig, "{}")
		l := d.Blob("L", MTLayer, "l")
		d.Manifest("M", c, []int{l, l}, no())
	})
	mk("two-mediatypes", func(d *DAG) {
		c := d.Blob("C", MTConfig, "{}")
		la := d.Blob("La", MTLayer, "same")
		lb := d.Blob("Lb", MTLayerGzip, "same")
		m1 := d.Manifest("M1", c, []int{la}, no())
		m2 := d.Manifest("M2", c, []int{lb, la}, no())
		d.Index("I", []int{m1, m2}, no())
	})
	mk("subject-chain", func(d *DAG) {
		c := d.Blob("C", MTConfig, "{}")
		l := d.Blob("L", MTLayer, "l")
		m := d.Manifest("M", c, []int{l}, no())
		r1 := d.Manifest("R1", c, nil, ManifestOpt{Subject: m, ArtifactType: "application/vnd.test.sig", Annotations: map[string]string{"k": "v1"}})
		d.Manifest("R2", c, []int{l}, ManifestOpt{Subject: r1, ArtifactType: "application/vnd.test.att"})
	})
	mk("nested-index", func(d *DAG) {
		c := d.Blob("C", MTConfig, "{}")
		l := d.Blob("L", MTLayer, "l")
		m := d.Manifest("M", c, []int{l}, no())
		i1 := d.Index("I1", []int{m}, no())
		d.Index("I2", []int{i1, m}, no())
	})
	mk("foreign-mid", func(d *DAG) {
		c := d.Blob("C", MTConfig, "{}")
		l1 := d.Blob("L1", MTLayer, "l1")
		f := d.Blob("F", MTForeign, "foreign")
		f2 := d.Blob("F2", MTDockerForeign, "foreign2")
		l2 := d.Blob("L2", MTLayer, "l2")
		d.Manifest("M", c, []int{l1, f, f2, l2}, no())
	})
	mk("empty-blob", func(d *DAG) {
		c := d.Blob("E", MTConfig, "")
		l := d.Blob("EL", MTLayer, "")
		d.Manifest("M", c, []int{l, l}, no())
	})
	mk("docker", func(d *DAG) {
		c := d.Blob("C", "application/vnd.docker.container.image.v1+json", "{}")
		l := d.Blob("L", "application/vnd.docker.image.rootfs.diff.tar.gzip", "dl")
		m := d.Manifest("DM", c, []int{l}, ManifestOpt{Subject: -1, Docker: true})
		d.Index("DL", []int{m}, ManifestOpt{Subject: -1, Docker: true})
	})
	mk("artifact-subject", func(d *DAG) {
		c := d.Blob("C", MTConfig, "{}")
		l := d.Blob("L", MTLayer, "l")
		m := d.Manifest("M", c, []int{l}, no())
		b := d.Blob("B", "application/vnd.test.blob", "sbom")
		d.Artifact("A", []int{b, l}, ManifestOpt{Subject: m, ArtifactType: "application/vnd.test.sbom"})
	})
	mk("index-subject", func(d *DAG) {
		c := d.Blob("C", MTConfig, "{}")
		l := d.Blob("L", MTLayer, "l")
		m := d.Manifest("M", c, []int{l}, no())
		r := d.Manifest("R", c, nil, ManifestOpt{Subject: m, ArtifactType: "application/vnd.test.sig"})
		d.Index("IX", []int{r}, ManifestOpt{Subject: m})
	})
	mk("two-referrers-shared", func(d *DAG) {
		c := d.Blob("C", MTConfig, "{}")
		l := d.Blob("L", MTLayer, "l")
		s := d.Blob("S", MTLayer, "shared")
		m := d.Manifest("M", c, []int{l}, no())
		d.Manifest("R1", c, []int{s}, ManifestOpt{Subject: m, ArtifactType: "application/vnd.test.a", Annotations: map[string]string{"k": "v1"}})
		d.Manifest("R2", c, []int{s, l}, ManifestOpt{Subject: m, ArtifactType: "application/vnd.test.b", Annotations: map[string]string{"k": "v2", "other": "x"}})
	})
	mk("platform", func(d *DAG) {
		c1 := d.Blob("Camd", MTConfig, `{"architecture":"amd64","os":"linux"}`)
		c2 := d.Blob("Carm", MTConfig, `{"architecture":"arm64","os":"linux"}`)
		l := d.Blob("L", MTLayer, "l")
		m1 := d.Manifest("Mamd", c1, []int{l}, no())
		m2 := d.Manifest("Marm", c2, []int{l}, no())
		d.Index("I", []int{m1, m2}, ManifestOpt{Subject: -1, Platforms: []*ocispec.Platform{{Architecture: "amd64", OS: "linux"}, {Architecture: "arm64", OS: "linux"}}})
	})
	mk("referrer-types", func(d *DAG) {
		c := d.Blob("C", MTConfig, "{}")
		ct := d.Blob("CT", "application/vnd.test.cfgtype", "{}")
		l := d.Blob("L", MTLayer, "l")
		m := d.Manifest("M", c, []int{l}, no())
		d.Manifest("Rcfg", ct, nil, ManifestOpt{Subject: m})                                                   // type = config media type
		d.Manifest("Rat", c, nil, ManifestOpt{Subject: m, ArtifactType: "application/vnd.test.sig"})           // artifactType wins over config type
		d.Manifest("Rboth", ct, []int{l}, ManifestOpt{Subject: m, ArtifactType: "application/vnd.test.other"}) // both set
		b := d.Blob("B", "application/vnd.test.blob", "x")
		d.Artifact("A", []int{b}, ManifestOpt{Subject: m, ArtifactType: "application/vnd.test.sig"})
	})
	mk("fanout", func(d *DAG) {
		c := d.Blob("C", MTConfig, "{}")
		var ls []int
		for i := 0; i < 5; i++ {
			ls = append(ls, d.Blob(fmt.Sprintf("L%d", i), MTLayer, fmt.Sprintf("layer-%d", i)))
		}
		d.Manifest("M", c, ls, no())
	})
	return out
}

// ---- exhaustive family U(n)

// Universe enumerates every DAG with at most n nodes from the grammar:
// 1..3 leaf blobs (variants: plain | one empty | one foreign | two with the same
// bytes under two media types), 1..3 image manifests (config, 0..2 layers with
// repetition, optional subject among earlier manifests), 0..2 indexes (1..2
// members among earlier manifests/indexes, optional subject), in three flavours
// (all OCI | first manifest and first index Docker | last manifest an artifact manifest).
func Universe(n int) []*DAG {
	var out []*DAG
	seen := map[string]bool{}
	type mspec struct {
		cfg     int
		layers  []int
		subject int
	}
	type ispec struct {
		members []int
		subject int
	}
	leafVariants := []string{"plain", "empty", "foreign", "twomt"}
	for nl := 1; nl <= 3; nl++ {
		for _, lv := range leafVariants {
			if (lv == "twomt" || lv == "foreign") && nl < 2 {
				continue
			}
			sp := nl - 1 // index of the special leaf
			if lv == "foreign" {
				sp = 1 // so that both foreign-then-normal and normal-then-foreign layer lists exist
			}
			for nm := 1; nm <= 3 && nl+nm <= n; nm++ {
				for ni := 0; ni <= 2 && nl+nm+ni <= n; ni++ {
					// enumerate manifest specs
					var mlists [][]mspec
					var recM func(k int, cur []mspec)
					recM = func(k int, cur []mspec) {
						if k == nm {
							mlists = append(mlists, append([]mspec{}, cur...))
							return
						}
						for cfg := 0; cfg < nl; cfg++ {
							if lv == "foreign" && cfg == sp {
								continue // a foreign layer is never a config
							}
							var layerSets [][]int
							layerSets = append(layerSets, nil)
							for a := 0; a < nl; a++ {
								layerSets = append(layerSets, []int{a})
								for b := a; b < nl; b++ {
									layerSets = append(layerSets, []int{a, b})
								}
							}
							for _, ls := range layerSets {
								for s := -1; s < k; s++ {
									recM(k+1, append(cur, mspec{cfg, ls, s}))
								}
							}
						}
					}
					recM(0, nil)
					var ilists [][]ispec
					var recI func(k int, cur []ispec)
					recI = func(k int, cur []ispec) {
						if k == ni {
							ilists = append(ilists, append([]ispec{}, cur...))
							return
						}
						cand := nm + k // manifests then earlier indexes, numbered 0..cand-1
						for a := 0; a < cand; a++ {
							for b := a; b < cand; b++ {
								mem := []int{a}
								if b != a {
									mem = []int{a, b}
								}
								for s := -1; s < nm; s++ {
									recI(k+1, append(cur, ispec{mem, s}))
								}
							}
						}
					}
					recI(0, nil)
					for _, ml := range mlists {
						for _, il := range ilists {
							for flavour := 0; flavour < 3; flavour++ {
								if flavour == 1 && false {
									continue
								}
								d := &DAG{}
								var leaves []int
								for i := 0; i < nl; i++ {
									mt, data := MTLayer, fmt.Sprintf("blob-%d", i)
									if i == 0 {
										mt = MTConfig
									}
									if i == sp {
										switch lv {
										case "empty":
											data = ""
										case "foreign":
											mt = MTForeign
										case "twomt":
											mt, data = MTLayerGzip, "blob-0"
										}
									}
									leaves = append(leaves, d.Blob(fmt.Sprintf("B%d", i), mt, data))
								}
								var ms []int
								for k, m := range ml {
									o := no()
									if m.subject >= 0 {
										o.Subject = ms[m.subject]
									}
									var ls []int
									for _, l := range m.layers {
										ls = append(ls, leaves[l])
									}
									var id int
									switch {
									case flavour == 1 && k == 0:
										o.Docker = true
										id = d.Manifest(fmt.Sprintf("M%d", k), leaves[m.cfg], ls, o)
									case flavour == 2 && k == nm-1:
										o.ArtifactType = "application/vnd.test.art"
										id = d.Artifact(fmt.Sprintf("M%d", k), append([]int{leaves[m.cfg]}, ls...), o)
									default:
										id = d.Manifest(fmt.Sprintf("M%d", k), leaves[m.cfg], ls, o)
									}
									ms = append(ms, id)
								}
								all := append([]int{}, ms...)
								for k, x := range il {
									o := no()
									if x.subject >= 0 {
										o.Subject = ms[x.subject]
									}
									if flavour == 1 && k == 0 {
										o.Docker = true
									}
									var mem []int
									for _, a := range x.members {
										mem = append(mem, all[a])
									}
									all = append(all, d.Index(fmt.Sprintf("I%d", k), mem, o))
								}
								if len(d.Nodes) != nl+nm+ni {
									continue // two specs collapsed to identical content: a smaller shape covers it
								}
								key := d.canon()
								if seen[key] {
									continue
								}
								seen[key] = true
								d.Name = fmt.Sprintf("U%d", len(out))
								out = append(out, d)
							}
						}
					}
				}
			}
		}
	}
	return out
}

func (d *DAG) canon() string {
	var parts []string
	for _, n := range d.Nodes {
		parts = append(parts, string(n.Desc.Digest)+n.Desc.MediaType)
	}
	sort.Strings(parts)
	return strings.Join(parts, "|")
}

// MergeSameDigest returns a copy of d in which nodes that share a digest (the same bytes listed under
// several media types) are merged into one node — what a digest-addressed store (an OCI layout) holds.
// Manifest bytes are unchanged; only the ground-truth node set and edge lists are merged.
func (d *DAG) MergeSameDigest() *DAG {
	canon := map[digest.Digest]int{}
	remap := make([]int, len(d.Nodes))
	out := &DAG{Name: d.Name + "+merged"}
	for _, n := range d.Nodes {
		if id, ok := canon[n.Desc.Digest]; ok {
			remap[n.ID] = id
			continue
		}
		c := *n
		c.ID = len(out.Nodes)
		canon[n.Desc.Digest] = c.ID
		remap[n.ID] = c.ID
		out.Nodes = append(out.Nodes, &c)
	}
	for _, n := range out.Nodes {
		var succ []int
		seen := map[int]bool{}
		for _, s := range n.Succ {
			if m := remap[s]; !seen[m] {
				seen[m] = true
				succ = append(succ, m)
			}
		}
		n.Succ = succ
		if n.Subject >= 0 {
			n.Subject = remap[n.Subject]
		}
	}
	return out
}
