package common

import (
	"bytes"
	"context"
	"crypto/sha256"
	"crypto/sha512"
	"encoding/hex"
	"encoding/json"
	"errors"
	"fmt"
	"github.com/opencontainers/go-digest"
	"io"
	"os"
	"path/filepath"
	"sort"
	"strings"

	ocispec "github.com/opencontainers/image-spec/specs-go/v1"
	"oras.land/oras-go/v2/content"
	"oras.land/oras-go/v2/content/oci"
	"oras.land/oras-go/v2/errdef"
)

// Op is one operation of a store history over a DAG universe and a set of references.
type Op struct {
	Kind string // push | tag | untag | delete | gc | save | resolve | fetch | exists | preds | tags | reopen
	Node int
	Ref  string
	Ann  bool // tag with an annotated descriptor
	// Foreign (with Ann): the annotated descriptor also carries the reference-name annotation of a name it
	// was resolved under somewhere else ("elsewhere": a layout read from disk hands out such descriptors)
	Foreign bool
}

func (o Op) Str(d *DAG) string {
	n := ""
	if o.Node >= 0 && o.Node < len(d.Nodes) {
		n = d.Nodes[o.Node].Name
	}
	switch o.Kind {
	case "push", "delete", "fetch", "exists", "preds":
		return o.Kind + "(" + n + ")"
	case "tag":
		if o.Ann && o.Foreign {
			return "tag(" + n + "+ann+ref.name=elsewhere," + o.Ref + ")"
		}
		if o.Ann {
			return "tag(" + n + "+ann," + o.Ref + ")"
		}
		return "tag(" + n + "," + o.Ref + ")"
	case "untag", "resolve":
		return o.Kind + "(" + o.Ref + ")"
	case "pushbad":
		return "push(bytes that are not JSON, under the image-manifest media type)"
	}
	return o.Kind
}

// BadManifest is content whose descriptor is right (digest, size) and names a manifest media type,
// while the bytes are not a manifest at all: a push of it has to be refused without leaving traces
// that break the layout.
var BadManifestBytes = []byte("this is not JSON")

func BadManifestDesc() ocispec.Descriptor {
	return ocispec.Descriptor{MediaType: ocispec.MediaTypeImageManifest, Digest: digest.FromBytes(BadManifestBytes), Size: int64(len(BadManifestBytes))}
}

// ErrClass maps an error to the class the properties talk about.
func ErrClass(err error) string {
	switch {
	case err == nil:
		return "ok"
	case errors.Is(err, errdef.ErrAlreadyExists):
		return "exists"
	case errors.Is(err, errdef.ErrNotFound):
		return "notfound"
	case errors.Is(err, errdef.ErrMissingReference):
		return "missingref"
	case errors.Is(err, errdef.ErrInvalidReference):
		return "invalidref"
	}
	return "other:" + err.Error()
}

// TagDesc is the descriptor a history passes to Tag for node id.
func TagDesc(d *DAG, id int, ann bool) ocispec.Descriptor {
	desc := d.Nodes[id].Desc
	if ann {
		// one shared map per node: a caller tagging the same descriptor value
		// under several names hands the store the same annotations map each time
		n := d.Nodes[id]
		if n.TagAnn == nil {
			n.TagAnn = map[string]string{"verif.note": n.Name}
		}
		desc.Annotations = n.TagAnn
	}
	return desc
}

// OCIStore is the live read-write interface used by histories.
type OCIStore interface {
	Store
	Delete(ctx context.Context, target ocispec.Descriptor) error
	Untag(ctx context.Context, reference string) error
	Tags(ctx context.Context, last string, fn func(tags []string) error) error
}

// ApplyOCI executes op on an OCI store.
func ApplyOCI(st *oci.Store, d *DAG, op Op) error {
	ctx := context.Background()
	switch op.Kind {
	case "push":
		n := d.Nodes[op.Node]
		return st.Push(ctx, n.Desc, bytes.NewReader(n.Bytes))
	case "pushbad":
		return st.Push(ctx, BadManifestDesc(), bytes.NewReader(BadManifestBytes))
	case "tag":
		desc := TagDesc(d, op.Node, op.Ann)
		if op.Foreign {
			desc.Annotations = map[string]string{"verif.note": d.Nodes[op.Node].Name, ocispec.AnnotationRefName: "elsewhere"}
		}
		return st.Tag(ctx, desc, op.Ref)
	case "untag":
		return st.Untag(ctx, op.Ref)
	case "delete":
		return st.Delete(ctx, d.Nodes[op.Node].Desc)
	case "gc":
		return st.GC(ctx)
	case "save":
		return st.SaveIndex()
	}
	panic("unknown op " + op.Kind)
}

// ---- reference model: content map + tag map (AutoGC off)

type TagVal struct {
	Node int
	Ann  bool
}

type Model struct {
	D       *DAG
	Present map[int]bool
	Tags    map[string]TagVal
	// EmptyRefOK: the empty reference is an ordinary key (memory store); otherwise it is refused (OCI, file).
	EmptyRefOK bool
}

func NewModel(d *DAG) *Model {
	return &Model{D: d, Present: map[int]bool{}, Tags: map[string]TagVal{}}
}

func (m *Model) Clone() *Model {
	c := NewModel(m.D)
	c.EmptyRefOK = m.EmptyRefOK
	for k, v := range m.Present {
		c.Present[k] = v
	}
	for k, v := range m.Tags {
		c.Tags[k] = v
	}
	return c
}

// Apply advances the model and returns the expected error class.
func (m *Model) Apply(op Op) string {
	switch op.Kind {
	case "push":
		if m.Present[op.Node] {
			return "exists"
		}
		m.Present[op.Node] = true
		return "ok"
	case "tag":
		if op.Ref == "" && !m.EmptyRefOK {
			return "missingref"
		}
		if !m.Present[op.Node] {
			return "notfound"
		}
		m.Tags[op.Ref] = TagVal{op.Node, op.Ann}
		return "ok"
	case "untag":
		if op.Ref == "" {
			return "missingref"
		}
		if _, ok := m.Tags[op.Ref]; !ok {
			return "notfound"
		}
		delete(m.Tags, op.Ref)
		return "ok"
	case "delete":
		if !m.Present[op.Node] {
			return "notfound"
		}
		delete(m.Present, op.Node)
		for r, v := range m.Tags {
			if v.Node == op.Node {
				delete(m.Tags, r)
			}
		}
		return "ok"
	case "save":
		return "ok"
	case "gc":
		m.GC()
		return "ok"
	}
	panic("model: unknown op " + op.Kind)
}

// Expect renders the observation the model predicts (same format as Observe with digests=false).
func (m *Model) Expect(refs []string) string {
	d := m.D
	var sb strings.Builder
	for _, n := range d.Nodes {
		var preds []string
		for _, p := range d.Preds(n.ID, m.Present) {
			preds = append(preds, d.Nodes[p].Name)
		}
		sort.Strings(preds)
		fmt.Fprintf(&sb, "%s:exists=%v,fetch=%v,preds=%v\n", n.Name, m.Present[n.ID], m.Present[n.ID], preds)
	}
	for _, r := range refs {
		if v, ok := m.Tags[r]; ok {
			fmt.Fprintf(&sb, "ref %q -> %s ann=%v\n", r, d.Nodes[v.Node].Name, v.Ann)
		} else if r == "" && !m.EmptyRefOK {
			fmt.Fprintf(&sb, "ref %q -> err missingref\n", r)
		} else {
			fmt.Fprintf(&sb, "ref %q -> err notfound\n", r)
		}
	}
	var tags []string
	for r := range m.Tags {
		tags = append(tags, r)
	}
	sort.Strings(tags)
	fmt.Fprintf(&sb, "tags=%v\n", tags)
	return sb.String()
}

// ReadStore is what an observation needs.
type ReadStore interface {
	content.ReadOnlyStorage
	content.Resolver
	content.PredecessorFinder
}

type tagLister interface {
	Tags(ctx context.Context, last string, fn func(tags []string) error) error
}

// Observe renders every answer the store gives over the universe. With
// digests=true it also records Resolve-by-digest for every node (used for
// live-vs-reopened equality, where no model is needed).
func Observe(st ReadStore, d *DAG, refs []string, digests bool) string {
	ctx := context.Background()
	var sb strings.Builder
	for _, n := range d.Nodes {
		ex, err := st.Exists(ctx, n.Desc)
		exs := fmt.Sprint(ex)
		if err != nil {
			exs = "err:" + ErrClass(err)
		}
		fetch := "false"
		rc, err := st.Fetch(ctx, n.Desc)
		if err == nil {
			b, rerr := io.ReadAll(rc)
			rc.Close()
			switch {
			case rerr != nil:
				fetch = "readerr:" + rerr.Error()
			case bytes.Equal(b, n.Bytes):
				fetch = "true"
			default:
				fetch = "WRONG-BYTES"
			}
		} else if ErrClass(err) != "notfound" {
			fetch = "err:" + ErrClass(err)
		}
		ps, err := st.Predecessors(ctx, n.Desc)
		var preds []string
		for _, p := range ps {
			if id := d.Find(p); id >= 0 {
				preds = append(preds, d.Nodes[id].Name)
			} else {
				preds = append(preds, "?"+p.Digest.Encoded()[:8])
			}
		}
		sort.Strings(preds)
		if err != nil {
			preds = []string{"err:" + ErrClass(err)}
		}
		fmt.Fprintf(&sb, "%s:exists=%s,fetch=%s,preds=%v\n", n.Name, exs, fetch, preds)
	}
	for _, r := range refs {
		desc, err := st.Resolve(ctx, r)
		if err != nil {
			fmt.Fprintf(&sb, "ref %q -> err %s\n", r, ErrClass(err))
			continue
		}
		id := d.Find(desc)
		nm := "?" + desc.MediaType + "/" + desc.Digest.Encoded()[:8]
		if id >= 0 {
			nm = d.Nodes[id].Name
		}
		_, ann := desc.Annotations["verif.note"]
		extra := ""
		for k := range desc.Annotations {
			if k != "verif.note" && k != ocispec.AnnotationRefName {
				extra += " extra-annotation:" + k
			}
		}
		if rn, ok := desc.Annotations[ocispec.AnnotationRefName]; ok && rn != r && rn != "elsewhere" {
			// the reference-name annotation may be absent (live store) or name r (reopened store), never another reference
			extra += " refname-of-another-reference:" + rn
		}
		fmt.Fprintf(&sb, "ref %q -> %s ann=%v%s\n", r, nm, ann, extra)
	}
	if tl, ok := st.(tagLister); ok {
		var tags []string
		tl.Tags(ctx, "", func(t []string) error { tags = append(tags, t...); return nil })
		fmt.Fprintf(&sb, "tags=%v\n", tags)
	}
	if digests {
		for _, n := range d.Nodes {
			desc, err := st.Resolve(ctx, n.Desc.Digest.String())
			if err != nil {
				fmt.Fprintf(&sb, "digest %s -> err %s\n", n.Name, ErrClass(err))
			} else {
				// resolve-by-digest answers with the plain descriptor: further members would be a difference
				var extra []string
				for k := range desc.Annotations {
					extra = append(extra, "annotation:"+k)
				}
				sort.Strings(extra)
				if desc.Platform != nil {
					extra = append(extra, "platform")
				}
				if desc.ArtifactType != "" {
					extra = append(extra, "artifactType")
				}
				fmt.Fprintf(&sb, "digest %s -> %s %d %v\n", n.Name, desc.MediaType, desc.Size, extra)
			}
		}
	}
	return sb.String()
}

// ---- raw-directory validator written from image-layout.md

// ValidateLayout checks the directory against the image-layout rules the
// property names; it returns "" when valid.
func ValidateLayout(dir string) string {
	b, err := os.ReadFile(filepath.Join(dir, "oci-layout"))
	if err != nil {
		return "oci-layout unreadable: " + err.Error()
	}
	var lay struct {
		Version string `json:"imageLayoutVersion"`
	}
	if err := json.Unmarshal(b, &lay); err != nil || lay.Version != "1.0.0" {
		return fmt.Sprintf("oci-layout does not parse as version 1.0.0: %q", b)
	}
	b, err = os.ReadFile(filepath.Join(dir, "index.json"))
	if err != nil {
		return "index.json unreadable: " + err.Error()
	}
	var idx ocispec.Index
	if err := json.Unmarshal(b, &idx); err != nil {
		return fmt.Sprintf("index.json does not parse: %v (%d bytes)", err, len(b))
	}
	if idx.SchemaVersion != 2 {
		return "index.json schemaVersion != 2"
	}
	if bad := ValidateBlobsStrict(dir); bad != "" {
		return bad
	}
	for _, m := range idx.Manifests {
		if m.Annotations[ocispec.AnnotationRefName] == "" {
			continue
		}
		fi, err := os.Stat(filepath.Join(dir, "blobs", m.Digest.Algorithm().String(), m.Digest.Encoded()))
		if err != nil {
			return fmt.Sprintf("index.json entry %q points to a missing blob %s", m.Annotations[ocispec.AnnotationRefName], m.Digest)
		}
		if fi.Size() != m.Size {
			return fmt.Sprintf("index.json entry %q records size %d, blob has %d", m.Annotations[ocispec.AnnotationRefName], m.Size, fi.Size())
		}
	}
	return ""
}

// ValidateBlobsStrict additionally rejects any file under blobs/<alg>/ whose
// name is not the digest of its content at all (e.g. a partial temporary file).
func ValidateBlobsStrict(dir string) string {
	if bad := ValidateBlobs(dir); bad != "" {
		return bad
	}
	algs, _ := os.ReadDir(filepath.Join(dir, "blobs"))
	for _, a := range algs {
		want := map[string]int{"sha256": 64, "sha384": 96, "sha512": 128}[a.Name()]
		ents, _ := os.ReadDir(filepath.Join(dir, "blobs", a.Name()))
		for _, e := range ents {
			if want == 0 || len(e.Name()) != want || strings.Trim(e.Name(), "0123456789abcdef") != "" {
				return fmt.Sprintf("file blobs/%s/%s is not named by a digest of its content", a.Name(), trunc([]byte(e.Name()), 24))
			}
		}
	}
	return ""
}

// ValidateBlobs checks that every file under blobs/<alg>/ is named by the digest of its bytes.
func ValidateBlobs(dir string) string {
	algs, _ := os.ReadDir(filepath.Join(dir, "blobs"))
	for _, a := range algs {
		if !a.IsDir() {
			continue
		}
		ents, _ := os.ReadDir(filepath.Join(dir, "blobs", a.Name()))
		for _, e := range ents {
			p := filepath.Join(dir, "blobs", a.Name(), e.Name())
			b, err := os.ReadFile(p)
			if err != nil {
				return "blob unreadable: " + p
			}
			var sum string
			switch a.Name() {
			case "sha256":
				h := sha256.Sum256(b)
				sum = hex.EncodeToString(h[:])
			case "sha512":
				h := sha512.Sum512(b)
				sum = hex.EncodeToString(h[:])
			case "sha384":
				h := sha512.Sum384(b)
				sum = hex.EncodeToString(h[:])
			default:
				continue
			}
			if len(e.Name()) == len(sum) && sum != e.Name() {
				return fmt.Sprintf("blob file %s/%s does not hash to its name (content %q)", a.Name(), e.Name()[:12], trunc(b, 40))
			}
		}
	}
	return ""
}

func trunc(b []byte, n int) string {
	if len(b) > n {
		return string(b[:n]) + "…"
	}
	return string(b)
}

// IndexEntries parses index.json and returns its entries.
func IndexEntries(dir string) ([]ocispec.Descriptor, error) {
	b, err := os.ReadFile(filepath.Join(dir, "index.json"))
	if err != nil {
		return nil, err
	}
	var idx ocispec.Index
	if err := json.Unmarshal(b, &idx); err != nil {
		return nil, err
	}
	return idx.Manifests, nil
}

// BlobFiles lists blobs/<alg>/<hex> relative names, sorted.
func BlobFiles(dir string) []string {
	var out []string
	algs, _ := os.ReadDir(filepath.Join(dir, "blobs"))
	for _, a := range algs {
		ents, _ := os.ReadDir(filepath.Join(dir, "blobs", a.Name()))
		for _, e := range ents {
			out = append(out, a.Name()+"/"+e.Name())
		}
	}
	sort.Strings(out)
	return out
}

// Reopen opens the directory again in one of three ways.
func Reopen(dir, how string) (ReadStore, func(), error) {
	ctx := context.Background()
	switch how {
	case "rw":
		st, err := oci.New(dir)
		if err != nil {
			return nil, nil, err
		}
		return st, func() {}, nil
	case "fs":
		st, err := oci.NewFromFS(ctx, os.DirFS(dir))
		if err != nil {
			return nil, nil, err
		}
		return st, func() {}, nil
	default:
		// "tar": a fresh archive of the directory; "tar-after:<old>": the members of the archive <old>
		// followed by the directory's current files (an archive brought up to date by appending)
		tp := dir + ".reopen.tar"
		old := ""
		if strings.HasPrefix(how, "tar-after:") {
			old = strings.TrimPrefix(how, "tar-after:")
		}
		if err := TarDirAfter(old, dir, tp); err != nil {
			return nil, nil, err
		}
		st, err := oci.NewFromTar(ctx, tp)
		if err != nil {
			os.Remove(tp)
			return nil, nil, err
		}
		return st, func() { os.Remove(tp) }, nil
	}
}

// ---- garbage-collection model (written from the property text; least fixed points, no order dependence)

// Tagged reports whether node id carries a tag in the model.
func (m *Model) Tagged(id int) bool {
	for _, v := range m.Tags {
		if v.Node == id {
			return true
		}
	}
	return false
}

// DeleteAutoGC applies Delete(target) with automatic garbage collection and
// returns the removed set. ambiguous is true when the statement's clauses
// conflict for this state (a referrer that must go is still linked from a
// surviving node); such states are not judged.
func (m *Model) DeleteAutoGC(target int) (removed map[int]bool, ambiguous bool, class string) {
	if !m.Present[target] {
		return nil, false, "notfound"
	}
	d := m.D
	S := map[int]bool{target: true}
	// tags naming the target go with it
	tagged := func(id int) bool {
		for _, v := range m.Tags {
			if v.Node == id && id != target {
				return true
			}
		}
		return false
	}
	for changed := true; changed; {
		changed = false
		for _, n := range d.Nodes {
			if S[n.ID] || !m.Present[n.ID] || tagged(n.ID) {
				continue
			}
			// untagged manifest whose subject was removed
			if n.Kind.IsManifest() && n.Subject >= 0 && S[n.Subject] {
				S[n.ID], changed = true, true
				continue
			}
			// untagged node that thereby lost its last predecessor
			preds := d.Preds(n.ID, m.Present)
			if len(preds) == 0 {
				continue
			}
			all := true
			for _, p := range preds {
				if !S[p] {
					all = false
				}
			}
			if all {
				S[n.ID], changed = true, true
			}
		}
	}
	for id := range S {
		if id == target {
			continue
		}
		for _, p := range d.Preds(id, m.Present) {
			if !S[p] {
				ambiguous = true
			}
		}
	}
	for id := range S {
		delete(m.Present, id)
	}
	for r, v := range m.Tags {
		if v.Node == target {
			delete(m.Tags, r)
		}
	}
	return S, ambiguous, "ok"
}

// GC applies the garbage collector: keep the closure of tagged nodes plus every
// stored manifest whose subject chain reaches a kept manifest (with its closure).
func (m *Model) GC() {
	d := m.D
	K := map[int]bool{}
	var addClosure func(id int)
	addClosure = func(id int) {
		if K[id] || !m.Present[id] {
			return // traversal stops at absent content
		}
		K[id] = true
		for _, x := range d.Nodes[id].Succ {
			addClosure(x)
		}
	}
	for _, v := range m.Tags {
		addClosure(v.Node)
	}
	for changed := true; changed; {
		changed = false
		for _, n := range d.Nodes {
			if K[n.ID] || !m.Present[n.ID] || !n.Kind.IsManifest() || n.Subject < 0 {
				continue
			}
			// walk the subject chain through stored manifests
			cur := n
			for cur.Subject >= 0 {
				s := cur.Subject
				if K[s] {
					addClosure(n.ID)
					changed = true
					break
				}
				if s == n.ID {
					break
				}
				if !m.Present[s] {
					break
				}
				cur = d.Nodes[s]
			}
		}
	}
	for id := range m.Present {
		if !K[id] {
			delete(m.Present, id)
		}
	}
}

// ---- universe and alphabet shared by the crash harness (C10) and its uninstrumented conformance driver

func CrashUniverse() *DAG {
	d := &DAG{Name: "c10"}
	b1 := d.Blob("B1", MTConfig, "{}")
	b2 := d.Blob("B2", MTLayer, "layer-2")
	m1 := d.Manifest("M1", b1, []int{b2}, ManifestOpt{Subject: -1})
	d.Manifest("M2", b1, nil, ManifestOpt{Subject: m1, ArtifactType: "application/vnd.test.ref"})
	d.Blob("B3", MTLayer, strings.Repeat("x", 100))
	return d
}

func CrashAlphabet(d *DAG) []Op {
	var ops []Op
	for i := range d.Nodes {
		ops = append(ops, Op{Kind: "push", Node: i})
	}
	ops = append(ops,
		Op{Kind: "tag", Node: 2, Ref: "a"}, Op{Kind: "tag", Node: 3, Ref: "a"}, Op{Kind: "tag", Node: 2, Ref: "b"},
		Op{Kind: "tag", Node: 0, Ref: "c"}, Op{Kind: "tag", Node: 3, Ref: "b", Ann: true}, Op{Kind: "tag", Node: 4, Ref: "c"},
		Op{Kind: "tag", Node: 3, Ref: "b"},            // the same content and reference as the annotated tag: only the descriptor's annotations differ
		Op{Kind: "tag", Node: 3, Ref: "a", Ann: true}, // a second reference tagged with the same annotated descriptor (one shared annotations map)
		Op{Kind: "untag", Ref: "a"}, Op{Kind: "untag", Ref: "b"},
		Op{Kind: "delete", Node: 0}, Op{Kind: "delete", Node: 2}, Op{Kind: "delete", Node: 3}, Op{Kind: "delete", Node: 1},
		Op{Kind: "gc"}, Op{Kind: "save"})
	return ops
}
