package common

import (
	"bytes"
	"encoding/json"
	"fmt"
	"io"
	"net/http"
	"net/url"
	"regexp"
	"sort"
	"strconv"
	"strings"
	gosync "sync"

	"github.com/opencontainers/go-digest"
	ocispec "github.com/opencontainers/image-spec/specs-go/v1"
	"verif.local/engine/vs"
)

// Registry is an in-process reference model of an OCI distribution-spec
// registry, used as the http.RoundTripper / remote.Client of a Repository. No
// sockets: every exchange is a function call and a scheduling point.

// Profile is the capability profile of the modelled registry.
type Profile struct {
	ReferrersAPI   bool
	DigestHeader   int  // 0 always, 1 never, 2 on GET only
	AcceptRanges   bool // blobs: Accept-Ranges: bytes and Range support
	MountFallback  bool // cross-repository mount answers 202 (upload session) instead of 201
	NoHeadLength   bool // HEAD responses carry no Content-Length (-1)
	OCISubject     bool // OCI-Subject header on manifest PUT with a subject (only with ReferrersAPI)
	FilterApplied  int  // referrers artifactType filter: 0 applied+header, 1 applied+annotation, 2 not applied
	PageSize       int  // server-imposed page size for listings (0 = none)
	LinkForm       int  // 0 absolute URL, 1 relative path, 2 relative with extra parameters and spaces, 3 rel=next, 4 rel = "next", 5 REL="next", 6 another parameter before rel
	NoGetLength    bool // GET responses carry no Content-Length (-1, chunked)
	CatalogEnabled bool
}

func (p Profile) String() string {
	return fmt.Sprintf("api=%v,dh=%d,ranges=%v,mountfb=%v,nohead=%v,subj=%v,filter=%d,page=%d,link=%d,noget=%v",
		p.ReferrersAPI, p.DigestHeader, p.AcceptRanges, p.MountFallback, p.NoHeadLength, p.OCISubject, p.FilterApplied, p.PageSize, p.LinkForm, p.NoGetLength)
}

type regManifest struct {
	bytes     []byte
	mediaType string
}

type RegRepo struct {
	Blobs     map[digest.Digest][]byte
	Manifests map[digest.Digest]regManifest
	Tags      map[string]digest.Digest
	uploads   map[string]bool
}

// ReqRecord is one request seen by the registry.
type ReqRecord struct {
	Method string
	Host   string
	Path   string
	Query  string
	Header http.Header
	Body   []byte
	Status int
}

// Corruption describes one single-field corruption applied to the idx-th response.
type Corruption struct {
	At   int    // response index (0-based), -1 = none
	Kind string // digest-wrong | digest-wrong-sha512 | digest-malformed | length+1 | length-1 | length-absent | ctype-other | ctype-garbage | status-500 | status-404 | conn-error
}

type Registry struct {
	Host    string
	Prof    Profile
	Repos   map[string]*RegRepo
	Log     []ReqRecord
	Rejects []string // validator rejections: non-conforming requests
	Corrupt Corruption
	// FailDeleteOf makes DELETE of this manifest digest answer 500 (index GC failure injection).
	Hook     func(rec *ReqRecord) (status int, handled bool)
	nUpload  int
	nResp    int
	mu       gosync.Mutex // real lock: registry state is shared by concurrent requests (free-running race pass)
	Applied  string       // description of the corruption actually applied
	ReadBody int64        // bytes of the largest response body actually consumed by the client (set by counting readers)
	bodies   []*countingBody
}

func NewRegistry(host string, p Profile) *Registry {
	return &Registry{Host: host, Prof: p, Repos: map[string]*RegRepo{}, Corrupt: Corruption{At: -1}}
}

func (g *Registry) Repo(name string) *RegRepo {
	r := g.Repos[name]
	if r == nil {
		r = &RegRepo{Blobs: map[digest.Digest][]byte{}, Manifests: map[digest.Digest]regManifest{}, Tags: map[string]digest.Digest{}, uploads: map[string]bool{}}
		g.Repos[name] = r
	}
	return r
}

// Do implements remote.Client.
func (g *Registry) Do(req *http.Request) (*http.Response, error) { return g.RoundTrip(req) }

type countingBody struct {
	r    io.Reader
	n    int64
	size int64
	// eofWithLast: like net/http for a body of known length, the read that delivers the last
	// byte also reports io.EOF
	eofWithLast bool
}

func (c *countingBody) Read(p []byte) (int, error) {
	n, err := c.r.Read(p)
	c.n += int64(n)
	if c.eofWithLast && err == nil && n > 0 && c.n == c.size {
		err = io.EOF
	}
	return n, err
}
func (c *countingBody) Close() error { return nil }

// MaxBodyRead returns the largest number of bytes the client consumed from any metadata response body.
func (g *Registry) MaxBodyRead() int64 {
	var m int64
	for _, b := range g.bodies {
		if b.n > m {
			m = b.n
		}
	}
	return m
}

var (
	nameRe   = regexp.MustCompile(`^[a-z0-9]+(?:(?:\.|_|__|-+)[a-z0-9]+)*(?:/[a-z0-9]+(?:(?:\.|_|__|-+)[a-z0-9]+)*)*$`)
	tagRe    = regexp.MustCompile(`^[a-zA-Z0-9_][a-zA-Z0-9._-]{0,127}$`)
	rangeRe  = regexp.MustCompile(`^bytes=(\d+)-(\d+)$`)
	digestRe = regexp.MustCompile(`^[a-z0-9]+(?:[+._-][a-z0-9]+)*:[a-zA-Z0-9=_-]+$`)
)

func (g *Registry) reject(rec *ReqRecord, why string) {
	g.Rejects = append(g.Rejects, fmt.Sprintf("%s %s?%s: %s", rec.Method, rec.Path, rec.Query, why))
}

func allowedQuery(q url.Values, keys ...string) string {
	for k := range q {
		ok := false
		for _, a := range keys {
			if k == a {
				ok = true
			}
		}
		if !ok {
			return k
		}
	}
	return ""
}

func (g *Registry) resp(req *http.Request, status int, hdr http.Header, body []byte, length int64) *http.Response {
	if hdr == nil {
		hdr = http.Header{}
	}
	cb := &countingBody{r: bytes.NewReader(body), size: int64(len(body)), eofWithLast: length >= 0}
	g.bodies = append(g.bodies, cb)
	return &http.Response{
		StatusCode: status, Status: fmt.Sprintf("%d %s", status, http.StatusText(status)),
		Proto: "HTTP/1.1", ProtoMajor: 1, ProtoMinor: 1,
		Header: hdr, Body: cb, ContentLength: length, Request: req,
	}
}

func errBody(code, msg string) []byte {
	b, _ := json.Marshal(map[string]any{"errors": []map[string]string{{"code": code, "message": msg}}})
	return b
}

func (g *Registry) errResp(req *http.Request, status int, code string) *http.Response {
	b := errBody(code, strings.ToLower(code))
	h := http.Header{"Content-Type": {"application/json"}}
	return g.resp(req, status, h, b, int64(len(b)))
}

// RoundTrip implements http.RoundTripper.
func (g *Registry) RoundTrip(req *http.Request) (*http.Response, error) {
	vs.Pt("http " + req.Method + " " + req.URL.Path)
	g.mu.Lock()
	defer g.mu.Unlock()
	rec := ReqRecord{Method: req.Method, Host: req.URL.Host, Path: req.URL.EscapedPath(), Query: req.URL.RawQuery, Header: req.Header.Clone()}
	if req.Body != nil && req.Body != http.NoBody {
		b, _ := io.ReadAll(req.Body)
		req.Body.Close()
		rec.Body = b
	}
	idx := g.nResp
	g.nResp++
	if g.Corrupt.At == idx && g.Corrupt.Kind == "conn-error" {
		g.Applied = "conn-error"
		rec.Status = -1
		g.Log = append(g.Log, rec)
		return nil, fmt.Errorf("injected connection error")
	}
	var resp *http.Response
	if g.Hook != nil {
		if st, ok := g.Hook(&rec); ok {
			resp = g.errResp(req, st, "UNKNOWN")
		}
	}
	if resp == nil {
		resp = g.handle(req, &rec)
	}
	if g.Corrupt.At == idx {
		g.corrupt(resp)
	}
	rec.Status = resp.StatusCode
	g.Log = append(g.Log, rec)
	return resp, nil
}

func (g *Registry) corrupt(resp *http.Response) {
	k := g.Corrupt.Kind
	switch k {
	case "digest-wrong":
		if resp.Header.Get("Docker-Content-Digest") != "" {
			resp.Header.Set("Docker-Content-Digest", digest.FromString("some other content").String())
			g.Applied = k
		}
	case "digest-wrong-sha512": // a well-formed digest of other content, under another registered algorithm than the one asked for
		if resp.Header.Get("Docker-Content-Digest") != "" {
			resp.Header.Set("Docker-Content-Digest", digest.SHA512.FromString("some other content").String())
			g.Applied = k
		}
	case "body-longer": // a chunked GET answer whose body goes on (100 KiB of white space) after the announced document
		if resp.Request != nil && resp.Request.Method == http.MethodGet && resp.StatusCode == 200 {
			old, _ := io.ReadAll(resp.Body)
			if len(old) == 0 {
				return
			}
			nb := append(old, bytes.Repeat([]byte{' '}, 100<<10)...)
			cb := &countingBody{r: bytes.NewReader(nb), size: int64(len(nb))}
			g.bodies = append(g.bodies, cb)
			resp.Body, resp.ContentLength = cb, -1
			resp.Header.Del("Content-Length")
			g.Applied = k
		}
	case "digest-malformed":
		if resp.Header.Get("Docker-Content-Digest") != "" {
			resp.Header.Set("Docker-Content-Digest", "sha256:nothex")
			g.Applied = k
		}
	case "length+1", "length-1":
		if resp.ContentLength >= 0 && resp.StatusCode < 300 {
			if k == "length+1" {
				resp.ContentLength++
			} else if resp.ContentLength > 0 {
				resp.ContentLength--
			} else {
				return
			}
			g.Applied = k
		}
	case "length-zero": // a 200 answer to a GET that declares Content-Length: 0 and has no body (a truncating cache)
		if resp.ContentLength > 0 && resp.StatusCode == 200 && resp.Request != nil && resp.Request.Method == http.MethodGet {
			resp.Body, resp.ContentLength = http.NoBody, 0
			resp.Header.Set("Content-Length", "0")
			g.Applied = k
		}
	case "length-absent":
		if resp.ContentLength >= 0 && resp.StatusCode < 300 {
			resp.ContentLength = -1
			g.Applied = k
		}
	case "ctype-other":
		if resp.Header.Get("Content-Type") != "" && resp.StatusCode < 300 {
			resp.Header.Set("Content-Type", "application/vnd.verif.other+json")
			g.Applied = k
		}
	case "ctype-garbage":
		if resp.Header.Get("Content-Type") != "" && resp.StatusCode < 300 {
			resp.Header.Set("Content-Type", "garbage/;;=")
			g.Applied = k
		}
	case "status-500":
		resp.StatusCode = 500
		g.Applied = k
	case "status-404":
		resp.StatusCode = 404
		g.Applied = k
	}
}

func (g *Registry) digestHeader(h http.Header, method string, d digest.Digest) {
	switch g.Prof.DigestHeader {
	case 0:
		h.Set("Docker-Content-Digest", d.String())
	case 2:
		if method == http.MethodGet {
			h.Set("Docker-Content-Digest", d.String())
		}
	}
}

func (g *Registry) handle(req *http.Request, rec *ReqRecord) *http.Response {
	p := req.URL.Path
	q := req.URL.Query()
	if req.URL.Host != g.Host {
		g.reject(rec, "request sent to host "+req.URL.Host)
	}
	if strings.Contains(rec.Path, "//") || strings.Contains(rec.Path, "%") {
		g.reject(rec, "path contains an empty or escaped segment")
	}
	if p == "/v2/" {
		return g.resp(req, 200, nil, []byte("{}"), 2)
	}
	if p == "/v2/_catalog" {
		if k := allowedQuery(q, "n", "last"); k != "" {
			g.reject(rec, "query parameter "+k+" not defined for the catalog")
		}
		var names []string
		for n := range g.Repos {
			names = append(names, n)
		}
		sort.Strings(names)
		return g.page(req, q, names, "repositories")
	}
	if !strings.HasPrefix(p, "/v2/") {
		g.reject(rec, "path outside /v2/")
		return g.errResp(req, 404, "UNKNOWN")
	}
	rest := strings.TrimPrefix(p, "/v2/")
	var name, kind, ref string
	for _, k := range []string{"/blobs/uploads/", "/manifests/", "/blobs/", "/tags/list", "/referrers/"} {
		if i := strings.LastIndex(rest, k); i >= 0 {
			name, kind, ref = rest[:i], k, rest[i+len(k):]
			break
		}
	}
	if kind == "" || !nameRe.MatchString(name) {
		g.reject(rec, "path does not match /v2/<name>/{blobs,manifests,tags/list,referrers,blobs/uploads}")
		return g.errResp(req, 404, "NAME_UNKNOWN")
	}
	if strings.Contains(ref, "/") {
		g.reject(rec, "extra path segment after the reference")
		return g.errResp(req, 404, "UNKNOWN")
	}
	repo := g.Repo(name)
	switch kind {
	case "/tags/list":
		if req.Method != http.MethodGet {
			g.reject(rec, "method not defined for tags/list")
		}
		if ref != "" {
			g.reject(rec, "extra path after tags/list")
		}
		if k := allowedQuery(q, "n", "last"); k != "" {
			g.reject(rec, "query parameter "+k+" not defined for tags/list")
		}
		var tags []string
		for t := range repo.Tags {
			tags = append(tags, t)
		}
		sort.Strings(tags)
		return g.page(req, q, tags, "tags")
	case "/referrers/":
		return g.referrers(req, rec, repo, ref, q)
	case "/blobs/uploads/":
		return g.upload(req, rec, name, repo, ref, q)
	case "/blobs/":
		return g.blob(req, rec, repo, ref, q)
	default:
		return g.manifest(req, rec, repo, ref, q)
	}
}

func (g *Registry) page(req *http.Request, q url.Values, items []string, key string) *http.Response {
	last := q.Get("last")
	if last != "" {
		i := sort.SearchStrings(items, last)
		if i < len(items) && items[i] == last {
			i++
		}
		items = items[i:]
	}
	n := 0
	if s := q.Get("n"); s != "" {
		n, _ = strconv.Atoi(s)
	}
	if g.Prof.PageSize > 0 && (n == 0 || g.Prof.PageSize < n) {
		n = g.Prof.PageSize
	}
	h := http.Header{"Content-Type": {"application/json"}}
	if n > 0 && len(items) > n {
		items = items[:n]
		nq := url.Values{}
		nq.Set("last", items[len(items)-1])
		if s := q.Get("n"); s != "" {
			nq.Set("n", s)
		}
		h.Set("Link", g.link(req, nq))
	}
	if items == nil {
		items = []string{}
	}
	b, _ := json.Marshal(map[string]any{key: items})
	return g.resp(req, 200, h, b, int64(len(b)))
}

func (g *Registry) link(req *http.Request, nq url.Values) string {
	switch g.Prof.LinkForm {
	case 0:
		u := *req.URL
		u.RawQuery = nq.Encode()
		return "<" + u.String() + `>; rel="next"`
	case 1:
		return "<" + req.URL.Path + "?" + nq.Encode() + `>; rel="next"`
	case 2:
		return "<" + req.URL.Path + "?" + nq.Encode() + `>;  rel="next"; title="more"`
	case 3: // RFC 8288: the relation type may be a token
		return "<" + req.URL.Path + "?" + nq.Encode() + `>; rel=next`
	case 4: // optional white space around "="
		return "<" + req.URL.Path + "?" + nq.Encode() + `>; rel = "next"`
	case 5: // parameter names are case-insensitive
		return "<" + req.URL.Path + "?" + nq.Encode() + `>; REL="next"`
	default: // another parameter first
		return "<" + req.URL.Path + "?" + nq.Encode() + `>; title="more"; rel="next"`
	}
}

func (g *Registry) blob(req *http.Request, rec *ReqRecord, repo *RegRepo, ref string, q url.Values) *http.Response {
	if !digestRe.MatchString(ref) {
		g.reject(rec, "blob reference is not a digest")
		return g.errResp(req, 400, "DIGEST_INVALID")
	}
	if len(q) > 0 {
		g.reject(rec, "query on a blob URL")
	}
	d := digest.Digest(ref)
	data, ok := repo.Blobs[d]
	switch req.Method {
	case http.MethodGet, http.MethodHead:
		if !ok {
			return g.errResp(req, 404, "BLOB_UNKNOWN")
		}
		h := http.Header{"Content-Type": {"application/octet-stream"}}
		g.digestHeader(h, req.Method, d)
		if g.Prof.AcceptRanges {
			h.Set("Accept-Ranges", "bytes")
		}
		if req.Method == http.MethodHead {
			l := int64(len(data))
			if g.Prof.NoHeadLength {
				l = -1
			}
			return g.resp(req, 200, h, nil, l)
		}
		if r := req.Header.Get("Range"); r != "" {
			m := rangeRe.FindStringSubmatch(r)
			if m == nil {
				g.reject(rec, "malformed Range header "+r)
				return g.errResp(req, 416, "UNKNOWN")
			}
			if !g.Prof.AcceptRanges {
				g.reject(rec, "Range sent although the registry did not advertise Accept-Ranges")
				return g.resp(req, 200, h, data, int64(len(data)))
			}
			a, _ := strconv.Atoi(m[1])
			b, _ := strconv.Atoi(m[2])
			if a > b || b >= len(data) {
				return g.errResp(req, 416, "UNKNOWN")
			}
			h.Set("Content-Range", fmt.Sprintf("bytes %d-%d/%d", a, b, len(data)))
			return g.resp(req, 206, h, data[a:b+1], int64(b+1-a))
		}
		l := int64(len(data))
		if g.Prof.NoGetLength {
			l = -1
		}
		return g.resp(req, 200, h, data, l)
	case http.MethodDelete:
		if !ok {
			return g.errResp(req, 404, "BLOB_UNKNOWN")
		}
		delete(repo.Blobs, d)
		h := http.Header{}
		g.digestHeader(h, req.Method, d)
		return g.resp(req, 202, h, nil, 0)
	}
	g.reject(rec, "method not defined for blobs")
	return g.errResp(req, 405, "UNSUPPORTED")
}

func (g *Registry) upload(req *http.Request, rec *ReqRecord, name string, repo *RegRepo, ref string, q url.Values) *http.Response {
	switch {
	case req.Method == http.MethodPost && ref == "":
		if k := allowedQuery(q, "mount", "from", "digest"); k != "" {
			g.reject(rec, "query parameter "+k+" not defined for upload POST")
		}
		if m := q.Get("mount"); m != "" {
			if !digestRe.MatchString(m) {
				g.reject(rec, "mount parameter is not a digest")
			}
			from := q.Get("from")
			if from != "" && !nameRe.MatchString(from) {
				g.reject(rec, "from parameter is not a repository name")
			}
			if src := g.Repos[from]; src != nil && !g.Prof.MountFallback {
				if data, ok := src.Blobs[digest.Digest(m)]; ok {
					repo.Blobs[digest.Digest(m)] = data
					h := http.Header{"Location": {"/v2/" + name + "/blobs/" + m}}
					g.digestHeader(h, "GET", digest.Digest(m))
					return g.resp(req, 201, h, nil, 0)
				}
			}
		}
		g.nUpload++
		id := fmt.Sprintf("u%d", g.nUpload)
		repo.uploads[id] = true
		h := http.Header{"Location": {"/v2/" + name + "/blobs/uploads/" + id + "?state=s" + id}}
		return g.resp(req, 202, h, nil, 0)
	case req.Method == http.MethodPut && ref != "":
		if k := allowedQuery(q, "digest", "state"); k != "" {
			g.reject(rec, "query parameter "+k+" not defined for upload PUT")
		}
		if !repo.uploads[ref] {
			return g.errResp(req, 404, "BLOB_UPLOAD_UNKNOWN")
		}
		if q.Get("state") != "s"+ref {
			// the session is only reachable through the Location the registry handed out
			return g.errResp(req, 404, "BLOB_UPLOAD_UNKNOWN")
		}
		if rec.Header.Get("Content-Type") != "application/octet-stream" {
			g.reject(rec, "upload PUT without Content-Type: application/octet-stream")
		}
		if req.ContentLength != int64(len(rec.Body)) {
			g.reject(rec, fmt.Sprintf("upload PUT Content-Length %d but body has %d bytes", req.ContentLength, len(rec.Body)))
		}
		d := digest.Digest(q.Get("digest"))
		if !digestRe.MatchString(string(d)) {
			g.reject(rec, "upload PUT without a valid digest parameter")
			return g.errResp(req, 400, "DIGEST_INVALID")
		}
		delete(repo.uploads, ref)
		if d.Algorithm().Available() && d.Algorithm().FromBytes(rec.Body) != d {
			return g.errResp(req, 400, "DIGEST_INVALID")
		}
		repo.Blobs[d] = rec.Body
		h := http.Header{"Location": {"/v2/" + name + "/blobs/" + d.String()}}
		g.digestHeader(h, "GET", d)
		return g.resp(req, 201, h, nil, 0)
	}
	g.reject(rec, "method/path not defined for blob uploads")
	return g.errResp(req, 405, "UNSUPPORTED")
}

var manifestTypes = map[string]bool{
	ocispec.MediaTypeImageManifest: true, ocispec.MediaTypeImageIndex: true, MTDockerManifest: true, MTDockerList: true, MTArtifact: true,
}

func (g *Registry) lookupManifest(repo *RegRepo, ref string) (digest.Digest, regManifest, bool) {
	var d digest.Digest
	if digestRe.MatchString(ref) && strings.Contains(ref, ":") {
		d = digest.Digest(ref)
	} else if t, ok := repo.Tags[ref]; ok {
		d = t
	} else {
		return "", regManifest{}, false
	}
	m, ok := repo.Manifests[d]
	return d, m, ok
}

func (g *Registry) manifest(req *http.Request, rec *ReqRecord, repo *RegRepo, ref string, q url.Values) *http.Response {
	isDigest := strings.Contains(ref, ":")
	if isDigest && !digestRe.MatchString(ref) || !isDigest && !tagRe.MatchString(ref) {
		g.reject(rec, "manifest reference is neither a tag nor a digest: "+ref)
		return g.errResp(req, 400, "MANIFEST_INVALID")
	}
	if len(q) > 0 {
		g.reject(rec, "query on a manifest URL")
	}
	switch req.Method {
	case http.MethodGet, http.MethodHead:
		d, m, ok := g.lookupManifest(repo, ref)
		if !ok {
			return g.errResp(req, 404, "MANIFEST_UNKNOWN")
		}
		h := http.Header{"Content-Type": {m.mediaType}}
		g.digestHeader(h, req.Method, d)
		if req.Method == http.MethodHead {
			l := int64(len(m.bytes))
			if g.Prof.NoHeadLength {
				l = -1
			}
			return g.resp(req, 200, h, nil, l)
		}
		l := int64(len(m.bytes))
		if g.Prof.NoGetLength {
			l = -1
		}
		return g.resp(req, 200, h, m.bytes, l)
	case http.MethodPut:
		ct := rec.Header.Get("Content-Type")
		if ct == "" {
			g.reject(rec, "manifest PUT without Content-Type")
		}
		if req.ContentLength != int64(len(rec.Body)) {
			g.reject(rec, fmt.Sprintf("manifest PUT Content-Length %d but body has %d bytes", req.ContentLength, len(rec.Body)))
		}
		d := digest.FromBytes(rec.Body)
		if isDigest {
			want := digest.Digest(ref)
			if want.Algorithm().Available() {
				d = want.Algorithm().FromBytes(rec.Body)
			}
			if d != want {
				return g.errResp(req, 400, "DIGEST_INVALID")
			}
		}
		var doc struct {
			MediaType string              `json:"mediaType"`
			Subject   *ocispec.Descriptor `json:"subject"`
		}
		if err := json.Unmarshal(rec.Body, &doc); err != nil {
			return g.errResp(req, 400, "MANIFEST_INVALID")
		}
		if doc.MediaType != "" && doc.MediaType != ct {
			g.reject(rec, "manifest PUT Content-Type "+ct+" differs from the document's mediaType "+doc.MediaType)
		}
		repo.Manifests[d] = regManifest{bytes: rec.Body, mediaType: ct}
		if !isDigest {
			repo.Tags[ref] = d
		}
		h := http.Header{"Location": {strings.TrimSuffix(req.URL.Path, ref) + d.String()}}
		g.digestHeader(h, "GET", d)
		if doc.Subject != nil && g.Prof.ReferrersAPI && g.Prof.OCISubject {
			h.Set("OCI-Subject", doc.Subject.Digest.String())
		}
		return g.resp(req, 201, h, nil, 0)
	case http.MethodDelete:
		d, _, ok := g.lookupManifest(repo, ref)
		if !ok {
			return g.errResp(req, 404, "MANIFEST_UNKNOWN")
		}
		if isDigest {
			delete(repo.Manifests, d)
			for t, td := range repo.Tags {
				if td == d {
					delete(repo.Tags, t)
				}
			}
		} else {
			delete(repo.Tags, ref)
		}
		h := http.Header{}
		g.digestHeader(h, req.Method, d)
		return g.resp(req, 202, h, nil, 0)
	}
	g.reject(rec, "method not defined for manifests")
	return g.errResp(req, 405, "UNSUPPORTED")
}

// ReferrersOf computes the referrers listing of the model state: every stored
// manifest whose subject is d, as descriptors with artifactType and annotations.
func (repo *RegRepo) ReferrersOf(d digest.Digest) []ocispec.Descriptor {
	var out []ocispec.Descriptor
	var ds []string
	for md := range repo.Manifests {
		ds = append(ds, string(md))
	}
	sort.Strings(ds)
	for _, s := range ds {
		md := digest.Digest(s)
		m := repo.Manifests[md]
		var doc struct {
			Subject      *ocispec.Descriptor `json:"subject"`
			ArtifactType string              `json:"artifactType"`
			Config       *ocispec.Descriptor `json:"config"`
			Annotations  map[string]string   `json:"annotations"`
		}
		if json.Unmarshal(m.bytes, &doc) != nil || doc.Subject == nil || doc.Subject.Digest != d {
			continue
		}
		at := doc.ArtifactType
		if at == "" && doc.Config != nil {
			at = doc.Config.MediaType
		}
		out = append(out, ocispec.Descriptor{MediaType: m.mediaType, Digest: md, Size: int64(len(m.bytes)), ArtifactType: at, Annotations: doc.Annotations})
	}
	return out
}

func (g *Registry) referrers(req *http.Request, rec *ReqRecord, repo *RegRepo, ref string, q url.Values) *http.Response {
	if req.Method != http.MethodGet {
		g.reject(rec, "method not defined for referrers")
	}
	if !digestRe.MatchString(ref) {
		g.reject(rec, "referrers reference is not a digest")
		return g.errResp(req, 400, "DIGEST_INVALID")
	}
	if k := allowedQuery(q, "artifactType", "n", "last"); k != "" {
		g.reject(rec, "query parameter "+k+" not defined for referrers")
	}
	if !g.Prof.ReferrersAPI {
		// a registry that predates the endpoint routes the path to its manifest handler: 404 MANIFEST_UNKNOWN
		return g.errResp(req, 404, "MANIFEST_UNKNOWN")
	}
	list := repo.ReferrersOf(digest.Digest(ref))
	h := http.Header{"Content-Type": {ocispec.MediaTypeImageIndex}}
	idx := ocispec.Index{MediaType: ocispec.MediaTypeImageIndex}
	idx.SchemaVersion = 2
	if at := q.Get("artifactType"); at != "" && g.Prof.FilterApplied != 2 {
		var f []ocispec.Descriptor
		for _, d := range list {
			if d.ArtifactType == at {
				f = append(f, d)
			}
		}
		list = f
		if g.Prof.FilterApplied == 0 {
			h.Set("OCI-Filters-Applied", "artifactType")
		} else {
			idx.Annotations = map[string]string{"org.opencontainers.referrers.filtersApplied": "artifactType"}
		}
	}
	// pagination by position
	start := 0
	if s := q.Get("last"); s != "" {
		start, _ = strconv.Atoi(s)
	}
	n := 0
	if s := q.Get("n"); s != "" {
		n, _ = strconv.Atoi(s)
	}
	if g.Prof.PageSize > 0 && (n == 0 || g.Prof.PageSize < n) {
		n = g.Prof.PageSize
	}
	if start > len(list) {
		start = len(list)
	}
	list = list[start:]
	if n > 0 && len(list) > n {
		list = list[:n]
		nq := url.Values{}
		nq.Set("last", strconv.Itoa(start+n))
		if at := q.Get("artifactType"); at != "" {
			nq.Set("artifactType", at)
		}
		if s := q.Get("n"); s != "" {
			nq.Set("n", s)
		}
		h.Set("Link", g.link(req, nq))
	}
	if list == nil {
		list = []ocispec.Descriptor{}
	}
	idx.Manifests = list
	b, _ := json.Marshal(idx)
	return g.resp(req, 200, h, b, int64(len(b)))
}

// PutManifest stores a manifest directly (test setup).
func (repo *RegRepo) PutManifest(d digest.Digest, b []byte, mediaType string) {
	repo.Manifests[d] = regManifest{bytes: b, mediaType: mediaType}
}

// ManifestBytes returns the stored bytes of a manifest.
func (repo *RegRepo) ManifestBytes(d digest.Digest) ([]byte, bool) {
	m, ok := repo.Manifests[d]
	return m.bytes, ok
}

// IndexManifests returns the digests of stored manifests of media type image index, sorted.
func (repo *RegRepo) IndexManifests() []digest.Digest {
	var out []digest.Digest
	for d, m := range repo.Manifests {
		if m.mediaType == ocispec.MediaTypeImageIndex {
			out = append(out, d)
		}
	}
	sort.Slice(out, func(i, j int) bool { return out[i] < out[j] })
	return out
}
