package common

import (
	"archive/tar"
	"io"
	"os"
	"path/filepath"

	"oras.land/oras-go/v2/content"
	"oras.land/oras-go/v2/content/file"
	"oras.land/oras-go/v2/content/memory"
	"oras.land/oras-go/v2/content/oci"
	"oras.land/oras-go/v2/registry/remote"
)

// Store is what every built-in target offers.
type Store interface {
	Full
	content.PredecessorFinder
}

// Scratch returns a fresh directory under the check's tmpfs scratch area.
func Scratch(prefix string) string {
	base := os.Getenv("VERIF_SCRATCH")
	if base == "" {
		base = "/dev/shm"
	}
	d, err := os.MkdirTemp(base, prefix)
	if err != nil {
		panic(err)
	}
	return d
}

// NewStore creates a fresh built-in store of the given kind and a cleanup function.
func NewStore(kind string) (Store, func()) {
	switch kind {
	case "memory":
		return memory.New(), func() {}
	case "oci":
		dir := Scratch("oci")
		s, err := oci.New(dir)
		if err != nil {
			panic(err)
		}
		return s, func() { os.RemoveAll(dir) }
	case "remote-api", "remote-tags":
		g := NewRegistry("reg.example", Profile{ReferrersAPI: kind == "remote-api", OCISubject: kind == "remote-api"})
		r, err := remote.NewRepository("reg.example/pair/repo")
		if err != nil {
			panic(err)
		}
		r.Client = g
		return r, func() {
			if len(g.Rejects) > 0 {
				panic("registry model rejected a request: " + g.Rejects[0])
			}
		}
	case "file", "file-cas":
		dir := Scratch("file")
		s, err := file.New(dir)
		if err != nil {
			panic(err)
		}
		s.ForceCAS = kind == "file-cas" // no restoring of same-content files under other names
		return s, func() { s.Close(); os.RemoveAll(dir) }
	}
	panic("unknown store kind " + kind)
}

// TarDir writes dir as a tar archive (regular files and directories only).
func TarDir(dir, tarPath string) error { return TarDirAfter("", dir, tarPath) }

// TarDirAfter writes an archive that holds the members of the archive oldTar ("" = none) followed
// by everything in dir, the way `tar -r` brings an archive up to date: a file that exists in both
// appears twice, and the later member is the current one.
func TarDirAfter(oldTar, dir, tarPath string) error {
	f, err := os.Create(tarPath)
	if err != nil {
		return err
	}
	defer f.Close()
	tw := tar.NewWriter(f)
	if oldTar != "" {
		of, err := os.Open(oldTar)
		if err != nil {
			return err
		}
		tr := tar.NewReader(of)
		for {
			hdr, err := tr.Next()
			if err == io.EOF {
				break
			}
			if err != nil {
				of.Close()
				return err
			}
			if err := tw.WriteHeader(hdr); err != nil {
				of.Close()
				return err
			}
			if _, err := io.Copy(tw, tr); err != nil {
				of.Close()
				return err
			}
		}
		of.Close()
	}
	err = filepath.Walk(dir, func(p string, fi os.FileInfo, err error) error {
		if err != nil {
			return err
		}
		rel, _ := filepath.Rel(dir, p)
		if rel == "." {
			return nil
		}
		hdr, err := tar.FileInfoHeader(fi, "")
		if err != nil {
			return err
		}
		hdr.Name = filepath.ToSlash(rel)
		if fi.IsDir() {
			hdr.Name += "/"
		}
		if err := tw.WriteHeader(hdr); err != nil {
			return err
		}
		if fi.Mode().IsRegular() {
			b, err := os.ReadFile(p)
			if err != nil {
				return err
			}
			if _, err := tw.Write(b); err != nil {
				return err
			}
		}
		return nil
	})
	if err != nil {
		return err
	}
	return tw.Close()
}
