package common

import (
	"os"

	"oras.land/oras-go/v2/content"
	"oras.land/oras-go/v2/content/file"
	"oras.land/oras-go/v2/content/memory"
	"oras.land/oras-go/v2/content/oci"
)

// Store is what every built-in target offers.
type Store interface {
	Full
	content.PredecessorFinder
}

// Scratch returns a fresh directory under the check's tmpfs scratch area.
func Scratch(prefix string) string {
	base := os.Getenv("VERIF_SCRATCH")
	if base == "" {
		base = "/dev/shm"
	}
	d, err := os.MkdirTemp(base, prefix)
	if err != nil {
		panic(err)
	}
	return d
}

// NewStore creates a fresh built-in store of the given kind and a cleanup function.
func NewStore(kind string) (Store, func()) {
	switch kind {
	case "memory":
		return memory.New(), func() {}
	case "oci":
		dir := Scratch("oci")
		s, err := oci.New(dir)
		if err != nil {
			panic(err)
		}
		return s, func() { os.RemoveAll(dir) }
	case "file":
		dir := Scratch("file")
		s, err := file.New(dir)
		if err != nil {
			panic(err)
		}
		return s, func() { s.Close(); os.RemoveAll(dir) }
	}
	panic("unknown store kind " + kind)
}
