package c04

import (
	"context"
	"errors"
	"fmt"
	"strings"

	ocispec "github.com/opencontainers/image-spec/specs-go/v1"
	oras "oras.land/oras-go/v2"
	"oras.land/oras-go/v2/content/memory"
	. "oras.land/oras-go/v2/internal/zzverif/common"
	"verif.local/engine/driver"
	"verif.local/engine/explore"
	"verif.local/engine/vs"
)

// Mount path: the destination implements registry.Mounter. For every blob the double answers
// "mounted" (content appears without any source read) or "fall back" (it calls getContent, as a
// registry answering 202 does); MountFrom offers no, one or two candidate repositories, the same one twice, or a list ending in a blank name. These answers
// are explored as input choices together with the schedules.
// Oracle: a mounted blob triggers exactly one OnMounted and no PreCopy/PostCopy and is never
// fetched from the source; a copied blob exactly one PreCopy then one PostCopy and one fetch.

func mountJobs(th bool) []driver.Job {
	var out []driver.Job
	for _, d := range Curated() {
		switch d.Name {
		case "diamond", "dup-layer", "fanout", "two-mediatypes":
		default:
			continue
		}
		for ncand := range MountCandidates {
			d, ncand := d, ncand
			if d.Name == "fanout" && ncand >= 2 {
				continue // 5 blobs x 2 candidates x 2 answers: covered by the smaller shapes
			}
			D := 1
			if th && d.Name != "fanout" {
				D = 2
			}
			name := fmt.Sprintf("mount/%s/candidates=%d/D%d", d.Name, ncand, D)
			out = append(out, driver.Job{Name: name, Run: func(c *driver.Ctx) {
				c.Explore(driver.Scenario{Name: name, Bases: []int{0, 2}, Bounds: explore.Bounds{Dev: D},
					Make: func() (func(), func(*vs.Result) *driver.Fail) { return mountRun(c, d, ncand) }})
			}})
		}
	}
	return out
}

func mountRun(c *driver.Ctx, d *DAG, ncand int) (func(), func(*vs.Result) *driver.Fail) {
	w := NewWorld(d, 2)
	srcM, dstM := memory.New(), memory.New()
	all := make([]int, len(d.Nodes))
	for i := range all {
		all[i] = i
	}
	if err := Populate(srcM, d, all); err != nil {
		panic(err)
	}
	root := len(d.Nodes) - 1
	var events []string
	src := &SrcTarget{Src: Src{W: w, Inner: srcM}, R: srcM, P: srcM}
	dst := &MountDst{Dst: Dst{W: w, Inner: dstM}, Mounted: map[int]int{}, Events: &events}
	cb := func(kind string) func(context.Context, ocispec.Descriptor) error {
		return func(_ context.Context, desc ocispec.Descriptor) error {
			vs.Pt(kind)
			w.Log(kind + ":" + d.Nodes[d.Find(desc)].Name)
			return nil
		}
	}
	opts := oras.CopyGraphOptions{Concurrency: 2, PreCopy: cb("pre"), PostCopy: cb("post"), OnCopySkipped: cb("skip"), OnMounted: cb("mounted"),
		MountFrom: func(ctx context.Context, desc ocispec.Descriptor) ([]string, error) {
			return MountCandidates[ncand], nil
		}}
	var err error
	body := func() { err = oras.CopyGraph(context.Background(), src, dst, d.Nodes[root].Desc, opts) }
	check := func(res *vs.Result) *driver.Fail {
		if f := driver.StdFail(res); f != nil {
			return f
		}
		tr := strings.Join(w.Trace, " ") + " | " + strings.Join(events, " ")
		if len(w.Fails) > 0 {
			return &driver.Fail{Sig: "mount: " + sigOf(w.Fails[0]), Detail: strings.Join(w.Fails, "\n") + "\n" + tr}
		}
		if err != nil {
			return &driver.Fail{Sig: "mount: fault-free copy failed", Detail: err.Error() + "\n" + tr}
		}
		if bad := CheckCopied(dstM, d, d.Closure(root, true)); bad != "" {
			return &driver.Fail{Sig: "mount: graph incomplete after success", Detail: bad + "\n" + tr}
		}
		count := func(ev string) int {
			n := 0
			for _, e := range w.Trace {
				if e == ev {
					n++
				}
			}
			return n
		}
		anyMounted := false
		for _, n := range d.Nodes {
			pre, post, mnt := count("pre:"+n.Name), count("post:"+n.Name), count("mounted:"+n.Name)
			switch {
			case dst.Mounted[n.ID] > 0:
				anyMounted = true
				if dst.Mounted[n.ID] > 1 || mnt != 1 || post != 0 || pre != 0 {
					return &driver.Fail{Sig: "mount: a mounted blob without exactly one OnMounted (and no PreCopy/PostCopy)", Detail: fmt.Sprintf("%s pre=%d post=%d mounted=%d; %s", n.Name, pre, post, mnt, tr)}
				}
				if w.FetchCount[n.ID] != 0 {
					return &driver.Fail{Sig: "mount: a mounted blob was also fetched from the source", Detail: n.Name + "; " + tr}
				}
			case w.PushDone[n.ID] > 0:
				if pre != 1 || post != 1 || mnt != 0 {
					return &driver.Fail{Sig: "mount: a copied node without exactly one PreCopy and one PostCopy", Detail: fmt.Sprintf("%s pre=%d post=%d mounted=%d; %s", n.Name, pre, post, mnt, tr)}
				}
				if !n.Kind.IsManifest() && w.FetchCount[n.ID] != 1 {
					return &driver.Fail{Sig: "mount: a copied blob was not fetched exactly once", Detail: fmt.Sprintf("%s fetched %d times; %s", n.Name, w.FetchCount[n.ID], tr)}
				}
			}
			if w.PushDone[n.ID]+dst.Mounted[n.ID] > 1 {
				return &driver.Fail{Sig: "mount: node transferred more than once", Detail: n.Name + "; " + tr}
			}
		}
		if anyMounted {
			c.Nontriv(driver.Hash("mount", d.Name, fmt.Sprint(ncand, res.Choices())))
		}
		_ = errors.Is
		return nil
	}
	return body, check
}
