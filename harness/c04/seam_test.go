package c04

import (
	"context"
	"errors"
	"fmt"
	gosync "sync"

	"golang.org/x/sync/semaphore"
	"oras.land/oras-go/v2/internal/syncutil"
	"verif.local/engine/driver"
	"verif.local/engine/explore"
	"verif.local/engine/vs"
)

// Narrow seam: the limiter hand-off alone (syncutil.Go + LimitedRegion), 3 tasks, limit 1..2,
// explored with the classical preemption bound. A task works inside its region, leaves it
// (End), "waits for children", re-enters (Start) and works again — the shape copyGraph uses.
// Oracle: never more than `limit` tasks inside a region; every task runs exactly once unless
// an error cancelled it; an error is returned; no deadlock (also with limit 1).

var errTask = errors.New("task failed")

func seamJobs(th bool) []driver.Job {
	P := 2
	if th {
		P = 3
	}
	var out []driver.Job
	for _, limit := range []int{1, 2} {
		for _, failing := range []int{-1, 1} {
			limit, failing := limit, failing
			nsh := 4
			for sh := 0; sh < nsh; sh++ {
				sh := sh
				name := fmt.Sprintf("seam/limiter/limit=%d/fail=%d/P%d/shard%d.%d", limit, failing, P, sh, nsh)
				out = append(out, driver.Job{Name: name, Run: func(c *driver.Ctx) {
					c.Explore(driver.Scenario{Name: name, Bounds: explore.Bounds{Dev: P, Preempt: true}, Shard: sh, NShard: nsh,
						Make: func() (func(), func(*vs.Result) *driver.Fail) { return limiterSeam(c, limit, failing) }})
				}})
			}
		}
	}
	return out
}

func limiterSeam(c *driver.Ctx, limit, failing int) (func(), func(*vs.Result) *driver.Fail) {
	var mon gosync.Mutex // monitor bookkeeping (real lock: only matters in the free-running race pass)
	inside, maxInside := 0, 0
	ran := make([]int, 3)
	var fails []string
	var err error
	enter := func() {
		mon.Lock()
		defer mon.Unlock()
		inside++
		if inside > maxInside {
			maxInside = inside
		}
		if inside > limit {
			fails = append(fails, fmt.Sprintf("%d tasks inside a limited region, limit %d", inside, limit))
		}
	}
	body := func() {
		limiter := semaphore.NewWeighted(int64(limit))
		err = syncutil.Go(context.Background(), limiter, func(ctx context.Context, region *syncutil.LimitedRegion, i int) error {
			mon.Lock()
			ran[i]++
			mon.Unlock()
			enter()
			vs.Pt("work1")
			mon.Lock()
			inside--
			mon.Unlock()
			region.End()
			vs.Pt("outside")
			if i == failing {
				return errTask
			}
			if e := region.Start(); e != nil {
				return e
			}
			enter()
			vs.Pt("work2")
			mon.Lock()
			inside--
			mon.Unlock()
			return nil
		}, 0, 1, 2)
	}
	check := func(res *vs.Result) *driver.Fail {
		if f := driver.StdFail(res); f != nil {
			return f
		}
		d := fmt.Sprintf("limit %d failing %d ran %v err %v", limit, failing, ran, err)
		if len(fails) > 0 {
			return &driver.Fail{Sig: "limiter seam: concurrency limit exceeded", Detail: fails[0] + "; " + d}
		}
		for i, n := range ran {
			if n > 1 {
				return &driver.Fail{Sig: "limiter seam: a task ran twice", Detail: d}
			}
			if n == 0 && failing < 0 {
				return &driver.Fail{Sig: "limiter seam: a task never ran", Detail: fmt.Sprintf("task %d; %s", i, d)}
			}
		}
		if failing >= 0 && ran[failing] == 1 && !errors.Is(err, errTask) {
			return &driver.Fail{Sig: "limiter seam: task error not returned", Detail: d}
		}
		if failing < 0 && err != nil {
			return &driver.Fail{Sig: "limiter seam: fault-free run failed", Detail: d}
		}
		if maxInside == limit && limit > 1 {
			c.Nontriv(driver.Hash("limiter", fmt.Sprint(limit, failing, res.Choices())))
		} else if limit == 1 && len(res.Trace) > 0 {
			c.Nontriv(driver.Hash("limiter", fmt.Sprint(limit, failing, res.Choices())))
		}
		return nil
	}
	return body, check
}
