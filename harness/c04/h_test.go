package c04

import (
	"context"
	"errors"
	"fmt"
	"strings"
	"testing"

	ocispec "github.com/opencontainers/image-spec/specs-go/v1"
	oras "oras.land/oras-go/v2"
	"oras.land/oras-go/v2/content/memory"
	. "oras.land/oras-go/v2/internal/zzverif/common"
	"verif.local/engine/driver"
	"verif.local/engine/explore"
	"verif.local/engine/vs"
)

func TestVerif(t *testing.T) {
	driver.Main(t, driver.Harness{
		ID:    "C04",
		Level: "model_checking",
		Rule: "scenario = DAG shape x root x link-closed pre-population x Concurrency x API (CopyGraph, Copy, ExtendedCopyGraph from a subject with several referrer roots); every scenario's choice tree " +
			"(goroutine schedules at sync/atomic/channel/storage begin+end points, callback fault answers) is enumerated " +
			"within the deviation bound around three base schedulers; non-trivial = execution in which a goroutine began a storage operation while another was inside one",
		Assumptions: []string{
			"interleavings are explored at the granularity of sync/atomic/channel operations and storage-operation begin/end (sequential consistency)",
			"schedules within the stated deviation bound of three deterministic base schedulers; memory stores on both sides",
		},
		Jobs: jobs,
	})
}

type scen struct {
	d      *DAG
	root   int
	prepop []int
	conc   int
	api    string // graph | copy
	cbErr  bool
	racing bool // another writer may store a node between this copy's Exists and Push
	refDst bool // the destination implements registry.ReferencePusher (the root is pushed together with its reference)
}

func jobs(tier string) []driver.Job {
	var out []driver.Job
	th := tier == "thorough"
	all3 := []int{0, 1, 2}
	for _, d := range Curated() {
		root := len(d.Nodes) - 1
		preps := [][]int{nil}
		ds := d.DownSets(root)
		// the down-sets with exactly one leaf, and the one missing only the root
		for _, s := range ds {
			if len(s) == 1 || len(s) == len(d.Closure(root, true))-1 {
				preps = append(preps, s)
			}
		}
		for pi, prep := range preps {
			for _, conc := range []int{0, 1, 2} {
				for _, api := range []string{"graph", "copy"} {
					if api == "copy" && conc == 1 {
						continue
					}
					s := scen{d: d, root: root, prepop: prep, conc: conc, api: api}
					main := pi == 0 && conc == 2 && api == "graph"
					switch {
					case main && th && len(d.Nodes) > 6:
						// the largest shapes: three deviations do not fit the thorough budget, two around all three base schedulers do
						for sh := 0; sh < 8; sh++ {
							out = append(out, mkJob(s, 2, 0, all3, sh, 8))
						}
					case main && th:
						for sh := 0; sh < 16; sh++ {
							out = append(out, mkJob(s, 3, 0, []int{0}, sh, 16))
						}
						out = append(out, mkJob(s, 2, 0, []int{1}), mkJob(s, 2, 0, []int{2}))
					case main:
						for sh := 0; sh < 4; sh++ {
							out = append(out, mkJob(s, 2, 0, all3, sh, 4))
						}
					case th:
						out = append(out, mkJob(s, 2, 0, []int{0}), mkJob(s, 1, 0, []int{1, 2}))
					default:
						out = append(out, mkJob(s, 1, 0, all3))
					}
				}
			}
		}
		// ExtendedCopyGraph from the deepest subject: several roots share the subject's sub-graph
		switch d.Name {
		case "two-referrers-shared", "referrer-types", "index-subject", "subject-chain", "artifact-subject":
			start := 0
			for _, n := range d.Nodes {
				if n.Subject >= 0 {
					start = n.Subject
					break
				}
			}
			for _, conc := range []int{0, 2} {
				s := scen{d: d, root: start, conc: conc, api: "ext"}
				if th {
					out = append(out, mkJob(s, 2, 0, []int{0}, 0, 1), mkJob(s, 1, 0, []int{1, 2}))
				} else {
					out = append(out, mkJob(s, 1, 0, all3))
				}
			}
		}
		// a second writer into the same destination: some pushes meet ErrAlreadyExists after Exists said false
		if d.Name == "diamond" || d.Name == "dup-layer" || d.Name == "subject-chain" {
			for _, api := range []string{"graph", "copy"} {
				out = append(out, mkJob(scen{d: d, root: root, conc: 2, api: api, racing: true}, 1, 0, []int{0}))
			}
		}
		// Copy into a destination that pushes the root with its reference (registry.ReferencePusher)
		if d.Name == "diamond" || d.Name == "dup-layer" || d.Name == "subject-chain" {
			for _, prep := range preps[:2] {
				out = append(out, mkJob(scen{d: d, root: root, prepop: prep, conc: 2, api: "copy", refDst: true}, 1, 0, []int{0}))
			}
		}
		// callback error injection (F=1)
		cd := 1
		if th {
			cd = 2
		}
		out = append(out, mkJob(scen{d: d, root: root, conc: 2, api: "graph", cbErr: true}, cd, 1, []int{0}))
	}
	out = append(out, mountJobs(th)...)
	return append(out, seamJobs(th)...)
}

func mkJob(s scen, D, F int, bases []int, shard ...int) driver.Job {
	sh, nsh := 0, 1
	if len(shard) == 2 {
		sh, nsh = shard[0], shard[1]
	}
	name := fmt.Sprintf("%s/root=%s/prep=%v/conc=%d/%s/cberr=%v/D%d/bases%v", s.d.Name, s.d.Nodes[s.root].Name, s.prepop, s.conc, s.api, s.cbErr, D, bases) + map[bool]string{true: "/racing-writer", false: ""}[s.racing] + map[bool]string{true: "/reference-pusher", false: ""}[s.refDst] + fmt.Sprintf("/shard%d.%d", sh, nsh)
	return driver.Job{Name: name, Run: func(c *driver.Ctx) {
		var lastW *World
		c.Explore(driver.Scenario{
			Name:  name,
			Bases: bases,
			Shard: sh, NShard: nsh,
			Bounds: explore.Bounds{Dev: D, Fault: F},
			Make: func() (func(), func(*vs.Result) *driver.Fail) {
				return s.make(&lastW)
			},
			Nontrivial: func(res *vs.Result) string {
				if lastW != nil && lastW.Contended > 0 {
					return fmt.Sprint(res.Choices())
				}
				return ""
			},
		})
	}}
}

func (s scen) make(last **World) (func(), func(*vs.Result) *driver.Fail) {
	d := s.d
	conc := s.conc
	if conc == 0 {
		conc = 3
	}
	w := NewWorld(d, conc)
	w.Split = true
	*last = w
	srcM, dstM := memory.New(), memory.New()
	all := make([]int, len(d.Nodes))
	for i := range all {
		all[i] = i
	}
	if err := Populate(srcM, d, all); err != nil {
		panic(err)
	}
	if err := Populate(dstM, d, s.prepop); err != nil {
		panic(err)
	}
	rootDesc := d.Nodes[s.root].Desc
	srcM.Tag(context.Background(), rootDesc, "ref")
	src := &SrcTarget{Src: Src{W: w, Inner: srcM}, R: srcM, P: srcM}
	var dst oras.Target = &Dst{W: w, Inner: dstM}
	if s.refDst {
		dst = &RefDst{Dst{W: w, Inner: dstM}}
	}
	w.Racing = s.racing
	var cbInjected error
	cb := func(kind string) func(context.Context, ocispec.Descriptor) error {
		return func(_ context.Context, desc ocispec.Descriptor) error {
			id := d.Find(desc)
			nm := "?"
			if id >= 0 {
				nm = d.Nodes[id].Name
			}
			if s.cbErr {
				if vs.ChooseAt(2, vs.KFault, kind+"("+nm+")") == 1 {
					cbInjected = fmt.Errorf("callback %s(%s): %w", kind, nm, ErrInjected)
					w.Log(kind + ":" + nm + ":ERR")
					return cbInjected
				}
			} else {
				vs.Pt(kind + "(" + nm + ")")
			}
			w.Log(kind + ":" + nm)
			return nil
		}
	}
	opts := oras.CopyGraphOptions{Concurrency: s.conc, PreCopy: cb("pre"), PostCopy: cb("post"), OnCopySkipped: cb("skip"), OnMounted: cb("mounted")}
	var err error
	body := func() {
		if s.api == "ext" {
			err = oras.ExtendedCopyGraph(context.Background(), src, dst, rootDesc, oras.ExtendedCopyGraphOptions{CopyGraphOptions: opts})
		} else if s.api == "graph" {
			err = oras.CopyGraph(context.Background(), src, dst, rootDesc, opts)
		} else {
			_, err = oras.Copy(context.Background(), src, "ref", dst, "", oras.CopyOptions{CopyGraphOptions: opts})
		}
	}
	check := func(res *vs.Result) *driver.Fail {
		if f := driver.StdFail(res); f != nil {
			return f
		}
		if len(w.Fails) > 0 {
			return &driver.Fail{Sig: sigOf(w.Fails[0]), Detail: strings.Join(w.Fails, "\n") + "\ntrace: " + strings.Join(w.Trace, " ")}
		}
		tr := strings.Join(w.Trace, " ")
		if cbInjected != nil {
			if !errors.Is(err, cbInjected) {
				return &driver.Fail{Sig: "callback error not returned", Detail: fmt.Sprintf("injected %v, returned %v; trace %s", cbInjected, err, tr)}
			}
			return nil
		}
		if err != nil {
			return &driver.Fail{Sig: "fault-free copy failed", Detail: err.Error()}
		}
		// single transfer
		for id, n := range w.FetchCount {
			if id >= 0 && !d.Nodes[id].Kind.IsManifest() && n > 1 {
				return &driver.Fail{Sig: "blob fetched from source more than once", Detail: fmt.Sprintf("%s fetched %d times; trace %s", d.Nodes[id].Name, n, tr)}
			}
		}
		for id, n := range w.PushCount {
			if n > 1 {
				return &driver.Fail{Sig: "node pushed to destination more than once", Detail: fmt.Sprintf("%s pushed %d times; trace %s", d.Nodes[id].Name, n, tr)}
			}
		}
		// callback accounting
		pos := func(ev string) []int {
			var p []int
			for i, e := range w.Trace {
				if e == ev {
					p = append(p, i)
				}
			}
			return p
		}
		for _, n := range d.Nodes {
			pre, post, skip, mnt := pos("pre:"+n.Name), pos("post:"+n.Name), pos("skip:"+n.Name), pos("mounted:"+n.Name)
			if w.PushDone[n.ID] > 0 {
				if len(pre) != 1 || len(post)+len(mnt) != 1 {
					return &driver.Fail{Sig: "transferred node without exactly one PreCopy and one PostCopy/OnMounted", Detail: fmt.Sprintf("%s pre=%d post=%d mounted=%d; trace %s", n.Name, len(pre), len(post), len(mnt), tr)}
				}
				term := append(post, mnt...)[0]
				if pre[0] > term {
					return &driver.Fail{Sig: "PostCopy before PreCopy", Detail: n.Name + "; trace " + tr}
				}
				for _, sid := range d.SuccSet(n.ID, true) {
					sn := d.Nodes[sid].Name
					ts := append(append(pos("post:"+sn), pos("mounted:"+sn)...), pos("skip:"+sn)...)
					if len(ts) == 0 || ts[0] > term {
						return &driver.Fail{Sig: "PostCopy before a successor's terminal notification", Detail: fmt.Sprintf("%s before %s; trace %s", n.Name, sn, tr)}
					}
				}
			} else if w.RacedIn[n.ID] > 0 {
				// this copy read the node and announced it; losing the race for the final store does not
				// leave the announcement open: PreCopy is followed by exactly one PostCopy
				if len(pre) != 1 || len(post)+len(mnt) != 1 || pre[0] > append(post, mnt...)[0] {
					return &driver.Fail{Sig: "PreCopy without exactly one following PostCopy/OnMounted (the push met content another writer had just stored)", Detail: fmt.Sprintf("%s pre=%d post=%d mounted=%d; trace %s", n.Name, len(pre), len(post), len(mnt), tr)}
				}
			} else if len(pre)+len(post)+len(mnt) > 0 && !(s.api == "copy" && n.ID == s.root) {
				return &driver.Fail{Sig: "copy callbacks on a node that was not transferred", Detail: n.Name + "; trace " + tr}
			}
			if len(skip) > 1 {
				return &driver.Fail{Sig: "OnCopySkipped more than once", Detail: n.Name + "; trace " + tr}
			}
		}
		return nil
	}
	return body, check
}

func sigOf(f string) string {
	if i := strings.Index(f, ":"); i > 0 {
		return f[:i]
	}
	return f
}
