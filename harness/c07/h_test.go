package c07

import (
	"bytes"
	"context"
	"fmt"
	"os"
	"sort"
	"strings"
	"testing"

	"github.com/opencontainers/go-digest"
	"oras.land/oras-go/v2/content/oci"
	. "oras.land/oras-go/v2/internal/zzverif/common"
	"verif.local/engine/driver"
	"verif.local/engine/explore"
	"verif.local/engine/vos"
	"verif.local/engine/vs"
)

func TestVerif(t *testing.T) {
	driver.Main(t, driver.Harness{
		ID:    "C07",
		Level: "model_checking",
		Rule: "(a) every DAG of U(4) (thorough U(5) for the memory store) and the curated family x every subset of nodes x every permutation of push order x {memory, file, OCI; file store with ForceCAS over U(3) [thorough U(4)]}: after the pushes Predecessors(n) of every node of the universe (present or not) " +
			"must equal, as a multiset, the stored manifests whose generator edge list contains n; (b) OCI: curated shapes, a chain index -> index -> manifest, an index whose member descriptor embeds the member's bytes, and a manifest that is both member of an index and subject of a referrer (4 operations), root tagged or not, AutoGC on and off, followed by every sequence of <= 3 operations from {Delete(x), GC, reopen rw | fs.FS | tar | tar whose members are the half-filled layout followed by the current files, offered while nothing was removed}, same oracle after every step, " +
			"map-order deviations O<=1 at the graph's map ranges; (c) 3 goroutines pushing parent/child/sibling concurrently under every schedule within D<=2; for the OCI store the directory is then opened again (read-write and as fs.FS) and must give the same relation. non-trivial = distinct (shape, push order) in which a parent was pushed before one of its children",
		Assumptions: []string{
			"OCI layouts key content by digest, so shapes in which two nodes share a digest are skipped for the OCI store",
		},
		Jobs:           jobs,
		BudgetQuick:    200,
		BudgetThorough: 1500,
	})
}

func dupDigest(d *DAG) bool {
	seen := map[digest.Digest]bool{}
	for _, n := range d.Nodes {
		if seen[n.Desc.Digest] {
			return true
		}
		seen[n.Desc.Digest] = true
	}
	return false
}

// expect renders the oracle: Predecessors of every node given the stored set.
func expect(d *DAG, present map[int]bool) string {
	var sb strings.Builder
	for _, n := range d.Nodes {
		var ps []string
		for _, p := range d.Preds(n.ID, present) {
			ps = append(ps, d.Nodes[p].Name)
		}
		sort.Strings(ps)
		fmt.Fprintf(&sb, "%s<-%v\n", n.Name, ps)
	}
	return sb.String()
}

func observe(st ReadStore, d *DAG) string {
	var sb strings.Builder
	for _, n := range d.Nodes {
		got, err := st.Predecessors(context.Background(), n.Desc)
		var ps []string
		for _, p := range got {
			if id := d.Find(p); id >= 0 {
				ps = append(ps, d.Nodes[id].Name)
			} else {
				ps = append(ps, "?"+p.Digest.Encoded()[:6]+"/"+p.MediaType)
			}
		}
		sort.Strings(ps)
		if err != nil {
			ps = []string{"ERR:" + err.Error()}
		}
		fmt.Fprintf(&sb, "%s<-%v\n", n.Name, ps)
	}
	return sb.String()
}

// perms calls f with every ordered selection (subset x permutation) of 0..n-1.
func perms(n int, f func(order []int)) {
	used := make([]bool, n)
	var cur []int
	var rec func()
	rec = func() {
		f(cur)
		for i := 0; i < n; i++ {
			if !used[i] {
				used[i] = true
				cur = append(cur, i)
				rec()
				cur = cur[:len(cur)-1]
				used[i] = false
			}
		}
	}
	rec()
}

func jobs(tier string) []driver.Job {
	var out []driver.Job
	th := tier == "thorough"
	// (a) push-order sweep
	type cfg struct {
		kind   string
		n      int
		nshard int
	}
	cfgs := []cfg{{"memory", 4, 32}, {"file", 4, 32}, {"oci", 4, 64}, {"file-cas", 3, 4}}
	if th {
		cfgs = []cfg{{"memory", 5, 256}, {"file", 4, 32}, {"oci", 4, 64}, {"file-cas", 4, 32}}
	}
	for _, cf := range cfgs {
		for sh := 0; sh < cf.nshard; sh++ {
			sh, cf := sh, cf
			out = append(out, driver.Job{Name: fmt.Sprintf("order/%s/U%d/shard%d.%d", cf.kind, cf.n, sh, cf.nshard), Run: func(c *driver.Ctx) {
				ds := append(Curated(), Universe(cf.n)...)
				for i, d := range ds {
					if i%cf.nshard != sh || (cf.kind == "oci" && dupDigest(d)) {
						continue
					}
					if len(d.Nodes) > 6 {
						continue // fanout: 7 nodes, 13700 orders; covered by smaller shapes
					}
					if c.Expired() {
						c.Capped = true
						return
					}
					orderSweep(c, d, cf.kind)
				}
			}})
		}
	}
	// (b) OCI delete / GC / reopen sequences
	for _, d := range append(Curated(), Extra("index-chain"), Extra("embedded-data"), Extra("index-and-referrer")) {
		if dupDigest(d) || len(d.Nodes) > 6 {
			continue
		}
		for _, tagRoot := range []bool{true, false} {
			d, tagRoot := d, tagRoot
			nsh := 4
			for sh := 0; sh < nsh; sh++ {
				sh := sh
				name := fmt.Sprintf("ocihist/%s/tagroot=%v/shard%d.%d", d.Name, tagRoot, sh, nsh)
				out = append(out, driver.Job{Name: name, Run: func(c *driver.Ctx) {
					depth, ord := 3, 0
					if d.Name == "index-and-referrer" {
						depth = 4 // collect, delete the index, delete the referrer, open again
					}
					c.Explore(driver.Scenario{Name: name, Sequential: true, Shard: sh, NShard: nsh,
						Make: func() (func(), func(*vs.Result) *driver.Fail) { return ociHist(c, d, tagRoot, true, depth) }})
					c.Explore(driver.Scenario{Name: name + "/autogc=false", Sequential: true, Shard: sh, NShard: nsh,
						Make: func() (func(), func(*vs.Result) *driver.Fail) { return ociHist(c, d, tagRoot, false, depth) }})
					ord = 1
					c.Explore(driver.Scenario{Name: name + "/O1", Sequential: true, Shard: sh, NShard: nsh, Bounds: explore.Bounds{Order: ord},
						MapSite: func(s string) bool { return strings.HasPrefix(s, "memory.go") || strings.HasPrefix(s, "oci.go") },
						Make:    func() (func(), func(*vs.Result) *driver.Fail) { return ociHist(c, d, tagRoot, true, 2) }})
				}})
			}
		}
	}
	// (c) concurrent pushes
	for _, kind := range []string{"memory", "oci", "file"} {
		for _, dn := range []string{"diamond", "subject-chain", "nested-index"} {
			kind, dn := kind, dn
			D := 2
			if th {
				D = 3
			}
			nsh := 4
			for sh := 0; sh < nsh; sh++ {
				sh := sh
				name := fmt.Sprintf("conc/%s/%s/D%d/shard%d.%d", kind, dn, D, sh, nsh)
				out = append(out, driver.Job{Name: name, Run: func(c *driver.Ctx) {
					var d *DAG
					for _, x := range Curated() {
						if x.Name == dn {
							d = x
						}
					}
					c.Explore(driver.Scenario{Name: name, Bases: []int{0, 1, 2}, Bounds: explore.Bounds{Dev: D}, Shard: sh, NShard: nsh,
						Make: func() (func(), func(*vs.Result) *driver.Fail) { return concPush(c, d, kind) }})
				}})
			}
		}
	}
	return out
}

func orderSweep(c *driver.Ctx, d *DAG, kind string) {
	perms(len(d.Nodes), func(order []int) {
		if c.Violated() {
			return
		}
		st, clean := NewStore(kind)
		defer clean()
		present := map[int]bool{}
		parentFirst := false
		for _, id := range order {
			n := d.Nodes[id]
			if err := st.Push(context.Background(), n.Desc, bytes.NewReader(n.Bytes)); err != nil {
				c.AddViolation(driver.Violation{Tier: c.Tier, Job: c.Job, Scenario: d.Name, Sig: kind + ": push of absent content failed", Detail: fmt.Sprintf("%s order %v: %v", d, order, err)})
				return
			}
			present[id] = true
			for _, s := range n.Succ {
				if !present[s] {
					parentFirst = true
				}
			}
			// the question is also asked between the pushes (an answer given earlier must not stick)
			if got, want := observe(st, d), expect(d, present); got != want {
				var names []string
				for _, id := range order {
					names = append(names, d.Nodes[id].Name)
				}
				c.AddViolation(driver.Violation{Tier: c.Tier, Job: c.Job, Scenario: d.Name, Sig: kind + ": Predecessors differs from the inverse edge list after pushes",
					Detail: fmt.Sprintf("%s\npush order %v, asked after the push of %s (and after every earlier one)\n--- store\n%s--- expected\n%s", d, names, n.Name, got, want)})
				return
			}
		}
		c.Evals++
		c.States++
		c.Transitions += int64(len(order))
		c.Traces++
		if parentFirst {
			c.Nontriv(driver.Hash(kind, d.Name, fmt.Sprint(order)))
		}
		if got, want := observe(st, d), expect(d, present); got != want {
			var names []string
			for _, id := range order {
				names = append(names, d.Nodes[id].Name)
			}
			c.AddViolation(driver.Violation{Tier: c.Tier, Job: c.Job, Scenario: d.Name, Sig: kind + ": Predecessors differs from the inverse edge list after pushes",
				Detail: fmt.Sprintf("%s\npush order %v\n--- store\n%s--- expected\n%s", d, names, got, want)})
		}
	})
}

func ociHist(c *driver.Ctx, d *DAG, tagRoot, autogc bool, depth int) (func(), func(*vs.Result) *driver.Fail) {
	var fail *driver.Fail
	var hist []string
	body := func() {
		dir := Scratch("c07")
		defer os.RemoveAll(dir)
		plan := &vos.Plan{Budget: 50000}
		vos.SetPlan(plan)
		defer vos.SetPlan(nil)
		st, err := oci.New(dir)
		if err != nil {
			panic(err)
		}
		st.AutoGC = autogc
		m := NewModel(d)
		// the layout is archived when half of the nodes are stored: a later "reopen-tar-appended" reads an
		// archive that holds those members followed by the files of that later moment (index.json twice)
		baseTar := dir + ".base.tar"
		defer os.Remove(baseTar)
		for i := range d.Nodes {
			if i == (len(d.Nodes)+1)/2 {
				if err := TarDir(dir, baseTar); err != nil {
					panic(err)
				}
			}
			m.Apply(Op{Kind: "push", Node: i})
			if err := ApplyOCI(st, d, Op{Kind: "push", Node: i}); err != nil {
				panic(err)
			}
		}
		root := len(d.Nodes) - 1
		if tagRoot {
			m.Apply(Op{Kind: "tag", Node: root, Ref: "t"})
			ApplyOCI(st, d, Op{Kind: "tag", Node: root, Ref: "t"})
		}
		var cur ReadStore = st
		live := true
		removed := false // something was deleted or collected: an archive that only grows cannot show that
		n := len(d.Nodes)
		for step := 0; step < depth; step++ {
			k := vs.Choose(n+6, vs.KInput, "op")
			plan.ResetBudget()
			switch {
			case k == 0:
				continue
			case k <= n:
				if !live {
					continue // read-only reopen: no more mutations
				}
				hist = append(hist, "delete("+d.Nodes[k-1].Name+")")
				removed = true
				if autogc {
					if _, amb, _ := m.DeleteAutoGC(k - 1); amb {
						return
					}
				} else {
					m.Apply(Op{Kind: "delete", Node: k - 1})
				}
				st.Delete(context.Background(), d.Nodes[k-1].Desc)
			case k == n+1:
				if !live {
					continue
				}
				hist = append(hist, "gc")
				removed = true
				m.GC()
				st.GC(context.Background())
			default:
				how := []string{"rw", "fs", "tar", "tar-after:" + baseTar}[k-n-2]
				if k-n-2 == 3 && removed {
					continue
				}
				if k-n-2 == 3 {
					hist = append(hist, "reopen-tar-appended")
				} else {
					hist = append(hist, "reopen-"+how)
				}
				re, clean, err := Reopen(dir, how)
				if err != nil {
					fail = &driver.Fail{Sig: "reopen failed", Detail: strings.Join(hist, " ; ") + ": " + err.Error()}
					return
				}
				defer clean()
				cur = re
				if s2, ok := re.(*oci.Store); ok {
					s2.AutoGC = autogc
					st, live = s2, true
				} else {
					live = false
				}
			}
			if got, want := observe(cur, d), expect(d, m.Present); got != want {
				last := hist[len(hist)-1]
				if i := strings.IndexByte(last, '('); i > 0 {
					last = last[:i]
				}
				fail = &driver.Fail{Sig: "oci: Predecessors differs from the inverse edge list after " + last,
					Detail: fmt.Sprintf("%s\nhistory: push all ; tagroot=%v autogc=%v ; %s\n--- store\n%s--- expected\n%s", d, tagRoot, autogc, strings.Join(hist, " ; "), got, want)}
				return
			}
		}
	}
	check := func(res *vs.Result) *driver.Fail {
		vos.SetPlan(nil)
		if f := driver.StdFail(res); f != nil {
			f.Detail = strings.Join(hist, " ; ") + "\n" + f.Detail
			return f
		}
		if len(hist) > 0 {
			c.Nontriv(driver.Hash(d.Name, fmt.Sprint(tagRoot), strings.Join(hist, ";")))
		}
		return fail
	}
	return body, check
}

func concPush(c *driver.Ctx, d *DAG, kind string) (func(), func(*vs.Result) *driver.Fail) {
	st, clean := NewStore(kind)
	dir := ""
	if kind == "oci" {
		// same store, but the directory is known so that it can be opened again afterwards
		clean()
		dir = Scratch("c07conc")
		o, err := oci.New(dir)
		if err != nil {
			panic(err)
		}
		st, clean = o, func() { os.RemoveAll(dir) }
	}
	// children of the three top nodes are pre-pushed; the top three are pushed concurrently
	n := len(d.Nodes)
	top := []int{n - 1, n - 2, n - 3}
	present := map[int]bool{}
	for id := 0; id < n-3; id++ {
		nd := d.Nodes[id]
		if err := st.Push(context.Background(), nd.Desc, bytes.NewReader(nd.Bytes)); err != nil {
			panic(err)
		}
		present[id] = true
	}
	var errs []error
	body := func() {
		done := make(chan int, 3)
		for _, id := range top {
			id := id
			vs.Go(func() {
				nd := d.Nodes[id]
				err := st.Push(context.Background(), nd.Desc, bytes.NewReader(nd.Bytes))
				vs.Atomic(func() { errs = append(errs, err) })
				vs.Send(done, id)
			})
		}
		for range top {
			vs.Recv(done)
		}
	}
	check := func(res *vs.Result) *driver.Fail {
		defer clean()
		if f := driver.StdFail(res); f != nil {
			return f
		}
		for _, e := range errs {
			if e != nil {
				return &driver.Fail{Sig: kind + ": concurrent push of distinct content failed", Detail: e.Error()}
			}
		}
		for _, id := range top {
			present[id] = true
		}
		if len(res.Trace) > 0 {
			c.Nontriv(driver.Hash(kind, d.Name, fmt.Sprint(res.Choices())))
		}
		if got, want := observe(st, d), expect(d, present); got != want {
			return &driver.Fail{Sig: kind + ": Predecessors differs from the inverse edge list after concurrent pushes", Detail: fmt.Sprintf("%s\n--- store\n%s--- expected\n%s", d, got, want)}
		}
		if dir != "" {
			// every push has returned: the layout opened again must know the same relation
			for _, how := range []string{"rw", "fs"} {
				ro, done, err := Reopen(dir, how)
				if err != nil {
					return &driver.Fail{Sig: kind + ": reopen (" + how + ") failed after concurrent pushes", Detail: err.Error()}
				}
				got, want := observe(ro, d), expect(d, present)
				done()
				if got != want {
					return &driver.Fail{Sig: kind + ": Predecessors differs from the inverse edge list after concurrent pushes and reopen (" + how + ")", Detail: fmt.Sprintf("%s\n--- reopened store\n%s--- expected\n%s", d, got, want)}
				}
			}
		}
		return nil
	}
	return body, check
}
