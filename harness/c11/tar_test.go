package c11

import (
	"archive/tar"
	"bytes"
	"compress/gzip"
	"context"
	"fmt"
	"strings"
	"time"

	"github.com/opencontainers/go-digest"
	ocispec "github.com/opencontainers/image-spec/specs-go/v1"
	"oras.land/oras-go/v2/content/file"
	"verif.local/engine/driver"
)

// entry is one archive member. name is written relative to the extraction
// root (the directory the title names): "" is the root itself, "<out>" the
// absolute path of an existing file outside the working directory. target
// (links only) is used verbatim except "<out>" and "<in>" (absolute path of
// "b" in the extraction root).
type entry struct {
	kind   byte // r regular, d directory, s symlink, h hard link
	name   string
	target string
	mode   int64 // directories: the mode of the header when it is not the usual 0755
}

func (e entry) String() string {
	n := e.name
	if n == "" {
		n = "(root)"
	}
	switch e.kind {
	case 'r':
		return "reg " + n
	case 'd':
		if e.mode != 0 {
			return fmt.Sprintf("dir %s (mode %04o)", n, e.mode)
		}
		return "dir " + n
	case 's':
		return "sym " + n + "->" + e.target
	}
	return "hard " + n + "=>" + e.target
}

type family struct {
	name   string
	title  string // "n" (a sub-directory of the working directory) or "." (the working directory itself)
	alpha  []entry
	depth  int
	states []string
	nsh    int
}

func product(names, targets []string, kinds string) []entry {
	var out []entry
	for _, k := range kinds {
		for _, n := range names {
			if k == 'r' || k == 'd' {
				out = append(out, entry{kind: byte(k), name: n})
				continue
			}
			for _, t := range targets {
				out = append(out, entry{kind: byte(k), name: n, target: t})
			}
		}
	}
	return out
}

var (
	fullNames   = []string{"a", "b", "a/c", "../x", "../../x", "<out>", ""}
	fullTargets = []string{".", "..", "a", "b", "a/..", "b/..", "l/..", "b/evil", "../x", "victim", "<out>", "<in>"}
	// the names and targets an escape needs, plus the CWD victim
	coreNames   = []string{"a", "b", "a/c", "../../x", ""}
	coreTargets = []string{".", "..", "b", "l/..", "b/evil", "victim"}
	miniNames   = []string{"a", "b", ""}
	miniTargets = []string{".", "l/..", "b/evil", "victim"}
)

func families(tier string) []family {
	full := product(fullNames, fullTargets, "rdsh")
	core := product(coreNames, coreTargets, "rdsh")
	mini := product(miniNames, miniTargets, "rdsh")
	link := append(product([]string{"a", "b", "l"}, []string{".", "..", "a/..", "l/..", "b/evil"}, "s"), entry{kind: 'r', name: "a"}, entry{kind: 'r', name: "b"})
	chain := append(product([]string{"a", "b", "l", "m"}, []string{".", "l/..", "m/..", "b/evil"}, "s"), entry{kind: 'r', name: "a"})
	// directory entries two missing levels below a name that an earlier entry may have made a symbolic
	// link: a parent check that stops at the first missing directory would not see the link
	deep := []entry{{kind: 'd', name: "a/x/y"}, {kind: 'd', name: "b/x/y"}}
	core = append(core, deep...)
	link = append(link, deep...)
	chain = append(chain, deep...)
	// an empty directory that a later entry replaces by a symbolic link (a per-extraction cache of
	// "checked" directories would go stale), plus entries below it
	replace := []entry{
		{kind: 's', name: "x", target: "."}, {kind: 'd', name: "a"}, {kind: 's', name: "l", target: "a/b"},
		{kind: 's', name: "a", target: "x/x/../.."}, {kind: 's', name: "a", target: "x/.."},
		{kind: 'r', name: "a/f"}, {kind: 'd', name: "a/d"}, {kind: 'r', name: "a"},
		// the same chain ending at a file: one that can be created outside, one that exists outside
		{kind: 's', name: "a", target: "x/x/../../zz"}, {kind: 's', name: "a", target: "x/x/../../cwd/victim"},
		// a hard link whose source path runs through such a link to an existing outside file, then a regular entry of that name
		{kind: 'h', name: "h", target: "a/cwd/victim"}, {kind: 'r', name: "h"},
		// a read-only directory (an extractor may give it its mode only at the end, by name)
		{kind: 'd', name: "a", mode: 0o555},
	}
	// link targets that stay inside when read relative to the link's own directory (as they are
	// validated) but name an existing file outside the working directory when read relative to the
	// archive root (as tar(1) writes hard links), extracted into the working directory itself
	rootrel := []entry{
		{kind: 'd', name: "a"}, {kind: 'h', name: "a/c", target: "../outside/f"}, {kind: 'h', name: "a/c", target: "../wd-sibling/s"},
		{kind: 'h', name: "a/c", target: "../cwd/victim"}, {kind: 's', name: "a/c", target: "../outside/f"}, {kind: 'r', name: "a/c"}, {kind: 'r', name: "a/x"},
	}
	three := []string{"empty", "files", "uplink"}
	if tier != "thorough" {
		return []family{
			{name: "rootrel4", title: ".", alpha: rootrel, depth: 4, states: []string{"empty"}, nsh: 2},
			{name: "replace5", title: "n", alpha: replace, depth: 5, states: []string{"empty"}, nsh: 16},
			{name: "full2", title: "n", alpha: full, depth: 2, states: three, nsh: 8},
			{name: "core3", title: "n", alpha: core, depth: 3, states: three, nsh: 48},
			{name: "rootlinks4", title: ".", alpha: link, depth: 4, states: []string{"empty"}, nsh: 16},
		}
	}
	return []family{
		{name: "rootrel5", title: ".", alpha: rootrel, depth: 5, states: []string{"empty"}, nsh: 4},
		{name: "full2", title: "n", alpha: full, depth: 2, states: []string{"files", "uplink"}, nsh: 8},
		{name: "core3", title: "n", alpha: core, depth: 3, states: []string{"files", "uplink"}, nsh: 48},
		{name: "mini4", title: "n", alpha: mini, depth: 4, states: three, nsh: 64},
		{name: "rootlinks5", title: ".", alpha: link, depth: 5, states: []string{"empty"}, nsh: 64},
		{name: "chain5", title: "n", alpha: chain, depth: 5, states: []string{"empty"}, nsh: 64},
		{name: "replace6", title: "n", alpha: replace, depth: 6, states: []string{"empty"}, nsh: 64},
		// the largest family last: when the budget runs out it is the one cut short
		{name: "full3", title: "n", alpha: full, depth: 3, states: []string{"empty"}, nsh: 256},
	}
}

func tarJobs(tier string) []driver.Job {
	var out []driver.Job
	for _, f := range families(tier) {
		for _, st := range f.states {
			for sh := 0; sh < f.nsh; sh++ {
				f, st, sh := f, st, sh
				name := fmt.Sprintf("tar/%s/title=%s/wd=%s/len<=%d/shard%d.%d", f.name, f.title, st, f.depth, sh, f.nsh)
				out = append(out, driver.Job{Name: name, Run: func(c *driver.Ctx) {
					sb := newSandbox()
					defer sb.destroy()
					t := &tarRun{c: c, sb: sb, fam: f, state: st, sh: sh, scen: name}
					t.init()
					t.explore(nil, t.rootInfo(), true)
				}})
			}
		}
	}
	return out
}

type tarRun struct {
	c     *driver.Ctx
	sb    *sandbox
	fam   family
	state string
	sh    int
	scen  string

	names   []string // distinct entry names of the alphabet
	buf     bytes.Buffer
	gzbuf   bytes.Buffer
	gz      *gzip.Writer
	hasLink []bool
	special []bool
}

// info is what the oracle keeps about the state a sequence left behind: for
// every entry name, whether the directory that would receive it resolves
// outside the working directory.
type info struct {
	parentOutside map[string]string // name -> "" (inside) | reason
	dmgSig        string            // signature of the outside change this sequence caused ("" = none)
}

func (t *tarRun) init() {
	seen := map[string]bool{}
	for _, e := range t.fam.alpha {
		if !seen[e.name] {
			seen[e.name] = true
			t.names = append(t.names, e.name)
		}
		t.hasLink = append(t.hasLink, e.kind == 's' || e.kind == 'h')
		t.special = append(t.special, e.kind == 's' || e.kind == 'h' || strings.Contains(e.name, "..") || e.name == "<out>")
	}
	t.gz, _ = gzip.NewWriterLevel(&t.gzbuf, gzip.NoCompression)
}

func (t *tarRun) root() string {
	if t.fam.title == "." {
		return t.sb.wd
	}
	return t.sb.wd + "/" + t.fam.title
}

func (t *tarRun) headerName(rel string) string {
	switch {
	case rel == "<out>":
		return t.sb.outside + "/f"
	case rel == "":
		return t.fam.title
	case t.fam.title == ".":
		return rel
	}
	return t.fam.title + "/" + rel
}

func (t *tarRun) linkTarget(s string) string {
	switch s {
	case "<out>":
		return t.sb.outside + "/f"
	case "<in>":
		return t.root() + "/b"
	}
	return s
}

// observe computes, on the file system as it is now, where each entry name's
// directory really is.
func (t *tarRun) observe() info {
	in := info{parentOutside: map[string]string{}}
	var title []string
	if t.fam.title != "." {
		title = strings.Split(t.fam.title, "/")
	}
	for _, n := range t.names {
		if n == "<out>" || n == "" {
			continue // absolute names: not judged (see Rule); the root itself lies in the working directory
		}
		segs := strings.Split(n, "/")
		parent := append(append([]string(nil), title...), segs[:len(segs)-1]...)
		last := segs[len(segs)-1]
		if last == ".." {
			parent = append(parent, last)
		}
		p, ok := physical(t.sb.wd, parent)
		if !ok {
			continue // link loop: nothing can be written there
		}
		if !within(t.sb.wd, p) {
			reason := "through a symbolic link"
			if !within(t.sb.wd, lexical(t.root()+"/"+n)) {
				reason = "by its '..' segments"
			}
			in.parentOutside[n] = reason
		}
	}
	return in
}

func (t *tarRun) rootInfo() info {
	t.sb.resetWD(t.state)
	return t.observe()
}

func (t *tarRun) seqString(seq []int) string {
	var parts []string
	for _, i := range seq {
		parts = append(parts, t.fam.alpha[i].String())
	}
	return strings.Join(parts, " ; ")
}

var fixedTime = time.Unix(1_000_000_000, 0)

func (t *tarRun) blob(seq []int) (ocispec.Descriptor, []byte) {
	t.buf.Reset()
	tw := tar.NewWriter(&t.buf)
	for _, i := range seq {
		e := t.fam.alpha[i]
		h := &tar.Header{Name: t.headerName(e.name), ModTime: fixedTime, Format: tar.FormatPAX}
		switch e.kind {
		case 'r':
			h.Typeflag, h.Mode, h.Size = tar.TypeReg, 0o644, int64(len(pwn))
		case 'd':
			h.Typeflag, h.Mode = tar.TypeDir, 0o755
			if e.mode != 0 {
				h.Mode = e.mode
			}
		case 's':
			h.Typeflag, h.Mode, h.Linkname = tar.TypeSymlink, 0o777, t.linkTarget(e.target)
		case 'h':
			h.Typeflag, h.Mode, h.Linkname = tar.TypeLink, 0o644, t.linkTarget(e.target)
		}
		must(tw.WriteHeader(h))
		if e.kind == 'r' {
			tw.Write([]byte(pwn))
		}
	}
	must(tw.Close())
	t.gzbuf.Reset()
	t.gz.Reset(&t.gzbuf)
	t.gz.Write(t.buf.Bytes())
	must(t.gz.Close())
	b := append([]byte(nil), t.gzbuf.Bytes()...)
	return ocispec.Descriptor{
		MediaType: ocispec.MediaTypeImageLayerGzip,
		Digest:    digest.FromBytes(b),
		Size:      int64(len(b)),
		Annotations: map[string]string{
			ocispec.AnnotationTitle: t.fam.title,
			file.AnnotationUnpack:   "true",
		},
	}, b
}

// push runs one Push on a fresh working directory and returns its error (a
// panic is turned into an error and reported).
func pushOnce(sb *sandbox, desc ocispec.Descriptor, blob []byte, opt string) (err error, panicked string) {
	st, nerr := file.New(sb.wd)
	if nerr != nil {
		panic(nerr)
	}
	if opt == "disableoverwrite" {
		st.DisableOverwrite = true
	}
	defer st.Close()
	defer func() {
		if r := recover(); r != nil {
			panicked = fmt.Sprint(r)
			err = fmt.Errorf("panic: %v", r)
		}
	}()
	return st.Push(context.Background(), desc, bytes.NewReader(blob)), ""
}

func errClass(err error) string {
	if err == nil {
		return "ok"
	}
	s := err.Error()
	for _, k := range []string{"path traversal disallowed", "overwrite disallowed", "is outside of", "no symbolic link allowed", "file exists", "not a directory", "is a directory", "no such file", "too many levels", "not permitted", "can't make", "panic"} {
		if strings.Contains(s, k) {
			return k
		}
	}
	return "other"
}

func (t *tarRun) owned(seq []int) bool {
	switch len(seq) {
	case 0:
		return false
	case 1:
		return seq[0]%t.fam.nsh == t.sh
	}
	return (seq[0]*len(t.fam.alpha)+seq[1])%t.fam.nsh == t.sh
}

func (t *tarRun) violation(sig, detail string) {
	t.c.AddViolation(driver.Violation{Tier: t.c.Tier, Job: t.c.Job, Scenario: t.scen, Sig: sig, Detail: detail})
}

// explore runs seq (when non-empty), judges it if this shard owns it, and recurses.
func (t *tarRun) explore(seq []int, parent info, parentOK bool) {
	c := t.c
	if c.Expired() {
		c.Capped = true
		return
	}
	cur, ok := parent, parentOK
	if len(seq) > 0 {
		own := t.owned(seq)
		leaf := len(seq) == t.fam.depth
		var err error
		err, cur = t.runSeq(seq, parent, parentOK, own, !leaf)
		ok = err == nil
	}
	if len(seq) == t.fam.depth {
		return
	}
	n := len(t.fam.alpha)
	for i := 0; i < n; i++ {
		child := append(seq[:len(seq):len(seq)], i)
		if len(child) == 2 && !t.owned(child) {
			continue
		}
		t.explore(child, cur, ok)
		if c.Capped {
			return
		}
	}
}

// followUp: the accepted archive left symbolic links that really resolve
// outside the working directory (each target is lexically inside). A second
// Push into the same directory - a named blob, and a one-entry archive, whose
// title passes through such a link - must not change anything outside either.
func (t *tarRun) followUp(links []string, describe func() string) {
	c, sb := t.c, t.sb
	first := describe()
	for _, l := range links {
		for _, kt := range [][3]string{{"blob", l, ""}, {"blob", l + "/zz", ""}, {"blob", l + "/d/zz", ""}, {"unpack", l, ""}, {"unpack", l + "/zz", ""},
			// the same with DisableOverwrite, which looks at the destination before anything is written
			{"blob", l, "disableoverwrite"}, {"blob", l + "/zz", "disableoverwrite"}, {"blob", l + "/d/zz", "disableoverwrite"}, {"unpack", l + "/zz", "disableoverwrite"}} {
			kind, title, opt := kt[0], kt[1], kt[2]
			desc := ocispec.Descriptor{MediaType: "application/octet-stream", Annotations: map[string]string{ocispec.AnnotationTitle: title}}
			blob := []byte(pwn)
			if kind == "unpack" {
				var tb, gz bytes.Buffer
				tw := tar.NewWriter(&tb)
				must(tw.WriteHeader(&tar.Header{Name: title + "/f", Typeflag: tar.TypeReg, Mode: 0644, Size: int64(len(pwn))}))
				_, _ = tw.Write([]byte(pwn))
				must(tw.Close())
				zw := gzip.NewWriter(&gz)
				_, _ = zw.Write(tb.Bytes())
				must(zw.Close())
				blob = gz.Bytes()
				desc.Annotations[file.AnnotationUnpack] = "true"
			}
			desc.Digest = digest.FromBytes(blob)
			desc.Size = int64(len(blob))
			err, _ := pushOnce(sb, desc, blob, opt)
			c.Count("second_push_through_a_link_left_behind", 1)
			c.Evals++
			if err != nil {
				c.Count("second_push_through_a_link_left_behind_rejected", 1)
			}
			pic := sb.picture()
			if pic == sb.canon {
				continue
			}
			var lines []string
			for _, ch := range pictureChanges(sb.canon, pic) {
				lines = append(lines, fmt.Sprintf("%s in %s: %s: %s => %s", ch.what, where(ch.path), ch.path, ch.old, ch.new))
			}
			what := map[string]string{"blob": "named blob", "unpack": "archive unpacked"}[kind]
			t.violation("a later push ("+what+") writes outside the working directory through a symbolic link that an accepted archive left behind (the link's target is lexically inside, really outside)",
				"first push: "+first+"\nsecond push into the same working directory (a new file store, options: "+map[string]string{"": "default", "disableoverwrite": "DisableOverwrite"}[opt]+"): "+what+" with title "+fmt.Sprintf("%q", title)+" returned: "+fmt.Sprint(err)+
					"\nchanged outside the working directory:\n"+strings.Join(lines, "\n"))
			sb.repair()
		}
	}
}

// sameStore: one store for a whole history. A named push whose bytes fail verification (the name stays
// free; directories made for it may stay behind), then the archive that leaves a link resolving outside,
// then the first push again with the right bytes: nothing outside the working directory may change.
func (t *tarRun) sameStore(seq []int, links []string) {
	c, sb := t.c, t.sb
	ctx := context.Background()
	for _, l := range links {
		for _, title := range []string{l + "/zz", l + "/d/zz"} {
			sb.resetWD(t.state)
			st, err := file.New(sb.wd)
			must(err)
			good := []byte(pwn)
			desc := ocispec.Descriptor{MediaType: "application/octet-stream", Digest: digest.FromBytes(good), Size: int64(len(good)), Annotations: map[string]string{ocispec.AnnotationTitle: title}}
			var err1, err2, err3 error
			func() {
				defer func() {
					if r := recover(); r != nil {
						err3 = fmt.Errorf("panic: %v", r)
					}
				}()
				err1 = st.Push(ctx, desc, bytes.NewReader(bytes.Repeat([]byte("X"), len(good))))
				adesc, ablob := t.blob(seq)
				err2 = st.Push(ctx, adesc, bytes.NewReader(ablob))
				err3 = st.Push(ctx, desc, bytes.NewReader(good))
			}()
			st.Close()
			c.Evals++
			c.Count("same_store_histories", 1)
			if err2 == nil {
				c.Count("same_store_histories_archive_accepted", 1)
			}
			pic := sb.picture()
			if pic == sb.canon {
				continue
			}
			var lines []string
			for _, ch := range pictureChanges(sb.canon, pic) {
				lines = append(lines, fmt.Sprintf("%s in %s: %s: %s => %s", ch.what, where(ch.path), ch.path, ch.old, ch.new))
			}
			t.violation("one store: a push repeated after an archive was unpacked writes outside the working directory through a link the archive left behind",
				fmt.Sprintf("one file store on the working directory (pre-populated: %s), default options\n1. Push of a blob named %q with bytes that do not match its digest: %v\n2. Push of the archive (title %q; entries: %s): %v\n3. Push of the blob named %q with the right bytes: %v\nchanged outside the working directory:\n%s",
					t.state, title, err1, t.fam.title, t.seqString(seq), err2, title, err3, strings.Join(lines, "\n")))
			sb.repair()
		}
	}
}

func (t *tarRun) runSeq(seq []int, parent info, parentOK, judge, wantInfo bool) (error, info) {
	c, sb := t.c, t.sb
	sb.resetWD(t.state)
	desc, blob := t.blob(seq)
	err, panicked := pushOnce(sb, desc, blob, "")
	var in info
	if wantInfo {
		in = t.observe()
	}
	last := t.fam.alpha[seq[len(seq)-1]]
	anyLink, anySpecial, anyHard := false, false, false
	for _, i := range seq {
		anyLink = anyLink || t.hasLink[i]
		anySpecial = anySpecial || t.special[i]
		anyHard = anyHard || t.fam.alpha[i].kind == 'h'
	}
	describe := func() string {
		return fmt.Sprintf("title %q, working directory pre-populated: %s, process CWD = <top>/1/2/3/cwd, default options\narchive entries (names relative to the title; regular entries carry %q): %s\nPush returned: %v\nworking directory afterwards:\n%s",
			t.fam.title, t.state, pwn, t.seqString(seq), err, sb.wdListing())
	}
	// clause 1: nothing outside the working directory changed
	pic := sb.picture()
	unchanged := pic == sb.canon
	dmgDetail := ""
	if !unchanged {
		chs := pictureChanges(sb.canon, pic)
		aliased := strings.Join(sb.aliasedIntoWD(), "\n")
		var lines []string
		mech := ""
		for _, ch := range chs {
			lines = append(lines, fmt.Sprintf("%s in %s: %s: %s => %s", ch.what, where(ch.path), ch.path, ch.old, ch.new))
			if strings.Contains(aliased, ch.path+" = ") {
				mech = "hard"
			}
			// the alias may have been replaced by a later entry: a hard-link entry that names this CWD file
			for _, i := range seq {
				if e := t.fam.alpha[i]; e.kind == 'h' && ch.what == "content changed" && ch.path == "<top>/1/2/3/cwd/"+e.target {
					mech = "hard"
				}
			}
		}
		sig := "tar: object outside the working directory changed"
		switch {
		case parent.dmgSig != "":
			sig = parent.dmgSig // the entries before the last one already did it: same defect
		case mech == "hard":
			sig = "tar: file outside the working directory overwritten through a hard link the archive created to it (link target resolved against the process CWD)"
		case parentOK && parent.parentOutside[last.name] != "":
			sig = "tar: write outside the working directory: the entry's directory resolves outside it " + parent.parentOutside[last.name]
		case anyLink:
			sig = "tar: write outside the working directory through a symbolic link sitting at an entry's own name (every link target stays lexically inside)"
		}
		in.dmgSig = sig
		dmgDetail = describe() + "\nchanged outside the working directory:\n" + strings.Join(lines, "\n") + "\nhard links into the working directory: " + aliased
	}
	linkedIn := ""
	if unchanged && judge && anyHard && err == nil {
		linkedIn = strings.Join(sb.aliasedIntoWD(), "\n")
	}
	if !judge {
		c.Count("support_runs", 1)
		if !unchanged {
			sb.repair() // the owning shard reports it
		}
		return err, in
	}
	c.Evals++
	c.Transitions += int64(len(seq))
	c.Count("tar_sequences", 1)
	c.Outcome(driver.Hash("tar", errClass(err)))
	if err == nil {
		c.Count("tar_accepted", 1)
	} else {
		c.Count("tar_rejected", 1)
	}
	if anySpecial {
		c.Count("nontrivial_sequences", 1)
		if len(seq) <= 2 {
			c.Nontriv(driver.Hash("tar", t.fam.name, t.state, t.seqString(seq)))
		}
	}
	if panicked != "" {
		t.violation("tar: Push panicked", describe())
	}
	if !unchanged {
		c.Count("outside_changed", 1)
		t.violation(in.dmgSig, dmgDetail)
	} else if linkedIn != "" {
		// clause 2 for hard links: an accepted archive left a file from outside reachable inside
		c.Count("outside_file_linked_in", 1)
		t.violation("tar: hard-link entry accepted whose target resolved (against the process CWD) to a file outside the working directory",
			describe()+"\nsame inode: "+linkedIn)
	}
	// clause 2: an entry whose directory is outside must make Push fail
	if reason := parent.parentOutside[last.name]; reason != "" && parentOK {
		c.Count("must_reject_cases", 1)
		if err == nil {
			t.violation("tar: entry accepted although its directory resolves outside the working directory "+reason,
				describe()+"\nlast entry: "+last.String()+" (the entries before it were accepted on their own)")
		}
	}
	if err == nil && anyLink && unchanged {
		if links := sb.linksLeavingWD(); len(links) > 0 {
			c.Count("accepted_archives_leaving_a_symlink_that_resolves_outside", 1)
			t.followUp(links, describe)
			t.sameStore(seq, links)
		}
	}
	if last.name == "<out>" && parentOK && err == nil {
		c.Count("absolute_outside_name_accepted_unjudged", 1)
	}
	if len(c.Samples) < 1 && anyLink && len(seq) == t.fam.depth {
		c.Sample(fmt.Sprintf("%s wd=%s: [%s] -> %s; outside unchanged=%v", t.fam.name, t.state, t.seqString(seq), errClass(err), unchanged))
	}
	if !unchanged {
		sb.repair()
	}
	return err, in
}
