package c11

import (
	"archive/tar"
	"bytes"
	"compress/gzip"
	"fmt"
	"os"
	"strings"

	"github.com/opencontainers/go-digest"
	ocispec "github.com/opencontainers/image-spec/specs-go/v1"
	"oras.land/oras-go/v2/content/file"
	"verif.local/engine/driver"
)

var titleSegs = []string{"a", "..", ".", "", "wd-sibling"}

// titleForms: how the segments become a title.
//
//	rel      seg/seg/...                       (a leading empty segment makes it "/..." - see root)
//	abswd    <working directory>/seg/...
//	absr     <parent of working directory>/seg/...
//	root     /seg/...                           (the real file-system root; guarded, see titleJobs)
var titleForms = []string{"rel", "abswd", "absr", "root"}

func segLists(max int) [][]string {
	var out [][]string
	var rec func(cur []string)
	rec = func(cur []string) {
		if len(cur) > 0 {
			out = append(out, append([]string(nil), cur...))
		}
		if len(cur) == max {
			return
		}
		for _, s := range titleSegs {
			rec(append(cur, s))
		}
	}
	rec(nil)
	return out
}

func titleJobs(tier string) []driver.Job {
	var out []driver.Job
	for _, form := range titleForms {
		for _, state := range []string{"empty", "tfile", "tdir", "tlink"} {
			for _, opt := range []string{"default", "disableoverwrite"} {
				form, state, opt := form, state, opt
				if form == "root" && (state != "empty" || opt != "default") {
					continue // one job only touches the real root, so that its guard cannot race with itself
				}
				name := fmt.Sprintf("title/%s/wd=%s/%s/segments<=4", form, state, opt)
				out = append(out, driver.Job{Name: name, Run: func(c *driver.Ctx) {
					sb := newSandbox()
					defer sb.destroy()
					runTitles(c, sb, form, state, opt, name)
				}})
			}
		}
	}
	// the same titles for a working directory whose ancestors hold nothing else (R/lone/x/wd):
	// nothing but the working directory's own content may be removed either
	for _, form := range []string{"rel", "abswd"} {
		form := form
		name := fmt.Sprintf("title/%s/wd=empty,lone/default/segments<=4", form)
		out = append(out, driver.Job{Name: name, Run: func(c *driver.Ctx) {
			sb := newSandboxAt("lone/x/wd")
			defer sb.destroy()
			runTitles(c, sb, form, "empty", "default", name)
		}})
	}
	return out
}

// rootGuard: names a "/seg/..." title could create at the real root.
var rootGuard = []string{"/a", "/wd-sibling"}

func rootClean() bool {
	for _, p := range rootGuard {
		if _, err := os.Lstat(p); err == nil {
			return false
		}
	}
	return true
}

func runTitles(c *driver.Ctx, sb *sandbox, form, state, opt, scen string) {
	if form == "root" && !rootClean() {
		c.Count("root_form_skipped_names_exist", 1)
		return
	}
	gzbuf := &bytes.Buffer{}
	for _, segs := range segLists(4) {
		for _, slash := range []bool{false, true} {
			for _, kind := range []string{"blob", "unpack"} {
				if c.Expired() {
					c.Capped = true
					return
				}
				joined := strings.Join(segs, "/")
				var title string
				switch form {
				case "rel":
					title = joined
					if strings.HasPrefix(title, "/") {
						continue // that is the root form
					}
				case "abswd":
					title = sb.wd + "/" + joined
				case "absr":
					title = sb.r + "/" + joined
				case "root":
					title = "/" + joined
				}
				if slash {
					title += "/"
				}
				if title == "" {
					continue // no name: not the file-system path of the store
				}
				// model: where the name lexically points
				var dest string
				if strings.HasPrefix(title, "/") {
					dest = lexical(title)
				} else {
					dest = lexical(sb.wd + "/" + title)
				}
				outside := !within(sb.wd, dest)
				shown := strings.ReplaceAll(title, sb.top, "<top>")

				sb.resetWD(state)
				desc := ocispec.Descriptor{MediaType: "application/octet-stream", Annotations: map[string]string{ocispec.AnnotationTitle: title}}
				var blob []byte
				if kind == "blob" {
					blob = []byte(pwn)
				} else {
					// a one-entry archive whose entry lies directly under the title
					var tb bytes.Buffer
					tw := tar.NewWriter(&tb)
					must(tw.WriteHeader(&tar.Header{Typeflag: tar.TypeReg, Name: strings.TrimSuffix(title, "/") + "/f", Mode: 0o644, Size: int64(len(pwn)), ModTime: fixedTime, Format: tar.FormatPAX}))
					tw.Write([]byte(pwn))
					must(tw.Close())
					gzbuf.Reset()
					gz, _ := gzip.NewWriterLevel(gzbuf, gzip.NoCompression)
					gz.Write(tb.Bytes())
					must(gz.Close())
					blob = append([]byte(nil), gzbuf.Bytes()...)
					desc.MediaType = ocispec.MediaTypeImageLayerGzip
					desc.Annotations[file.AnnotationUnpack] = "true"
				}
				desc.Digest = digest.FromBytes(blob)
				desc.Size = int64(len(blob))

				err, panicked := pushOnce(sb, desc, blob, opt)
				c.Evals++
				c.Count("title_cases", 1)
				c.Outcome(driver.Hash("title", kind, errClass(err)))
				if outside {
					c.Count("title_resolves_outside", 1)
					c.Nontriv(driver.Hash("title", form, state, opt, kind, shown))
				} else if err == nil {
					c.Count("title_inside_accepted", 1)
				}
				detail := fmt.Sprintf("title %q (%s form, %s), working directory %s pre-populated: %s, options: %s\nthe name points at %s\nPush returned: %v\nworking directory afterwards:\n%s",
					shown, form, kind, strings.ReplaceAll(sb.wd, sb.top, "<top>"), state, opt, strings.ReplaceAll(dest, sb.top, "<top>"), err, sb.wdListing())
				class := "a relative title"
				if form != "rel" {
					class = "an absolute title"
				}
				if panicked != "" {
					c.AddViolation(driver.Violation{Tier: c.Tier, Job: c.Job, Scenario: scen, Sig: "title: Push panicked", Detail: detail})
				}
				if pic := sb.picture(); pic != sb.canon {
					c.AddViolation(driver.Violation{Tier: c.Tier, Job: c.Job, Scenario: scen,
						Sig:    changedSig(class, outside),
						Detail: detail + "\nchanged outside the working directory:\n" + diffPictures(sb.canon, pic)})
					sb.repair()
				}
				if form == "root" && !rootClean() {
					c.AddViolation(driver.Violation{Tier: c.Tier, Job: c.Job, Scenario: scen,
						Sig:    changedSig(class, outside),
						Detail: detail + "\ncreated at the file-system root: " + strings.Join(rootGuard, " or ")})
					for _, p := range rootGuard {
						os.RemoveAll(p)
					}
				}
				if outside && err == nil {
					c.AddViolation(driver.Violation{Tier: c.Tier, Job: c.Job, Scenario: scen,
						Sig: "title: " + class + " that points outside the working directory was not rejected", Detail: detail})
				}
				if len(c.Samples) < 1 && outside && len(segs) == 3 && kind == "blob" {
					c.Sample(fmt.Sprintf("title %q (wd=%s, %s) points at %s -> %s; outside unchanged", shown, state, opt, strings.ReplaceAll(dest, sb.top, "<top>"), errClass(err)))
				}
			}
		}
	}
}

func changedSig(class string, lexicallyOutside bool) string {
	if lexicallyOutside {
		return "title: object outside the working directory changed by a push with " + class + " that points outside it"
	}
	return "title: " + class + " that lexically stays inside the working directory changed something outside it"
}
