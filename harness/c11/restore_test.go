package c11

import (
	"bytes"
	"context"
	"encoding/json"
	"fmt"
	"strings"

	"github.com/opencontainers/go-digest"
	ocispec "github.com/opencontainers/image-spec/specs-go/v1"
	"oras.land/oras-go/v2/content/file"
	"verif.local/engine/driver"
)

// Two-step histories: the same bytes are first stored under a harmless name (or unnamed), then a
// manifest is pushed whose layer lists those bytes under a title from the whole title space. The
// store "restores" such a duplicate under its own name without the content passing through Push —
// that second write path must respect the working directory just like a direct Push.

func restoreJobs(tier string) []driver.Job {
	var out []driver.Job
	for _, form := range []string{"rel", "abswd", "absr"} {
		for _, first := range []string{"named", "unnamed"} {
			form, first := form, first
			name := fmt.Sprintf("restore/%s/first=%s/segments<=4", form, first)
			out = append(out, driver.Job{Name: name, Run: func(c *driver.Ctx) {
				sb := newSandbox()
				defer sb.destroy()
				runRestore(c, sb, form, first, name)
			}})
		}
	}
	return out
}

func runRestore(c *driver.Ctx, sb *sandbox, form, first, scen string) {
	ctx := context.Background()
	data := []byte(pwn)
	dg := digest.FromBytes(data)
	cfg := []byte("{}")
	cfgDesc := ocispec.Descriptor{MediaType: ocispec.MediaTypeImageConfig, Digest: digest.FromBytes(cfg), Size: 2}
	for _, segs := range segLists(4) {
		if c.Expired() {
			c.Capped = true
			return
		}
		joined := strings.Join(segs, "/")
		var title string
		switch form {
		case "rel":
			title = joined
			if strings.HasPrefix(title, "/") {
				continue
			}
		case "abswd":
			title = sb.wd + "/" + joined
		default:
			title = sb.r + "/" + joined
		}
		if title == "" {
			continue
		}
		var dest string
		if strings.HasPrefix(title, "/") {
			dest = lexical(title)
		} else {
			dest = lexical(sb.wd + "/" + title)
		}
		outside := !within(sb.wd, dest)
		shown := strings.ReplaceAll(title, sb.top, "<top>")
		sb.resetWD("empty")
		st, err := file.New(sb.wd)
		if err != nil {
			panic(err)
		}
		firstDesc := ocispec.Descriptor{MediaType: "application/octet-stream", Digest: dg, Size: int64(len(data))}
		if first == "named" {
			firstDesc.Annotations = map[string]string{ocispec.AnnotationTitle: "ok.bin"}
		}
		must(st.Push(ctx, firstDesc, bytes.NewReader(data)))
		must(st.Push(ctx, cfgDesc, bytes.NewReader(cfg)))
		layer := ocispec.Descriptor{MediaType: "application/octet-stream", Digest: dg, Size: int64(len(data)), Annotations: map[string]string{ocispec.AnnotationTitle: title}}
		man := ocispec.Manifest{MediaType: ocispec.MediaTypeImageManifest, Config: cfgDesc, Layers: []ocispec.Descriptor{layer}}
		man.SchemaVersion = 2
		mb, _ := json.Marshal(man)
		mdesc := ocispec.Descriptor{MediaType: ocispec.MediaTypeImageManifest, Digest: digest.FromBytes(mb), Size: int64(len(mb))}
		var perr error
		func() {
			defer func() {
				if r := recover(); r != nil {
					perr = fmt.Errorf("panic: %v", r)
				}
			}()
			perr = st.Push(ctx, mdesc, bytes.NewReader(mb))
		}()
		st.Close()
		c.Evals++
		c.Count("restore_cases", 1)
		if outside {
			c.Nontriv(driver.Hash("restore", form, first, shown))
		}
		if pic := sb.picture(); pic != sb.canon {
			c.AddViolation(driver.Violation{Tier: c.Tier, Job: c.Job, Scenario: scen,
				Sig: "restore: object outside the working directory changed when a manifest listed stored bytes under a title that points outside",
				Detail: fmt.Sprintf("first push: %s blob; manifest layer title %q (%s form) pointing at %s; Push(manifest) returned %v\nchanged outside the working directory:\n%s",
					first, shown, form, strings.ReplaceAll(dest, sb.top, "<top>"), perr, diffPictures(sb.canon, pic))})
			sb.repair()
		}
	}
}
