package c11

import (
	"fmt"
	"os"
	"path/filepath"
	"sort"
	"strings"
	"syscall"

	. "oras.land/oras-go/v2/internal/zzverif/common"
)

// sandbox is one directory tree on tmpfs:
//
//	top/1/2/3            = R, the parent of the working directory
//	R/wd                 the store's working directory (rebuilt for every case)
//	R/cwd                the process CWD while Push runs; holds the file "victim"
//	R/outside            f (file), d/ (directory) with d/g
//	R/wd-sibling         a directory whose name has the working directory's name as a string prefix; holds s
//	R/tmp                TMPDIR (the store's oras_file_* temporary files; excepted by the statement)
//
// Everything under top except R/wd and R/tmp is "outside": it is compared
// with the canonical picture after every Push. top is three levels above R so
// that titles with up to four ".." segments still land inside the watched tree.
type sandbox struct {
	top, r, wd, cwd, outside, tmp string
	canon                         string // canonical picture of the outside
	oldwd                         string
	oldtmp                        string
	hadTmp                        bool
	resets                        int
}

const (
	victimData = "victim-data"
	pwn        = "pwn"
)

func newSandbox() *sandbox { return newSandboxAt("wd") }

// newSandboxAt places the working directory at R/<rel>. With rel = "lone/x/wd" its
// ancestors lone and lone/x hold nothing else (they are part of the watched outside).
func newSandboxAt(rel string) *sandbox {
	top := Scratch("c11")
	// tmpfs scratch may be reached through a symlink; the model compares resolved paths
	if p, err := filepath.EvalSymlinks(top); err == nil {
		top = p
	}
	sb := &sandbox{top: top}
	sb.r = filepath.Join(top, "1", "2", "3")
	sb.wd = filepath.Join(sb.r, rel)
	sb.cwd = filepath.Join(sb.r, "cwd")
	sb.outside = filepath.Join(sb.r, "outside")
	sb.tmp = filepath.Join(sb.r, "tmp")
	sb.oldwd, _ = os.Getwd()
	sb.oldtmp, sb.hadTmp = os.LookupEnv("TMPDIR")
	sb.buildOutside()
	must(os.MkdirAll(sb.tmp, 0o755))
	os.Setenv("TMPDIR", sb.tmp)
	must(os.Chdir(sb.cwd))
	sb.canon = sb.picture()
	return sb
}

func must(err error) {
	if err != nil {
		panic(err)
	}
}

// buildOutside (re)creates everything that must never change.
func (sb *sandbox) buildOutside() {
	ents, _ := os.ReadDir(sb.top)
	for _, e := range ents {
		os.RemoveAll(filepath.Join(sb.top, e.Name()))
	}
	must(os.MkdirAll(sb.cwd, 0o755))
	must(os.WriteFile(filepath.Join(sb.cwd, "victim"), []byte(victimData), 0o644))
	must(os.MkdirAll(filepath.Join(sb.outside, "d"), 0o755))
	must(os.WriteFile(filepath.Join(sb.outside, "f"), []byte("outside-f"), 0o644))
	must(os.WriteFile(filepath.Join(sb.outside, "d", "g"), []byte("outside-g"), 0o644))
	must(os.MkdirAll(filepath.Join(sb.r, "wd-sibling"), 0o755))
	must(os.WriteFile(filepath.Join(sb.r, "wd-sibling", "s"), []byte("sibling-s"), 0o644))
	must(os.MkdirAll(sb.tmp, 0o755))
	for p := filepath.Dir(sb.wd); p != sb.r; p = filepath.Dir(p) {
		must(os.MkdirAll(p, 0o755))
		must(os.Chmod(p, 0o755))
	}
	// fixed modes whatever the umask is
	for _, d := range []string{sb.top, filepath.Join(sb.top, "1"), filepath.Join(sb.top, "1", "2"), sb.r, sb.cwd, sb.outside,
		filepath.Join(sb.outside, "d"), filepath.Join(sb.r, "wd-sibling")} {
		must(os.Chmod(d, 0o755))
	}
}

// repair restores the outside after a violation damaged it.
func (sb *sandbox) repair() {
	os.Chdir(sb.top)
	sb.buildOutside()
	must(os.Chdir(sb.cwd))
	if p := sb.picture(); p != sb.canon {
		panic("c11: sandbox cannot be restored:\n" + diffPictures(sb.canon, p))
	}
}

func (sb *sandbox) destroy() {
	os.Chdir(sb.oldwd)
	if sb.hadTmp {
		os.Setenv("TMPDIR", sb.oldtmp)
	} else {
		os.Unsetenv("TMPDIR")
	}
	os.RemoveAll(sb.top)
}

// resetWD empties the working directory and the temp directory and
// pre-populates the working directory according to state.
func (sb *sandbox) resetWD(state string) {
	os.RemoveAll(sb.wd)
	must(os.Mkdir(sb.wd, 0o755))
	if sb.resets++; sb.resets%128 == 0 { // the store removes its temporary files on Close; sweep leftovers now and then
		ents, _ := os.ReadDir(sb.tmp)
		for _, e := range ents {
			os.RemoveAll(filepath.Join(sb.tmp, e.Name()))
		}
	}
	w := func(rel, data string) {
		p := filepath.Join(sb.wd, rel)
		must(os.MkdirAll(filepath.Dir(p), 0o755))
		must(os.WriteFile(p, []byte(data), 0o644))
	}
	switch state {
	case "empty":
	case "files": // a directory with a file, and a file, under the names the archives use
		w("n/a/c", "old-c")
		w("n/b", "old-b")
		w("a/a", "old-aa")
		w("b", "old-b")
	case "uplink": // a file and an internal symlink that names the working directory itself
		w("n/b", "old-b")
		must(os.Symlink("..", filepath.Join(sb.wd, "n", "l")))
		w("b", "old-b")
		must(os.Symlink(".", filepath.Join(sb.wd, "l")))
	case "tfile": // title runs: "a" is a file
		w("a", "old-a")
	case "tdir": // title runs: "a" is a directory with a file "a"
		w("a/a", "old-aa")
	case "tlink": // title runs: "a" is an internal symlink to the working directory
		must(os.Symlink(".", filepath.Join(sb.wd, "a")))
	default:
		panic("unknown wd state " + state)
	}
}

// picture is the recursive (type, mode, content, link target) listing of
// everything under top except R/wd and R/tmp, with top-relative names.
func (sb *sandbox) picture() string {
	var lines []string
	var walk func(p, rel string)
	walk = func(p, rel string) {
		if p == sb.wd || p == sb.tmp {
			return
		}
		fi, err := os.Lstat(p)
		if err != nil {
			lines = append(lines, rel+" ERR "+errText(err))
			return
		}
		m := fi.Mode()
		switch {
		case m&os.ModeSymlink != 0:
			t, _ := os.Readlink(p)
			lines = append(lines, fmt.Sprintf("%s symlink -> %s", rel, strings.ReplaceAll(t, sb.top, "<top>")))
		case m.IsDir():
			lines = append(lines, fmt.Sprintf("%s dir %04o", rel, m.Perm()))
			ents, err := os.ReadDir(p)
			if err != nil {
				lines = append(lines, rel+" READDIR-ERR "+errText(err))
				return
			}
			for _, e := range ents {
				walk(filepath.Join(p, e.Name()), rel+"/"+e.Name())
			}
		case m.IsRegular():
			b, err := os.ReadFile(p)
			if err != nil {
				lines = append(lines, rel+" READ-ERR "+errText(err))
				return
			}
			lines = append(lines, fmt.Sprintf("%s file %04o %q", rel, m.Perm(), string(b)))
		default:
			lines = append(lines, fmt.Sprintf("%s other %v", rel, m.Type()))
		}
	}
	walk(sb.top, "<top>")
	sort.Strings(lines)
	return strings.Join(lines, "\n")
}

func errText(err error) string {
	if pe, ok := err.(*os.PathError); ok {
		return pe.Err.Error()
	}
	return err.Error()
}

// change is one difference between two pictures.
type change struct {
	what string // created | removed | content changed | mode changed | type changed
	path string // top-relative
	old  string
	new  string
}

func parsePicture(p string) map[string]string {
	m := map[string]string{}
	for _, l := range strings.Split(p, "\n") {
		if i := strings.IndexByte(l, ' '); i > 0 {
			m[l[:i]] = l[i+1:]
		}
	}
	return m
}

func pictureChanges(before, after string) []change {
	b, a := parsePicture(before), parsePicture(after)
	var out []change
	for p, ov := range b {
		nv, ok := a[p]
		switch {
		case !ok:
			out = append(out, change{"removed", p, ov, ""})
		case nv != ov:
			of, nf := strings.Fields(ov), strings.Fields(nv)
			what := "content changed"
			if of[0] != nf[0] {
				what = "type changed"
			} else if len(of) > 1 && len(nf) > 1 && of[1] != nf[1] && of[0] != "symlink" {
				what = "mode changed"
			}
			out = append(out, change{what, p, ov, nv})
		}
	}
	for p, nv := range a {
		if _, ok := b[p]; !ok {
			out = append(out, change{"created", p, "", nv})
		}
	}
	sort.Slice(out, func(i, j int) bool { return out[i].path < out[j].path })
	return out
}

func diffPictures(before, after string) string {
	var sb strings.Builder
	for _, c := range pictureChanges(before, after) {
		fmt.Fprintf(&sb, "%s %s: %s => %s\n", c.what, c.path, c.old, c.new)
	}
	return sb.String()
}

// where names the region of the sandbox a top-relative path lies in.
func where(rel string) string {
	switch {
	case strings.HasPrefix(rel, "<top>/1/2/3/cwd"):
		return "the process's current directory"
	case strings.HasPrefix(rel, "<top>/1/2/3/outside"):
		return "an unrelated directory"
	case strings.HasPrefix(rel, "<top>/1/2/3/wd-sibling"):
		return "the sibling directory whose name starts with the working directory's name"
	case strings.HasPrefix(rel, "<top>/1/2/3/"):
		return "the parent of the working directory"
	}
	return "an ancestor of the working directory"
}

// ---- model path resolution (the oracle's own; nothing from the library)

// within reports whether the cleaned absolute path p is dir or below it.
func within(dir, p string) bool {
	return p == dir || strings.HasPrefix(p, dir+"/")
}

// lexical cleans an absolute slash path: drops empty and "." segments and
// lets ".." remove the preceding segment (never above the root).
func lexical(p string) string {
	var out []string
	for _, s := range strings.Split(p, "/") {
		switch s {
		case "", ".":
		case "..":
			if len(out) > 0 {
				out = out[:len(out)-1]
			}
		default:
			out = append(out, s)
		}
	}
	return "/" + strings.Join(out, "/")
}

// physical resolves the segments segs, starting in the existing directory
// start, the way the kernel would for a path whose every component is
// looked up (symbolic links followed, ".." applied to the directory really
// reached). Components that do not exist are taken literally (they would be
// created there). It returns the absolute location and false on a link loop.
func physical(start string, segs []string) (string, bool) {
	cur := start
	budget := 64
	queue := append([]string(nil), segs...)
	for len(queue) > 0 {
		s := queue[0]
		queue = queue[1:]
		switch s {
		case "", ".":
			continue
		case "..":
			if cur != "/" {
				cur = filepath.Dir(cur)
			}
			continue
		}
		next := cur + "/" + s
		if cur == "/" {
			next = "/" + s
		}
		fi, err := os.Lstat(next)
		if err == nil && fi.Mode()&os.ModeSymlink != 0 {
			budget--
			if budget < 0 {
				return "", false
			}
			t, err := os.Readlink(next)
			if err != nil {
				return "", false
			}
			if strings.HasPrefix(t, "/") {
				cur = "/"
			}
			queue = append(strings.Split(t, "/"), queue...)
			continue
		}
		cur = next
	}
	return cur, true
}

// inoOf returns the inode identity of a path without following links.
func inoOf(p string) (uint64, uint64, bool) {
	fi, err := os.Lstat(p)
	if err != nil || !fi.Mode().IsRegular() {
		return 0, 0, false
	}
	st, ok := fi.Sys().(*syscall.Stat_t)
	if !ok {
		return 0, 0, false
	}
	return uint64(st.Dev), st.Ino, true
}

// outsideFiles lists the regular files of the canonical outside.
func (sb *sandbox) outsideFiles() []string {
	return []string{
		filepath.Join(sb.cwd, "victim"),
		filepath.Join(sb.outside, "f"),
		filepath.Join(sb.outside, "d", "g"),
		filepath.Join(sb.r, "wd-sibling", "s"),
	}
}

// aliasedIntoWD returns the outside files that have a hard link inside the working directory.
func (sb *sandbox) aliasedIntoWD() []string {
	type key struct{ d, i uint64 }
	want := map[key]string{}
	for _, f := range sb.outsideFiles() {
		if d, i, ok := inoOf(f); ok {
			want[key{d, i}] = f
		}
	}
	var hits []string
	var walk func(p string, depth int)
	walk = func(p string, depth int) {
		ents, err := os.ReadDir(p)
		if err != nil || depth > 8 {
			return
		}
		for _, e := range ents {
			q := filepath.Join(p, e.Name())
			if e.Type()&os.ModeSymlink != 0 {
				continue
			}
			if e.IsDir() {
				walk(q, depth+1)
				continue
			}
			if d, i, ok := inoOf(q); ok {
				if f, hit := want[key{d, i}]; hit {
					hits = append(hits, strings.Replace(f, sb.top, "<top>", 1)+" = "+strings.Replace(q, sb.top, "<top>", 1))
				}
			}
		}
	}
	walk(sb.wd, 0)
	sort.Strings(hits)
	return hits
}

// wdListing renders the working directory (for violation details).
func (sb *sandbox) wdListing() string {
	var lines []string
	var walk func(p, rel string, depth int)
	walk = func(p, rel string, depth int) {
		ents, err := os.ReadDir(p)
		if err != nil || depth > 8 {
			return
		}
		for _, e := range ents {
			q := filepath.Join(p, e.Name())
			fi, err := os.Lstat(q)
			if err != nil {
				continue
			}
			switch {
			case fi.Mode()&os.ModeSymlink != 0:
				t, _ := os.Readlink(q)
				lines = append(lines, fmt.Sprintf("wd/%s%s -> %s", rel, e.Name(), strings.ReplaceAll(t, sb.top, "<top>")))
			case fi.IsDir():
				lines = append(lines, fmt.Sprintf("wd/%s%s/", rel, e.Name()))
				walk(q, rel+e.Name()+"/", depth+1)
			default:
				b, _ := os.ReadFile(q)
				lines = append(lines, fmt.Sprintf("wd/%s%s %q", rel, e.Name(), string(b)))
			}
		}
	}
	walk(sb.wd, "", 0)
	return strings.Join(lines, "\n")
}

// symlinksLeavingWD counts the symbolic links inside the working directory
// that, followed to the end, name a place outside it.
func (sb *sandbox) symlinksLeavingWD() int { return len(sb.linksLeavingWD()) }

// linksLeavingWD lists (relative to the working directory) the symbolic links
// inside it that, followed to the end, name a place outside it.
func (sb *sandbox) linksLeavingWD() []string {
	var out []string
	var walk func(p string, depth int)
	walk = func(p string, depth int) {
		ents, err := os.ReadDir(p)
		if err != nil || depth > 8 {
			return
		}
		for _, e := range ents {
			q := filepath.Join(p, e.Name())
			if e.Type()&os.ModeSymlink != 0 {
				if r, ok := physical(p, []string{e.Name()}); ok && !within(sb.wd, r) {
					rel, _ := filepath.Rel(sb.wd, q)
					out = append(out, rel)
				}
				continue
			}
			if e.IsDir() {
				walk(q, depth+1)
			}
		}
	}
	walk(sb.wd, 0)
	return out
}
