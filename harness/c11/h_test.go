package c11

import (
	"testing"

	"verif.local/engine/driver"
)

func TestVerif(t *testing.T) {
	driver.Main(t, driver.Harness{
		ID:    "C11",
		Level: "exploration",
		Rule: "every case is one Push with default options into a file store on a fresh sandbox (tmpfs): <top>/1/2/3/{wd = working directory, cwd = process CWD holding 'victim', outside/{f,d/g}, wd-sibling/s, tmp = TMPDIR}. " +
			"After every Push the recursive (type, mode, content, link target) picture of everything under <top> except wd and tmp must equal the picture taken when the sandbox was built. " +
			"(a) titles: every path of 1..4 segments over {a, .., ., empty, wd-sibling} x forms {relative, absolute under wd, absolute under wd's parent, absolute at the real root} x {no, trailing slash} x {plain blob, tar+gzip with unpack annotation holding one regular entry <title>/f} x wd {empty, a=file, a=dir, a=symlink to .} x {default, DisableOverwrite} (real-root form: empty wd and default only); " +
			"a title whose lexically cleaned destination is not wd or below it must make Push fail. " +
			"(b) tar streams, gzip-wrapped, unpack annotation, correct digest and size, title 'n' (entry names are relative to it; wd states: empty | files: n/a/c, n/b | uplink: n/b and the internal link n/l -> ..): " +
			"full = 182 entries = kinds {reg, dir, symlink, hardlink} x names {a, b, a/c, ../x, ../../x, absolute-outside, (the title directory itself)} x (links) targets {., .., a, b, a/.., b/.., l/.., b/evil, ../x, victim, absolute-outside, absolute-inside}; " +
			"core = 70 entries = kinds x names {a, b, a/c, ../../x, (title dir)} x targets {., .., b, l/.., b/evil, victim}; mini = 30 entries = kinds x names {a, b, (title dir)} x targets {., l/.., b/evil, victim}; " +
			"core, rootlinks and chain additionally contain the directory entries a/x/y and b/x/y (two missing levels below a possible link). rootlinks = 17 entries (symlink x {a,b,l} x {., .., a/.., l/.., b/evil}, reg a, reg b) with title '.'; chain = 17 entries (symlink x {a,b,l,m} x {., l/.., m/.., b/evil}, reg a) with title 'n'. " +
			"rootrel = 7 entries with title '.' (dir a, hard link a/c to ../outside/f, ../wd-sibling/s, ../cwd/victim - inside when read from the link's directory, an existing outside file when read from the archive root -, the symlink a/c -> ../outside/f, reg a/c, reg a/x), sequences of 1..4 [thorough 1..5]. " +
			"Title cases are also run for a working directory R/lone/x/wd whose ancestors lone and lone/x hold nothing else (relative and absolute-under-wd forms, empty wd). " +
			"quick: every sequence of 1..2 entries over full and of 1..3 entries over core, each for the three wd states; 1..4 entries over rootlinks on an empty wd. " +
			"thorough: 1..3 over full (empty wd), 1..2 over full and 1..3 over core (files, uplink), 1..4 over mini (three states), 1..5 over rootlinks and 1..5 over chain (empty wd). " +
			"Besides the picture: when the sequence without its last entry was accepted on its own and, on the file system that run left behind, the directory that receives the last entry's name resolves (symbolic links followed by the harness's own resolver) outside wd, Push must fail; and an accepted archive must not leave a file from outside wd hard-linked inside wd. " +
			"When an accepted archive leaves symbolic links in wd that, really followed, name a place outside wd (every target being lexically inside), a second Push into the same directory with a new store is made for each such link l and each of {named blob titled l, l/zz, l/d/zz; one-entry archive titled l, l/zz}, with default options and with DisableOverwrite: the picture must still be unchanged (these pushes are counted in evaluations); and, for l/zz and l/d/zz, a history on one store: the named push with bytes that fail verification, then the archive, then the named push again with the right bytes. " +
			"The replace family also holds a directory entry with the read-only mode 0555. " +
			"Not judged (counted where it occurs): absolute entry names accepted without touching the outside; the mere existence of accepted symbolic links whose target resolves outside wd; names inside wd but outside the title directory. " +
			"evaluations = Push calls judged; non-trivial = titles that point outside wd, and tar sequences with a link entry, a '..' name or an absolute name (distinct ones are recorded for sequences of length <= 2, longer ones are counted in nontrivial_sequences).",
		Assumptions: []string{
			"the process CWD is cwd/ for every Push; one worker process runs its cases one after the other (chdir and TMPDIR are process-global)",
			"absolute titles are exercised under the sandbox (and, guarded, as /a... and /wd-sibling... at the real root); other absolute locations are taken to behave alike",
			"link count and timestamps of outside objects are not part of the picture (the statement lists create, overwrite, truncate, re-mode, delete)",
			"PreservePermissions, AllowPathTraversalOnWrite and SkipUnpack stay at their defaults",
		},
		Jobs:           jobs,
		BudgetQuick:    240,
		BudgetThorough: 880,
	})
}

func jobs(tier string) []driver.Job {
	return append(append(titleJobs(tier), restoreJobs(tier)...), tarJobs(tier)...)
}
