package c05

import (
	"strings"
	"testing"

	"verif.local/engine/driver"
)

func TestVerif(t *testing.T) {
	driver.Main(t, driver.Harness{
		ID:    "C05",
		Level: "model_checking",
		Rule: "sequential: every (content, descriptor, stream, chunking) with content = every byte string over {0x00,'a'} of length 0-3 [thorough 0-4] plus one 1 MiB+1 string; " +
			"descriptor = digest {right, wrong, right for the prefix, sha512 right/wrong, unsupported sha1 [md5], malformed: empty / bad hex / short hex / path-traversal [no colon / upper case / no hex / wrong hex length]} x Size {right, -1 byte, +1 byte, 0, -1 [+2, -2]}; " +
			"stream = complete / one extra byte after the end / EOF at every earlier offset / reader error at every offset; chunking = every composition into chunks of 1-2 [1-3] bytes x one 0-byte read at every position (or none) x end signal separate or together with the last chunk. " +
			"Each case is run against content.ReadAll, content.FetchAll, content.NewVerifyReader (every sequence of 4 calls over {Read(1),Read(2),Read(8),Verify} [thorough: 5 calls for the chunkings without 0-byte read / joined end]), ioutil.CopyBuffer (4 writer/buffer variants), and Push on a fresh cas.Memory, memory.Store, " +
			"LimitedStorage(limit=Size-1/Size/Size+1), oci.Storage, oci.Store, file.Store named (into an empty directory, and over a longer file already at the name's path; after success the file must hold exactly the named bytes), file.Store named directory layer (unpack annotation; the enumerated bytes are never a valid archive, so the push fails during or after verification), file.Store unnamed (memory fallback and OCI fallback), and through cas.Proxy (no limit, limit=Size-1/Size/Size+1; FetchAll and read-to-EOF consumers; cache fill + second fetch; each case runs in its own testing/synctest bubble, where a virtual-time timer can only fire when every goroutine is blocked for ever, so a fetch that never returns is a deterministic verdict). " +
			"restore: the file store's other way of making content visible - a manifest naming stored content under a second file name (3 contents x layer size {right,-1,+1,0,7} x digest {right, unknown} x first file {untouched, changed on disk, truncated}): the second name may become visible only if the bytes copied are exactly what the layer descriptor says. " +
			"vreader: good content handed to Push through a content.VerifyReader of the same descriptor from which k = 0..len bytes were read before (or everything, verified): k = 0 is an ordinary push, k > 0 must fail and leave nothing visible. " +
			"Oracle (hand-computed sha256/sha512 of the generator's own bytes): Push may return nil only if the stream holds at least Size bytes and the first Size bytes hash to Digest (Size>=0, digest well-formed and supported); after a failed such push Exists is false, Fetch fails (for a named descriptor also when asked with the bare descriptor of the same digest) and blobs/ has no new regular file; " +
			"data handed back without error equals the named content, and bytes beyond Size are an error for ReadAll/FetchAll/VerifyReader/CopyBuffer. Not judged (counted as note:*): refusing good content, Push accepting/refusing bytes beyond Size, reader errors after Size bytes, ingest/ leftovers. " +
			"concurrent: 2-3 goroutines pushing {good, wrong bytes, early EOF, reader error, extra byte} under one digest (+ an observer probing Exists and Fetch twice; with only bad pushes under way nothing may be visible at any moment) into 8 store kinds under every schedule within D<=3 deviations around 3 base schedulers and P<=2 [P<=3] preemptions around the 2 non-preemptive ones for two pushers, D<=2 with an observer and for three pushers; bad pushes must fail, every successful Fetch (during or after) must hand back exactly the good bytes, nothing visible / no blob file if every push failed, every file under blobs/ hashes to its name. " +
			"non-trivial = distinct (target, content, descriptor, stream) other than exact content from a cleanly ending reader, and distinct non-default schedules",
		Assumptions: []string{
			"stores are fresh per case (history dependence is C06's subject); media type is application/octet-stream",
			"huge Size values (allocation limits) are outside the statement's size classes and not enumerated",
			"sha256 and sha512 are the supported algorithms (both linked into the harness); sha1/md5 stand for unsupported ones",
		},
		Jobs:           jobs,
		BudgetQuick:    240,
		BudgetThorough: 1500,
	})
}

func jobs(tier string) []driver.Job {
	sp := tierSpace(tier)
	var out []driver.Job
	// The evidence keeps the first samples it sees: the written-out samples come
	// first, followed by a wave of sample-free sequential jobs, then the long
	// concurrent jobs so that the tail of the run is short.
	out = append(out, sampleJob(sp))
	out = append(out, restoreJob(), vreaderJob())
	seq := seqJobs(sp)
	var rest []driver.Job
	for _, j := range seq {
		if strings.HasPrefix(j.Name, "seq/oci.Store/") && len(out) < 33 {
			out = append(out, j)
		} else {
			rest = append(rest, j)
		}
	}
	out = append(out, concJobs(sp)...)
	out = append(out, rest...)
	out = append(out, proxyJobs(sp)...)
	return out
}
