package c05

import (
	"bytes"
	"fmt"
	"os"
	"path/filepath"
	"strings"

	ocispec "github.com/opencontainers/image-spec/specs-go/v1"
	"oras.land/oras-go/v2/content"
	"oras.land/oras-go/v2/content/file"
	"oras.land/oras-go/v2/content/memory"
	"oras.land/oras-go/v2/content/oci"
	"oras.land/oras-go/v2/internal/cas"
	. "oras.land/oras-go/v2/internal/zzverif/common"
	"verif.local/engine/driver"
	"verif.local/engine/explore"
	"verif.local/engine/vs"
)

// Concurrent clause: 2-3 goroutines push good and bad content under the same
// digest into one store while (optionally) an observer fetches; every schedule
// within the bound is enumerated. Scheduling points: every sync / sync.Map /
// file-system operation of the library (instrumented tree) and every Read of
// the scripted readers.

var goodBytes = []byte{'a', 0x00}

type pusher struct {
	name     string
	st       stream
	mustFail bool // the statement demands an error for this push
}

var (
	pGood  = pusher{"good", stream{"complete", goodBytes, false}, false}
	pWrong = pusher{"wrong-bytes", stream{"complete", []byte{'a', 'a'}, false}, true}
	pShort = pusher{"early-EOF@1", stream{"early-EOF@1", goodBytes[:1], false}, true}
	pErr   = pusher{"error@1", stream{"error@1", goodBytes[:1], true}, true}
	pLong  = pusher{"extra-byte", stream{"extra-byte-after-end", []byte{'a', 0x00, 'a'}, false}, false}
)

type mix struct {
	ps       []pusher
	observer bool
}

func (m mix) String() string {
	var s []string
	for _, p := range m.ps {
		s = append(s, p.name)
	}
	if m.observer {
		s = append(s, "observer")
	}
	return strings.Join(s, "+")
}

type cstore struct {
	st    content.Storage
	descs []ocispec.Descriptor // descriptor used by pusher i
	probe []ocispec.Descriptor // descriptors probed by observer / final check
	root  string
	clean func()
}

var concKinds = []string{"cas.Memory", "memory.Store", "LimitedStorage", "oci.Storage", "oci.Store", "file.Store(same name)", "file.Store(two names)", "file.Store(unnamed, fallback)"}

func goodSpec() dspec {
	h := hexOf("sha256", goodBytes)
	return dspec{"right", "right", "sha256:" + h, "sha256", h, "", int64(len(goodBytes))}
}

func newCStore(kind string, n int) cstore {
	d := goodSpec()
	plain := d.oci(nil)
	all := func(x ocispec.Descriptor) []ocispec.Descriptor {
		out := make([]ocispec.Descriptor, n)
		for i := range out {
			out[i] = x
		}
		return out
	}
	switch kind {
	case "cas.Memory":
		return cstore{st: cas.NewMemory(), descs: all(plain), probe: []ocispec.Descriptor{plain}, clean: func() {}}
	case "memory.Store":
		return cstore{st: memory.New(), descs: all(plain), probe: []ocispec.Descriptor{plain}, clean: func() {}}
	case "LimitedStorage":
		return cstore{st: content.LimitStorage(cas.NewMemory(), 2), descs: all(plain), probe: []ocispec.Descriptor{plain}, clean: func() {}}
	case "oci.Storage":
		dir := Scratch("c05cs")
		st, err := oci.NewStorage(dir)
		if err != nil {
			panic(err)
		}
		return cstore{st: st, descs: all(plain), probe: []ocispec.Descriptor{plain}, root: dir, clean: func() { os.RemoveAll(dir) }}
	case "oci.Store":
		dir := Scratch("c05co")
		st, err := oci.New(dir)
		if err != nil {
			panic(err)
		}
		return cstore{st: st, descs: all(plain), probe: []ocispec.Descriptor{plain}, root: dir, clean: func() { os.RemoveAll(dir) }}
	}
	dir := Scratch("c05cf")
	st, err := file.New(dir)
	if err != nil {
		panic(err)
	}
	cs := cstore{st: st, clean: func() { st.Close(); os.RemoveAll(dir) }}
	switch kind {
	case "file.Store(same name)":
		nd := d.oci(map[string]string{ocispec.AnnotationTitle: fileName})
		cs.descs, cs.probe = all(nd), []ocispec.Descriptor{nd, plain}
	case "file.Store(two names)":
		cs.probe = []ocispec.Descriptor{plain}
		for i := 0; i < n; i++ {
			nd := d.oci(map[string]string{ocispec.AnnotationTitle: fmt.Sprintf("f%d.bin", i)})
			cs.descs = append(cs.descs, nd)
			cs.probe = append(cs.probe, nd)
		}
	default:
		cs.descs, cs.probe = all(plain), []ocispec.Descriptor{plain}
	}
	return cs
}

func concJobs(sp space) []driver.Job {
	two := []mix{
		{[]pusher{pGood, pWrong}, false}, {[]pusher{pWrong, pGood}, false},
		{[]pusher{pGood, pShort}, false}, {[]pusher{pErr, pGood}, false},
		{[]pusher{pGood, pLong}, false}, {[]pusher{pWrong, pShort}, false},
		{[]pusher{pWrong, pGood}, true}, {[]pusher{pGood, pErr}, true},
		// only bad pushes, watched by an observer: nothing may be visible at any moment
		{[]pusher{pWrong, pShort}, true}, {[]pusher{pErr}, true},
	}
	three := []mix{
		{[]pusher{pGood, pWrong, pGood}, false},
		{[]pusher{pWrong, pGood, pErr}, false},
	}
	if sp.thorough {
		two = append(two, mix{[]pusher{pShort, pGood}, true}, mix{[]pusher{pGood, pGood}, true}, mix{[]pusher{pLong, pGood}, false})
		three = append(three, mix{[]pusher{pGood, pWrong, pGood}, true}, mix{[]pusher{pShort, pLong, pGood}, false})
	}
	type plan struct {
		m   mix
		b   explore.Bounds
		nsh int
	}
	var out []driver.Job
	for _, kind := range concKinds {
		var plans []plan
		fsKind := strings.HasPrefix(kind, "oci") || strings.HasPrefix(kind, "file")
		for _, m := range two {
			d := 2
			if !m.observer {
				d = 3
			}
			nsh := 1
			if fsKind {
				nsh = 2
			}
			if d == 3 {
				nsh *= 4
			}
			plans = append(plans, plan{m, explore.Bounds{Dev: d}, nsh})
			if !m.observer {
				pb := 2
				if sp.thorough {
					pb = 3
				}
				plans = append(plans, plan{m, explore.Bounds{Dev: pb, Preempt: true}, nsh})
			}
		}
		for _, m := range three {
			nsh := 2
			if fsKind {
				nsh = 4
			}
			plans = append(plans, plan{m, explore.Bounds{Dev: 2}, nsh})
		}
		for _, pl := range plans {
			for sh := 0; sh < pl.nsh; sh++ {
				kind, pl, sh := kind, pl, sh
				name := fmt.Sprintf("conc/%s/%s/%v/shard%d.%d", kind, pl.m, pl.b, sh, pl.nsh)
				out = append(out, driver.Job{Name: name, Run: func(c *driver.Ctx) {
					// preemption bounding is only meaningful around the two non-preemptive
					// base schedulers (around round-robin "keep running" is a free deviation)
					bases := []int{0, 1, 2}
					if pl.b.Preempt {
						bases = []int{0, 1}
					}
					c.Explore(driver.Scenario{
						Name: name, Bases: bases, Bounds: pl.b, Shard: sh, NShard: pl.nsh,
						Make: func() (func(), func(*vs.Result) *driver.Fail) { return concRun(c, kind, pl.m) },
					})
				}})
			}
		}
	}
	return out
}

type obs struct {
	who string
	d   int
	v   visibility
}

func concRun(c *driver.Ctx, kind string, m mix) (func(), func(*vs.Result) *driver.Fail) {
	cs := newCStore(kind, len(m.ps))
	errs := make([]error, len(m.ps))
	done := make([]bool, len(m.ps))
	var seen []obs
	body := func() {
		n := len(m.ps)
		if m.observer {
			n++
		}
		fin := make(chan int, n)
		for i, p := range m.ps {
			i, p := i, p
			vs.Go(func() {
				rd := newReader(p.st, chunking{ones(len(p.st.data)), -1, false})
				rd.pt = true
				err := cs.st.Push(ctx, cs.descs[i], rd)
				vs.Atomic(func() { errs[i], done[i] = err, true })
				vs.Send(fin, i)
			})
		}
		if m.observer {
			vs.Go(func() {
				for round := 0; round < 2; round++ {
					for di, d := range cs.probe {
						v := probe(cs.st, d)
						vs.Atomic(func() { seen = append(seen, obs{fmt.Sprintf("observer round %d", round), di, v}) })
					}
				}
				vs.Send(fin, -1)
			})
		}
		for i := 0; i < n; i++ {
			vs.Recv(fin)
		}
	}
	check := func(res *vs.Result) *driver.Fail {
		defer cs.clean()
		if f := driver.StdFail(res); f != nil {
			f.Sig = kind + ": " + f.Sig
			return f
		}
		var rs, cls []string
		anyOK, anyGood := false, false
		for _, p := range m.ps {
			anyGood = anyGood || !p.mustFail
		}
		for i, p := range m.ps {
			rs = append(rs, fmt.Sprintf("g%d push(%s)=%v", i, p.name, errs[i]))
			cls = append(cls, errClass(errs[i]))
			if errs[i] == nil {
				anyOK = true
			}
		}
		detail := "mix: " + m.String() + "\nresults: " + strings.Join(rs, "; ")
		for i, p := range m.ps {
			if !done[i] {
				return &driver.Fail{Sig: kind + ": concurrent push did not finish", Detail: detail}
			}
			if p.mustFail && errs[i] == nil {
				return &driver.Fail{Sig: kind + ": concurrent push of bad content (" + p.name + ") under the digest of good content succeeded", Detail: detail}
			}
		}
		for di, d := range cs.probe {
			seen = append(seen, obs{"final", di, probe(cs.st, d)})
		}
		for _, o := range seen {
			if o.v.fetchErr == nil && (o.v.readErr != nil || !bytes.Equal(o.v.bytes, goodBytes)) {
				when := "while pushes were running"
				if o.who == "final" {
					when = "after the pushes"
				}
				return &driver.Fail{Sig: kind + ": Fetch handed back bytes that do not match the descriptor " + when,
					Detail: fmt.Sprintf("%s\n%s, descriptor #%d: %s", detail, o.who, o.d, o.v)}
			}
			if !anyGood && o.v.visible() {
				return &driver.Fail{Sig: kind + ": content visible while only pushes of mismatching content were under way", Detail: fmt.Sprintf("%s\n%s, descriptor #%d: %s", detail, o.who, o.d, o.v)}
			}
			if o.who == "final" && !anyOK && o.v.visible() {
				return &driver.Fail{Sig: kind + ": content visible although every push failed", Detail: fmt.Sprintf("%s\ndescriptor #%d: %s", detail, o.d, o.v)}
			}
		}
		if cs.root != "" {
			files := regularFiles(filepath.Join(cs.root, "blobs"))
			if bad := misnamedBlob(files); bad != "" {
				return &driver.Fail{Sig: kind + ": blobs/ holds a file whose bytes do not hash to its name after concurrent pushes", Detail: detail + "\noffending: " + bad + "; files: [" + names(files) + "]"}
			}
			if !anyOK && len(files) > 0 {
				return &driver.Fail{Sig: kind + ": failed pushes added a file under blobs/", Detail: detail + "\nfiles: [" + names(files) + "]"}
			}
			c.Count("info:ingest_leftover_files", int64(len(regularFiles(filepath.Join(cs.root, "ingest")))))
		}
		c.Outcome(driver.Hash(kind, m.String(), strings.Join(cls, ";")))
		if len(res.Trace) > 0 {
			nd := false
			for _, p := range res.Trace {
				if p.Chosen != 0 {
					nd = true
				}
			}
			if nd {
				c.Nontriv(driver.Hash(kind, m.String(), fmt.Sprint(res.Choices())))
			}
		}
		return nil
	}
	return body, check
}

func ones(n int) []int {
	out := make([]int, n)
	for i := range out {
		out[i] = 1
	}
	return out
}
