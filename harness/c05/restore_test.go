package c05

import (
	"bytes"
	"context"
	"encoding/json"
	"fmt"
	"io"
	"oras.land/oras-go/v2/content"
	"os"
	"path/filepath"
	"strings"

	"github.com/opencontainers/go-digest"
	"github.com/opencontainers/image-spec/specs-go"
	ocispec "github.com/opencontainers/image-spec/specs-go/v1"
	"oras.land/oras-go/v2/content/file"
	. "oras.land/oras-go/v2/internal/zzverif/common"
	"verif.local/engine/driver"
)

// The file store's second way of making content visible: a manifest that names,
// under another file name, content the store already holds is "restored" - the
// bytes are copied to the new name when the manifest is pushed. The copy must
// obey the same rule as a Push: the new name becomes visible only if the bytes
// are exactly what the layer descriptor of the manifest says.
//
// cases: content {"", "a", "aa\x00"} x layer descriptor size {right, -1, +1, 0, 7} x digest {right, wrong}
// x what the first file holds when the manifest arrives {untouched, changed on disk to other bytes of
// the same length, truncated} x ForceCAS {false}.

func restoreJob() driver.Job {
	return driver.Job{Name: "restore/file.Store", Run: func(c *driver.Ctx) {
		for _, data := range [][]byte{{}, []byte("a"), []byte("aa\x00")} {
			for _, dsize := range []int64{0, -1, 1, -int64(len(data)), 7 - int64(len(data))} {
				for _, wrongDigest := range []bool{false, true} {
					for _, disk := range []string{"untouched", "changed", "truncated"} {
						if disk != "untouched" && len(data) == 0 {
							continue
						}
						c.Evals++
						if f := restoreCase(c, data, dsize, wrongDigest, disk); f != nil {
							c.AddViolation(driver.Violation{Tier: c.Tier, Job: c.Job, Scenario: "restore", Sig: f.sig,
								Detail: fmt.Sprintf("first push: %q as a.txt; on disk before the manifest arrives: %s; the manifest's layer: same content named b.txt with size %+d, wrong digest=%v\n%s", data, disk, dsize, wrongDigest, f.detail)})
						}
					}
				}
			}
		}
	}}
}

func restoreCase(c *driver.Ctx, data []byte, dsize int64, wrongDigest bool, disk string) *fail {
	dir := Scratch("c05x")
	defer os.RemoveAll(dir)
	st, err := file.New(dir)
	if err != nil {
		panic(err)
	}
	defer st.Close()
	ctx := context.Background()
	mt := "application/octet-stream"
	first := ocispec.Descriptor{MediaType: mt, Digest: digest.FromBytes(data), Size: int64(len(data)), Annotations: map[string]string{ocispec.AnnotationTitle: "a.txt"}}
	if err := st.Push(ctx, first, bytes.NewReader(data)); err != nil {
		return failf("restore: push of good named content failed", "%v", err)
	}
	onDisk := data
	switch disk {
	case "changed":
		onDisk = bytes.Repeat([]byte("Z"), len(data))
		must(os.WriteFile(filepath.Join(dir, "a.txt"), onDisk, 0o644))
	case "truncated":
		onDisk = data[:len(data)-1]
		must(os.WriteFile(filepath.Join(dir, "a.txt"), onDisk, 0o644))
	}
	layer := ocispec.Descriptor{MediaType: mt, Digest: first.Digest, Size: first.Size + dsize, Annotations: map[string]string{ocispec.AnnotationTitle: "b.txt"}}
	if wrongDigest {
		// a digest nothing in the store has: nothing can be restored from
		layer.Digest = digest.FromString("something else")
	}
	cfg := []byte("{}")
	cfgDesc := ocispec.Descriptor{MediaType: ocispec.MediaTypeImageConfig, Digest: digest.FromBytes(cfg), Size: 2}
	if err := st.Push(ctx, cfgDesc, bytes.NewReader(cfg)); err != nil {
		return failf("restore: push of the config failed", "%v", err)
	}
	man, _ := json.Marshal(ocispec.Manifest{Versioned: specs.Versioned{SchemaVersion: 2}, MediaType: ocispec.MediaTypeImageManifest, Config: cfgDesc, Layers: []ocispec.Descriptor{layer}})
	manDesc := ocispec.Descriptor{MediaType: ocispec.MediaTypeImageManifest, Digest: digest.FromBytes(man), Size: int64(len(man))}
	perr := st.Push(ctx, manDesc, bytes.NewReader(man))
	c.Outcome(driver.Hash("restore", errClass(perr)))

	// what the new name shows
	v := probe(st, layer)
	fileB, ferr := os.ReadFile(filepath.Join(dir, "b.txt"))
	matches := !wrongDigest && layer.Size == int64(len(onDisk)) && digest.FromBytes(onDisk) == layer.Digest
	state := fmt.Sprintf("manifest Push err=%v; b.txt: %s; file b.txt on disk: %q err=%v", perr, v, clip(fileB), ferr)
	if matches {
		c.Count("restore_cases_that_may_materialise", 1)
		if v.fetchErr == nil && (v.readErr != nil || !bytes.Equal(v.bytes, data)) {
			return failf("restore: the restored name hands back bytes that are not the named content", "%s", state)
		}
		return nil
	}
	c.Nontriv(driver.Hash("restore", string(data), fmt.Sprint(dsize, wrongDigest, disk)))
	if v.exists {
		return failf("restore: a name whose descriptor the stored bytes do not match became visible (Exists true)", "%s", state)
	}
	if v.fetchErr == nil && v.readErr == nil {
		return failf("restore: a name whose descriptor the stored bytes do not match became fetchable", "%s", state)
	}
	if ferr == nil {
		return failf("restore: a file was written under a name whose descriptor the stored bytes do not match", "%s", state)
	}
	return nil
}

func must(err error) {
	if err != nil {
		panic(err)
	}
}

// A reader that is itself a content.VerifyReader for the same descriptor and has already been read
// from (the caller peeked at the first k bytes, or read and verified everything): what is left is an
// early-ending stream, so Push must fail and nothing may become visible; with k = 0 the push is an
// ordinary good one.
func vreaderJob() driver.Job {
	return driver.Job{Name: "vreader/pre-consumed", Run: func(c *driver.Ctx) {
		for _, p := range pushTargets() {
			if strings.Contains(p.name, "unpack") || strings.Contains(p.name, "Limited") {
				continue
			}
			for _, data := range [][]byte{[]byte("a"), {'a', 0}, []byte("aa\x00")} {
				for k := 0; k <= len(data)+1; k++ {
					ks := &kase{s: data, d: dspec{dname: "right", sname: "right", digest: "sha256:" + hexOf("sha256", data), alg: "sha256", hexv: hexOf("sha256", data), size: int64(len(data))}}
					ps := p.mk(ks)
					desc := ps.desc
					vr := content.NewVerifyReader(bytes.NewReader(data), desc)
					n := k
					verified := false
					if k > len(data) {
						n, verified = len(data), true
					}
					if _, err := io.ReadFull(vr, make([]byte, n)); err != nil {
						panic(err)
					}
					if verified {
						if err := vr.Verify(); err != nil {
							panic(err)
						}
					}
					err := ps.st.Push(ctx, desc, vr)
					v := probe(ps.st, desc)
					c.Evals++
					c.Nontriv(driver.Hash("vreader", p.name, string(data), fmt.Sprint(k)))
					what := fmt.Sprintf("content %q pushed through a content.VerifyReader of which %d bytes had been read before (verified before: %v)\nPush err=%v; %s", data, n, verified, err, v)
					var f *fail
					switch {
					case n == 0 && err == nil && (v.fetchErr != nil || !bytes.Equal(v.bytes, data)):
						f = failf(p.name+": Fetch after a successful Push hands back bytes that are not the named content", "%s", what)
					case n > 0 && err == nil:
						f = failf(p.name+".Push: succeeded although the reader had fewer than Size bytes left (a partly consumed VerifyReader)", "%s", what)
					case n > 0 && v.visible():
						f = failf(p.name+".Push: failed push left the content visible", "%s", what)
					}
					ps.cleanup()
					if f != nil {
						c.AddViolation(driver.Violation{Tier: c.Tier, Job: c.Job, Scenario: "vreader", Sig: f.sig, Detail: f.detail})
						return
					}
				}
			}
		}
	}}
}
