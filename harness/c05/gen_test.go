package c05

import (
	"crypto/md5"
	"crypto/sha1"
	"crypto/sha256"
	"crypto/sha512"
	"encoding/hex"
	"errors"
	"fmt"
	"io"
	"strings"

	"github.com/opencontainers/go-digest"
	ocispec "github.com/opencontainers/image-spec/specs-go/v1"
	"verif.local/engine/vs"
)

// ---------------------------------------------------------------------------
// Generator-side ground truth. Nothing in this file calls into oras-go or into
// go-digest: digests are assembled by hand from the standard library hashes and
// the generator knows by construction which digest strings are unacceptable.

func hexOf(alg string, b []byte) string {
	switch alg {
	case "sha256":
		s := sha256.Sum256(b)
		return hex.EncodeToString(s[:])
	case "sha512":
		s := sha512.Sum512(b)
		return hex.EncodeToString(s[:])
	case "sha1":
		s := sha1.Sum(b)
		return hex.EncodeToString(s[:])
	case "md5":
		s := md5.Sum(b)
		return hex.EncodeToString(s[:])
	}
	panic("alg " + alg)
}

// dspec is one descriptor under test together with what the generator knows
// about it.
type dspec struct {
	dname  string // digest kind
	sname  string // size kind
	digest string // the digest string handed to the library
	alg    string // "" = malformed or unsupported: no content can ever match it
	hexv   string // expected hex when alg != ""
	why    string // for alg == "": "malformed digest" | "unsupported digest algorithm"
	size   int64
}

func (d dspec) String() string {
	dg := d.digest
	if len(dg) > 24 {
		dg = dg[:24] + "…"
	}
	return fmt.Sprintf("digest=%s(%q) size=%s(%d)", d.dname, dg, d.sname, d.size)
}

func (d dspec) oci(ann map[string]string) ocispec.Descriptor {
	return ocispec.Descriptor{MediaType: "application/octet-stream", Digest: digest.Digest(d.digest), Size: d.size, Annotations: ann}
}

// matches reports whether b is exactly the content d names.
func (d dspec) matches(b []byte) bool {
	return d.alg != "" && d.size >= 0 && int64(len(b)) == d.size && hexOf(d.alg, b) == d.hexv
}

// descriptors returns every descriptor variation for the intended content s.
func descriptors(s []byte, thorough bool) []dspec {
	type dg struct {
		name, digest, alg, hexv, why string
	}
	other := append(append([]byte{}, s...), '!')
	h256 := hexOf("sha256", s)
	dgs := []dg{
		{"right", "sha256:" + h256, "sha256", h256, ""},
		{"wrong", "sha256:" + hexOf("sha256", other), "sha256", hexOf("sha256", other), ""},
	}
	if len(s) > 0 {
		p := hexOf("sha256", s[:len(s)-1])
		dgs = append(dgs, dg{"right-for-prefix", "sha256:" + p, "sha256", p, ""})
	}
	dgs = append(dgs,
		dg{"sha512-right", "sha512:" + hexOf("sha512", s), "sha512", hexOf("sha512", s), ""},
		dg{"sha512-wrong", "sha512:" + hexOf("sha512", other), "sha512", hexOf("sha512", other), ""},
		dg{"unsupported-sha1", "sha1:" + hexOf("sha1", s), "", "", "unsupported digest algorithm"},
		dg{"malformed-empty", "", "", "", "malformed digest"},
		dg{"malformed-bad-hex", "sha256:" + h256[:63] + "g", "", "", "malformed digest"},
		dg{"malformed-short-hex", "sha256:" + h256[:63], "", "", "malformed digest"},
		dg{"malformed-traversal", "sha256:../../../../c05-escape", "", "", "malformed digest"},
		// an encoded part of exactly the hex length that is a relative path to a file every OCI layout has
		dg{"malformed-traversal-of-hex-length", "sha256:" + strings.Repeat("./", 24) + "../../index.json", "", "", "malformed digest"},
		dg{"malformed-traversal-of-hex-length-2", "sha256:" + strings.Repeat("./", 24) + "../../oci-layout", "", "", "malformed digest"},
	)
	if thorough {
		dgs = append(dgs,
			dg{"unsupported-md5", "md5:" + hexOf("md5", s), "", "", "unsupported digest algorithm"},
			dg{"malformed-no-colon", "sha256" + h256, "", "", "malformed digest"},
			dg{"malformed-upper-hex", "sha256:" + strings.ToUpper(h256), "", "", "malformed digest"},
			dg{"malformed-no-hex", "sha256:", "", "", "malformed digest"},
			dg{"malformed-sha256-with-sha512-hex", "sha256:" + hexOf("sha512", s), "", "", "malformed digest"},
		)
	}
	n := int64(len(s))
	type sz struct {
		name string
		v    int64
	}
	szs := []sz{{"right", n}, {"short-by-1", n - 1}, {"long-by-1", n + 1}, {"zero", 0}, {"minus-1", -1}}
	if thorough {
		szs = append(szs, sz{"long-by-2", n + 2}, sz{"minus-2", -2})
	}
	var out []dspec
	seen := map[string]bool{}
	for _, g := range dgs {
		for _, z := range szs {
			k := fmt.Sprintf("%s|%d", g.digest, z.v)
			if seen[k] {
				continue
			}
			seen[k] = true
			out = append(out, dspec{g.name, z.name, g.digest, g.alg, g.hexv, g.why, z.v})
		}
	}
	return out
}

// stream is what the reader is able to deliver: data, then EOF or an error.
type stream struct {
	name string
	data []byte
	fail bool // true: after data the reader returns errBoom instead of io.EOF
}

var errBoom = errors.New("c05: scripted reader failure")
var errRunaway = errors.New("c05: reader polled more than 4096 times")

// streams returns every termination behaviour for the intended content s.
func streams(s []byte) []stream {
	out := []stream{{"complete", s, false}}
	out = append(out, stream{"extra-byte-after-end", append(append([]byte{}, s...), 'a'), false})
	for k := 0; k < len(s); k++ {
		out = append(out, stream{fmt.Sprintf("early-EOF@%d", k), s[:k], false})
	}
	for k := 0; k <= len(s); k++ {
		out = append(out, stream{fmt.Sprintf("error@%d", k), s[:k], true})
	}
	return out
}

// compositions returns every way to cut n bytes into chunks of 1..max bytes.
func compositions(n, max int) [][]int {
	if n == 0 {
		return [][]int{{}}
	}
	var out [][]int
	for c := 1; c <= max && c <= n; c++ {
		for _, rest := range compositions(n-c, max) {
			out = append(out, append([]int{c}, rest...))
		}
	}
	return out
}

// chunking is the reader's delivery plan: chunk sizes, the position of one
// 0-byte read (-1 none, i = before chunk i, len(chunks) = before the end
// signal) and whether the end signal comes together with the last chunk.
type chunking struct {
	chunks []int
	zero   int
	join   bool
}

func (c chunking) String() string {
	return fmt.Sprintf("chunks=%v zero-read@%d end-with-last-chunk=%v", c.chunks, c.zero, c.join)
}

func chunkings(n, max int, zeros bool) []chunking {
	var out []chunking
	for _, comp := range compositions(n, max) {
		zs := []int{-1}
		if zeros {
			for z := 0; z <= len(comp); z++ {
				zs = append(zs, z)
			}
		}
		for _, z := range zs {
			out = append(out, chunking{comp, z, false})
			if len(comp) > 0 && z != len(comp) {
				out = append(out, chunking{comp, z, true})
			}
		}
	}
	return out
}

// sreader is the scripted reader.
type sreader struct {
	st       stream
	ck       chunking
	pt       bool // scheduling point before every Read (concurrent scenarios)
	ci, used int
	off      int
	zeroDone bool
	ended    bool
	reads    int
	erred    bool // errBoom was returned at least once
	sawEOF   bool
	runaway  bool
	closed   int
}

func newReader(st stream, ck chunking) *sreader { return &sreader{st: st, ck: ck} }

func (r *sreader) end() error {
	r.ended = true
	if r.st.fail {
		r.erred = true
		return errBoom
	}
	r.sawEOF = true
	return io.EOF
}

func (r *sreader) Read(p []byte) (int, error) {
	if r.pt {
		vs.Pt("reader")
	}
	r.reads++
	if r.reads > 4096 {
		r.runaway = true
		return 0, errRunaway
	}
	if r.ended {
		return 0, r.end()
	}
	if len(p) == 0 {
		return 0, nil
	}
	if r.ck.zero == r.ci && r.used == 0 && !r.zeroDone {
		r.zeroDone = true
		return 0, nil
	}
	if r.ci == len(r.ck.chunks) {
		return 0, r.end()
	}
	n := r.ck.chunks[r.ci] - r.used
	if n > len(p) {
		n = len(p)
	}
	copy(p, r.st.data[r.off:r.off+n])
	r.off += n
	r.used += n
	if r.used == r.ck.chunks[r.ci] {
		r.ci++
		r.used = 0
	}
	if r.ci == len(r.ck.chunks) && r.ck.join {
		return n, r.end()
	}
	return n, nil
}

func (r *sreader) Close() error { r.closed++; return nil }

// kase is one fully determined input: intended content, descriptor, stream, chunking.
type kase struct {
	s  []byte
	d  dspec
	st stream
	ck chunking
}

func (k *kase) String() string {
	return fmt.Sprintf("content=%q %s stream=%s(%q, then %s) %s", k.s, k.d, k.st.name, clip(k.st.data), endName(k.st), k.ck)
}

func clip(b []byte) string {
	if len(b) > 16 {
		return fmt.Sprintf("%s…(%d bytes)", b[:8], len(b))
	}
	return string(b)
}

func endName(s stream) string {
	if s.fail {
		return "error"
	}
	return "EOF"
}

// key identifies the case without its chunking (the unit of "distinct non-trivial").
func (k *kase) key() string {
	return fmt.Sprintf("%x|%s|%d|%s", k.s, k.d.digest, k.d.size, k.st.name)
}

// full: the stream delivers at least Size bytes and the first Size bytes are the
// content the descriptor names. This is the only situation in which a Push may succeed.
func (k *kase) full() bool {
	return k.d.size >= 0 && int64(len(k.st.data)) >= k.d.size && k.d.matches(k.st.data[:k.d.size])
}

// beyond: the stream holds bytes beyond Size.
func (k *kase) beyond() bool { return k.d.size >= 0 && int64(len(k.st.data)) > k.d.size }

// want is the content that may become visible (only meaningful when full()).
func (k *kase) want() []byte { return k.st.data[:k.d.size] }

// class names why the case can never be accepted ("" when full()).
func (k *kase) class() string {
	switch {
	case k.d.alg == "":
		return k.d.why
	case k.d.size < 0:
		return "negative Size"
	case int64(len(k.st.data)) < k.d.size && k.st.fail:
		return "reader failed before Size bytes"
	case int64(len(k.st.data)) < k.d.size:
		return "reader ended before Size bytes"
	case !k.d.matches(k.st.data[:k.d.size]):
		return "first Size bytes do not hash to Digest"
	}
	return ""
}

// trivial: exactly the named content from a reader that ends with EOF.
func (k *kase) trivial() bool { return k.full() && !k.beyond() && !k.st.fail }

// alphabet strings over {0x00,'a'} of length 0..maxLen.
func contents(maxLen int) [][]byte {
	out := [][]byte{{}}
	prev := [][]byte{{}}
	for l := 1; l <= maxLen; l++ {
		var cur [][]byte
		for _, p := range prev {
			for _, b := range []byte{0x00, 'a'} {
				cur = append(cur, append(append([]byte{}, p...), b))
			}
		}
		out = append(out, cur...)
		prev = cur
	}
	return out
}

// space describes the bounded input space of one tier.
type space struct {
	maxLen, maxChunk int
	thorough         bool
}

func tierSpace(tier string) space {
	if tier == "thorough" {
		return space{maxLen: 4, maxChunk: 3, thorough: true}
	}
	return space{maxLen: 3, maxChunk: 2}
}

// each enumerates the whole space in a fixed order; zeros=false drops the
// 0-byte-read and joined-end variations (used where a target multiplies the
// space by its own call sequences).
func (sp space) each(zeros bool, f func(idx int, k *kase)) {
	idx := 0
	for _, s := range contents(sp.maxLen) {
		ds := descriptors(s, sp.thorough)
		for _, st := range streams(s) {
			var cks []chunking
			if zeros {
				cks = chunkings(len(st.data), sp.maxChunk, true)
			} else {
				for _, comp := range compositions(len(st.data), sp.maxChunk) {
					cks = append(cks, chunking{comp, -1, false})
				}
			}
			for _, d := range ds {
				for _, ck := range cks {
					f(idx, &kase{s, d, st, ck})
					idx++
				}
			}
		}
	}
}

// bigCases: one 1 MiB+1 string, so that the 1 MiB copy buffers are crossed.
func bigCases() []*kase {
	n := 1<<20 + 1
	s := make([]byte, n)
	for i := range s {
		s[i] = byte('a' + i%7)
	}
	flip := append([]byte{}, s...)
	flip[n-1] ^= 1
	mk := func(dn, sn string, of []byte, size int64) dspec {
		h := hexOf("sha256", of)
		return dspec{dn, sn, "sha256:" + h, "sha256", h, "", size}
	}
	right := mk("right", "right", s, int64(n))
	var out []*kase
	one := func(d dspec, st stream, c int) {
		var chunks []int
		for left := len(st.data); left > 0; left -= c {
			if left < c {
				chunks = append(chunks, left)
				break
			}
			chunks = append(chunks, c)
		}
		out = append(out, &kase{s, d, st, chunking{chunks, -1, false}})
	}
	for _, c := range []int{1 << 21, 1 << 20, 65537} {
		one(right, stream{"complete", s, false}, c)
		one(right, stream{"last-byte-flipped", flip, false}, c)
		one(right, stream{"extra-byte-after-end", append(append([]byte{}, s...), 'a'), false}, c)
		one(right, stream{"early-EOF@1MiB", s[:n-1], false}, c)
		one(right, stream{"error@1MiB", s[:n-1], true}, c)
		one(right, stream{"error@end", s, true}, c)
		one(mk("right-for-prefix", "short-by-1", s[:n-1], int64(n-1)), stream{"complete", s, false}, c)
		one(mk("right", "short-by-1", s, int64(n-1)), stream{"complete", s, false}, c)
		one(mk("right", "long-by-1", s, int64(n+1)), stream{"complete", s, false}, c)
		one(mk("right", "minus-1", s, -1), stream{"complete", s, false}, c)
	}
	return out
}
