package c05

import (
	"bytes"
	"context"
	"errors"
	"fmt"
	"io"
	"os"
	"path/filepath"
	"sort"
	"strings"

	ocispec "github.com/opencontainers/image-spec/specs-go/v1"
	"oras.land/oras-go/v2/content"
	"oras.land/oras-go/v2/content/file"
	"oras.land/oras-go/v2/content/memory"
	"oras.land/oras-go/v2/content/oci"
	"oras.land/oras-go/v2/errdef"
	"oras.land/oras-go/v2/internal/cas"
	"oras.land/oras-go/v2/internal/ioutil"
	. "oras.land/oras-go/v2/internal/zzverif/common"
	"verif.local/engine/driver"
)

// fail is one oracle failure: defect-level signature + what was seen.
type fail struct{ sig, detail string }

func failf(sig, format string, a ...any) *fail { return &fail{sig, fmt.Sprintf(format, a...)} }

var ctx = context.Background()

// lastOutcome is the library's answer in the most recent case (samples only).
var lastOutcome string

// errClass is used for outcome statistics only (never by the oracle).
func errClass(err error) string {
	switch {
	case err == nil:
		return "ok"
	case errors.Is(err, errBoom):
		return "reader-error"
	case errors.Is(err, content.ErrInvalidDescriptorSize):
		return "invalid-size"
	case errors.Is(err, content.ErrMismatchedDigest):
		return "mismatched-digest"
	case errors.Is(err, content.ErrTrailingData):
		return "trailing-data"
	case errors.Is(err, io.ErrUnexpectedEOF):
		return "unexpected-eof"
	case errors.Is(err, errdef.ErrInvalidDigest):
		return "invalid-digest"
	case errors.Is(err, errdef.ErrSizeExceedsLimit):
		return "size-exceeds-limit"
	case errors.Is(err, errdef.ErrAlreadyExists):
		return "already-exists"
	case errors.Is(err, errdef.ErrNotFound):
		return "not-found"
	}
	return "other"
}

// target is one API under test over the sequential input space.
type target struct {
	name   string
	zeros  bool // enumerate the 0-byte-read / joined-end variations too
	big    bool // also run the 1 MiB+1 cases
	shards int
	run    func(c *driver.Ctx, k *kase) *fail
}

func seqTargets(sp space) []target {
	ts := []target{
		{"content.ReadAll", true, true, 4, runReadAll},
		{"content.FetchAll", true, false, 4, runFetchAll},
		{"content.VerifyReader", true, false, 64, func(c *driver.Ctx, k *kase) *fail { return runVerifyReader(c, k, sp) }},
		{"ioutil.CopyBuffer", true, true, 8, runCopyBuffer},
	}
	for _, p := range pushTargets() {
		p := p
		ts = append(ts, target{p.name, true, p.big, p.shards, func(c *driver.Ctx, k *kase) *fail { return runPush(c, p, k) }})
	}
	return ts
}

func seqJobs(sp space) []driver.Job {
	var out []driver.Job
	for _, t := range seqTargets(sp) {
		t := t
		nsh := t.shards
		if sp.thorough {
			nsh *= 4
		}
		for sh := 0; sh < nsh; sh++ {
			sh := sh
			name := fmt.Sprintf("seq/%s/shard%d.%d", t.name, sh, nsh)
			out = append(out, driver.Job{Name: name, Run: func(c *driver.Ctx) {
				one := func(k *kase) {
					c.Evals++
					c.Traces++
					c.Count("cases:"+t.name, 1)
					if !k.trivial() {
						c.Nontriv(driver.Hash(t.name, k.key()))
					}
					f := t.run(c, k)
					if f != nil {
						c.AddViolation(driver.Violation{Tier: c.Tier, Job: c.Job, Scenario: t.name, Sig: f.sig,
							Detail: "case: " + k.String() + "\n" + f.detail})
					}
				}
				stop := false
				sp.each(t.zeros, func(idx int, k *kase) {
					if stop || idx%nsh != sh {
						return
					}
					if idx&1023 == 0 && c.Expired() {
						c.Capped = true
						stop = true
						return
					}
					one(k)
				})
				if t.big && !stop {
					for i, k := range bigCases() {
						if i%nsh == sh {
							c.Count("big_cases", 1)
							one(k)
						}
					}
				}
			}})
		}
	}
	return out
}

// sampleJob writes out two cases with the library's answer and the oracle's demand.
func sampleJob(sp space) driver.Job {
	return driver.Job{Name: "samples", Run: func(c *driver.Ctx) {
		ts := seqTargets(sp)
		pick := func(name string, pred func(k *kase) bool) {
			for _, t := range ts {
				if t.name != name {
					continue
				}
				done := false
				sp.each(true, func(_ int, k *kase) {
					if done || !pred(k) {
						return
					}
					done = true
					c.Evals++
					f := t.run(c, k)
					verdict := "holds"
					if f != nil {
						verdict = "VIOLATED: " + f.sig
					}
					c.Sample(fmt.Sprintf("%s | %s | library: %s | oracle: %s | %s", t.name, k, lastOutcome, expectation(k), verdict))
				})
			}
		}
		rich := func(k *kase) bool { return len(k.st.data) >= 2 && len(k.ck.chunks) >= 2 && k.ck.zero >= 1 }
		pick("content.ReadAll", func(k *kase) bool { return rich(k) && k.full() && k.beyond() && k.d.size > 0 })
		pick("oci.Storage", func(k *kase) bool {
			return rich(k) && !k.full() && k.d.dname == "right" && k.d.sname == "right" && !k.st.fail
		})
	}}
}

// expectation spells out what the oracle demands for k (samples only).
func expectation(k *kase) string {
	switch {
	case !k.full():
		return "must be refused (" + k.class() + "); after a refused Push: Exists false, Fetch fails, no new file under blobs/"
	case k.beyond():
		return "first Size bytes are the named content but bytes follow: ReadAll/FetchAll/VerifyReader/CopyBuffer must report an error; a Push may go either way but only the named bytes may become visible"
	case k.st.fail:
		return "named content delivered, then the reader fails: not judged, only the named bytes may become visible"
	}
	return "exact content: if accepted, the bytes handed back / visible must equal the named content"
}

// ---- ReadAll / FetchAll

// judgeData is the oracle of the second sentence of the statement: data handed
// back without error must have the named length and digest, and the source must
// not hold bytes beyond Size.
func judgeData(c *driver.Ctx, t string, k *kase, rd *sreader, out []byte, err error) *fail {
	c.Outcome(driver.Hash(t, errClass(err)))
	lastOutcome = fmt.Sprintf("data=%q err=%v", clip(out), err)
	if rd.runaway {
		return failf(t+": keeps polling a reader that makes no progress", "more than 4096 Read calls")
	}
	if err != nil {
		c.Count("refused:"+t, 1)
		if k.trivial() {
			c.Count("note:exact-content-from-clean-reader-refused:"+t, 1)
		}
		return nil
	}
	c.Count("accepted:"+t, 1)
	switch {
	case !k.full():
		return failf(t+": handed back data without error although "+k.class(), "returned %q, err=nil", clip(out))
	case k.beyond():
		return failf(t+": bytes beyond Size not reported as an error", "returned %q, err=nil; the source holds %d bytes, Size=%d", clip(out), len(k.st.data), k.d.size)
	case !bytes.Equal(out, k.want()):
		return failf(t+": handed back bytes that are not the content the descriptor names", "returned %q, want %q", clip(out), clip(k.want()))
	}
	return nil
}

func runReadAll(c *driver.Ctx, k *kase) *fail {
	rd := newReader(k.st, k.ck)
	out, err := content.ReadAll(rd, k.d.oci(nil))
	return judgeData(c, "content.ReadAll", k, rd, out, err)
}

type oneFetcher struct{ rd *sreader }

func (f oneFetcher) Fetch(context.Context, ocispec.Descriptor) (io.ReadCloser, error) {
	return f.rd, nil
}

func runFetchAll(c *driver.Ctx, k *kase) *fail {
	rd := newReader(k.st, k.ck)
	out, err := content.FetchAll(ctx, oneFetcher{rd}, k.d.oci(nil))
	if rd.closed != 1 {
		c.Count("note:FetchAll-reader-close-count-not-1", 1)
	}
	return judgeData(c, "content.FetchAll", k, rd, out, err)
}

// ---- VerifyReader: every call sequence over {Read(1), Read(2), Read(8), Verify}

func runVerifyReader(c *driver.Ctx, k *kase, sp space) *fail {
	const t = "content.VerifyReader"
	L := 4
	if sp.thorough && k.ck.zero < 0 && !k.ck.join {
		L = 5 // longer call sequences for the plain chunkings only
	}
	n := 1
	for i := 0; i < L; i++ {
		n *= 4
	}
	bufs := [3]int{1, 2, 8}
	var first *fail
	for seq := 0; seq < n; seq++ {
		rd := newReader(k.st, k.ck)
		vr := content.NewVerifyReader(rd, k.d.oci(nil))
		var handed []byte
		x := seq
		var ops []string
		c.Count("verifyreader_call_sequences", 1)
		for i := 0; i < L; i++ {
			op := x % 4
			x /= 4
			if op < 3 {
				p := make([]byte, bufs[op])
				m, err := vr.Read(p)
				ops = append(ops, fmt.Sprintf("Read(%d)=%d,%v", len(p), m, err))
				if m < 0 || m > len(p) {
					return failf(t+": Read returned an impossible count", "%v", ops)
				}
				handed = append(handed, p[:m]...)
				if len(handed) > len(k.st.data) || !bytes.Equal(handed, k.st.data[:len(handed)]) {
					return failf(t+": Read handed back bytes the source never delivered", "%v handed=%q source=%q", ops, clip(handed), clip(k.st.data))
				}
				continue
			}
			err := vr.Verify()
			ops = append(ops, fmt.Sprintf("Verify=%v", err))
			if err != nil {
				continue
			}
			c.Count("verifyreader_verify_ok", 1)
			var f *fail
			switch {
			case !k.full():
				f = failf(t+": Verify returned nil although "+k.class(), "%v", ops)
			case int64(len(handed)) != k.d.size:
				f = failf(t+": Verify returned nil although the data handed back has not the named length", "%v handed %d bytes, Size=%d", ops, len(handed), k.d.size)
			case k.beyond():
				f = failf(t+": bytes beyond Size not reported as an error", "%v; the source holds %d bytes, Size=%d", ops, len(k.st.data), k.d.size)
			case !bytes.Equal(handed, k.want()):
				f = failf(t+": Verify returned nil although the data handed back is not the named content", "%v handed=%q", ops, clip(handed))
			}
			if f != nil && first == nil {
				first = f
			}
		}
		if rd.runaway {
			return failf(t+": keeps polling a reader that makes no progress", "%v", ops)
		}
		if first != nil {
			return first
		}
	}
	return nil
}

// ---- ioutil.CopyBuffer

var copyBuf = make([]byte, 1<<20)

type plainWriter struct{ b []byte }

func (w *plainWriter) Write(p []byte) (int, error) { w.b = append(w.b, p...); return len(p), nil }

func runCopyBuffer(c *driver.Ctx, k *kase) *fail {
	const t = "ioutil.CopyBuffer"
	big := len(k.s) > 1000
	for _, bs := range []int{0, 1, 2, 64} {
		if big && (bs == 1 || bs == 2) {
			continue
		}
		rd := newReader(k.st, k.ck)
		var got []byte
		var err error
		if bs == 0 { // bytes.Buffer: io.CopyBuffer takes the ReaderFrom path
			var bb bytes.Buffer
			err = ioutil.CopyBuffer(&bb, rd, copyBuf, k.d.oci(nil))
			got = bb.Bytes()
		} else {
			w := &plainWriter{}
			buf := copyBuf[:bs]
			if big {
				buf = copyBuf
			}
			err = ioutil.CopyBuffer(w, rd, buf, k.d.oci(nil))
			got = w.b
		}
		if got == nil {
			got = []byte{}
		}
		if f := judgeData(c, t, k, rd, got, err); f != nil {
			f.detail = fmt.Sprintf("copy buffer variant %d: %s", bs, f.detail)
			return f
		}
	}
	return nil
}

// ---- Push targets

type pstore struct {
	st      content.Storage
	desc    ocispec.Descriptor
	root    string // OCI layout root ("" = none)
	path    string // file the named content is written to ("" = none)
	cleanup func()
}

type ptarget struct {
	name   string
	big    bool
	shards int
	mk     func(k *kase) pstore
}

const fileName = "f.bin"

func pushTargets() []ptarget {
	lim := func(delta int64) func(k *kase) pstore {
		return func(k *kase) pstore {
			return pstore{st: content.LimitStorage(cas.NewMemory(), k.d.size+delta), desc: k.d.oci(nil), cleanup: func() {}}
		}
	}
	named := func(k *kase) map[string]string { return map[string]string{ocispec.AnnotationTitle: fileName} }
	return []ptarget{
		{"cas.Memory", true, 4, func(k *kase) pstore {
			return pstore{st: cas.NewMemory(), desc: k.d.oci(nil), cleanup: func() {}}
		}},
		{"memory.Store", false, 4, func(k *kase) pstore {
			return pstore{st: memory.New(), desc: k.d.oci(nil), cleanup: func() {}}
		}},
		{"LimitedStorage(limit=Size-1)", false, 4, lim(-1)},
		{"LimitedStorage(limit=Size)", false, 4, lim(0)},
		{"LimitedStorage(limit=Size+1)", false, 4, lim(1)},
		{"oci.Storage", true, 32, func(k *kase) pstore {
			dir := Scratch("c05s")
			st, err := oci.NewStorage(dir)
			if err != nil {
				panic(err)
			}
			return pstore{st: st, desc: k.d.oci(nil), root: dir, cleanup: func() { os.RemoveAll(dir) }}
		}},
		{"oci.Store", true, 32, func(k *kase) pstore {
			dir := Scratch("c05o")
			st, err := oci.New(dir)
			if err != nil {
				panic(err)
			}
			return pstore{st: st, desc: k.d.oci(nil), root: dir, cleanup: func() { os.RemoveAll(dir) }}
		}},
		{"file.Store(named)", true, 16, func(k *kase) pstore {
			dir := Scratch("c05f")
			st, err := file.New(dir)
			if err != nil {
				panic(err)
			}
			return pstore{st: st, desc: k.d.oci(named(k)), path: filepath.Join(dir, fileName), cleanup: func() { st.Close(); os.RemoveAll(dir) }}
		}},
		{"file.Store(named, replacing a longer file)", false, 16, func(k *kase) pstore {
			// the name's path already holds a longer file (an earlier version pulled into the same directory)
			dir := Scratch("c05r")
			st, err := file.New(dir)
			if err != nil {
				panic(err)
			}
			p := filepath.Join(dir, fileName)
			if err := os.WriteFile(p, []byte("zzzzzzzzzzzzzzzz"), 0o644); err != nil {
				panic(err)
			}
			return pstore{st: st, desc: k.d.oci(named(k)), path: p, cleanup: func() { st.Close(); os.RemoveAll(dir) }}
		}},
		{"file.Store(named, unpack)", false, 16, func(k *kase) pstore {
			// a named directory layer: the bytes are kept as a temporary gzip file and unpacked; the
			// enumerated contents are never a valid archive, so every push fails - after verification
			// when the bytes match, during it when they do not
			dir := Scratch("c05d")
			st, err := file.New(dir)
			if err != nil {
				panic(err)
			}
			ann := map[string]string{ocispec.AnnotationTitle: "d", file.AnnotationUnpack: "true"}
			return pstore{st: st, desc: k.d.oci(ann), cleanup: func() { st.Close(); os.RemoveAll(dir) }}
		}},
		{"file.Store(unnamed, fallback)", true, 8, func(k *kase) pstore {
			dir := Scratch("c05u")
			st, err := file.New(dir)
			if err != nil {
				panic(err)
			}
			return pstore{st: st, desc: k.d.oci(nil), cleanup: func() { st.Close(); os.RemoveAll(dir) }}
		}},
		{"file.Store(unnamed, OCI fallback)", false, 32, func(k *kase) pstore {
			dir := Scratch("c05g")
			fb, err := oci.NewStorage(filepath.Join(dir, "fallback"))
			if err != nil {
				panic(err)
			}
			st, err := file.NewWithFallbackStorage(filepath.Join(dir, "work"), fb)
			if err != nil {
				panic(err)
			}
			return pstore{st: st, desc: k.d.oci(nil), root: filepath.Join(dir, "fallback"), cleanup: func() { st.Close(); os.RemoveAll(dir) }}
		}},
	}
}

// regularFiles lists the regular files below dir (relative path -> bytes) with the harness's own os calls.
func regularFiles(dir string) map[string][]byte {
	out := map[string][]byte{}
	filepath.Walk(dir, func(p string, fi os.FileInfo, err error) error {
		if err != nil || fi == nil || !fi.Mode().IsRegular() {
			return nil
		}
		rel, _ := filepath.Rel(dir, p)
		b, _ := os.ReadFile(p)
		out[filepath.ToSlash(rel)] = b
		return nil
	})
	return out
}

func names(m map[string][]byte) string {
	var ks []string
	for k, v := range m {
		ks = append(ks, fmt.Sprintf("%s(%d bytes)", k, len(v)))
	}
	sort.Strings(ks)
	return strings.Join(ks, ", ")
}

// visibility probes the store the way a client would.
type visibility struct {
	exists   bool
	existErr error
	fetchErr error
	bytes    []byte
	readErr  error
}

func probe(st content.ReadOnlyStorage, desc ocispec.Descriptor) visibility {
	var v visibility
	v.exists, v.existErr = st.Exists(ctx, desc)
	rc, err := st.Fetch(ctx, desc)
	v.fetchErr = err
	if err == nil {
		v.bytes, v.readErr = io.ReadAll(rc)
		rc.Close()
		if v.bytes == nil {
			v.bytes = []byte{}
		}
	}
	return v
}

func (v visibility) visible() bool { return v.exists || v.fetchErr == nil }

func (v visibility) String() string {
	s := fmt.Sprintf("Exists=%v,%v Fetch err=%v", v.exists, v.existErr, v.fetchErr)
	if v.fetchErr == nil {
		s += fmt.Sprintf(" bytes=%q read err=%v", clip(v.bytes), v.readErr)
	}
	return s
}

// runPush is the oracle of the first sentence of the statement, on a fresh store.
func runPush(c *driver.Ctx, p ptarget, k *kase) *fail {
	t := p.name
	ps := p.mk(k)
	defer ps.cleanup()
	var before map[string][]byte
	if ps.root != "" {
		before = regularFiles(filepath.Join(ps.root, "blobs"))
	}
	rd := newReader(k.st, k.ck)
	err := ps.st.Push(ctx, ps.desc, rd)
	c.Outcome(driver.Hash(t, errClass(err)))
	if rd.runaway {
		return failf(t+".Push: keeps polling a reader that makes no progress", "more than 4096 Read calls")
	}
	v := probe(ps.st, ps.desc)
	lastOutcome = fmt.Sprintf("Push err=%v; %s", err, v)
	if len(ps.desc.Annotations) > 0 {
		// the same content asked for without its name: visibility is a matter of the digest
		bare := ps.desc
		bare.Annotations = nil
		vb := probe(ps.st, bare)
		if err != nil && !k.full() && (vb.exists || vb.fetchErr == nil) {
			return failf(t+".Push: failed push left the content visible under its bare descriptor (no annotations)", "Push err=%v; named: %s; bare: %s", err, v, vb)
		}
		if vb.fetchErr == nil && vb.readErr == nil && k.d.size >= 0 && int64(len(k.st.data)) >= k.d.size && !bytes.Equal(vb.bytes, k.want()) {
			return failf(t+": Fetch by the bare descriptor hands back bytes that are not the named content", "Push err=%v; bare: %s want %q", err, vb, clip(k.want()))
		}
	}
	added := map[string][]byte{}
	if ps.root != "" {
		for n, b := range regularFiles(filepath.Join(ps.root, "blobs")) {
			if _, ok := before[n]; !ok {
				added[n] = b
			}
		}
		c.Count("info:ingest_leftover_files", int64(len(regularFiles(filepath.Join(ps.root, "ingest")))))
	}
	if err == nil {
		c.Count("accepted:"+t, 1)
		if !k.full() {
			return failf(t+".Push: succeeded although "+k.class(), "Push returned nil; %s; new files under blobs/: [%s]", v, names(added))
		}
		if k.beyond() {
			c.Count("note:push-accepted-with-bytes-beyond-Size:"+t, 1)
		}
		if v.fetchErr == nil && (v.readErr != nil || !bytes.Equal(v.bytes, k.want())) {
			return failf(t+": Fetch after a successful Push hands back bytes that are not the named content", "%s want %q", v, clip(k.want()))
		}
		if !v.exists || v.fetchErr != nil {
			c.Count("note:accepted-but-not-visible:"+t, 1)
		}
		if ps.path != "" {
			// the file under the content's name is the content, nothing more (read with the harness's own os call)
			if b, rerr := os.ReadFile(ps.path); rerr != nil || !bytes.Equal(b, k.want()) {
				return failf(t+": the file written for a successfully pushed named content does not hold exactly the named bytes", "file %q err %v want %q", clip(b), rerr, clip(k.want()))
			}
		}
		if ps.root != "" {
			if bad := misnamedBlob(added); bad != "" {
				return failf(t+".Push: after a successful push blobs/ holds a file whose bytes do not hash to its name", "offending: %s; new files: [%s]", bad, names(added))
			}
		}
		// FetchAll from the store must agree with the raw bytes
		if out, ferr := content.FetchAll(ctx, ps.st, ps.desc); ferr == nil && !bytes.Equal(out, k.want()) {
			return failf(t+": FetchAll after a successful Push hands back bytes that are not the named content", "got %q want %q", clip(out), clip(k.want()))
		}
		return nil
	}
	// Push failed
	c.Count("refused:"+t, 1)
	if k.trivial() {
		c.Count("note:exact-content-from-clean-reader-refused:"+t, 1)
	}
	if !k.full() {
		if v.exists {
			return failf(t+".Push: failed push left Exists true", "Push err=%v; %s", err, v)
		}
		if v.fetchErr == nil {
			return failf(t+".Push: failed push left Fetch succeeding", "Push err=%v; %s", err, v)
		}
		if len(added) > 0 {
			return failf(t+".Push: failed push added a file under blobs/", "Push err=%v; new files: [%s]", err, names(added))
		}
		return nil
	}
	// refused although the first Size bytes match (bytes beyond Size, reader error after
	// Size bytes, size limit): the statement does not say whether the content may be
	// visible, only that visible content must be the named bytes.
	c.Count("note:push-refused-although-first-Size-bytes-match:"+t, 1)
	if v.visible() {
		c.Count("note:refused-but-visible:"+t, 1)
		if v.fetchErr == nil && !bytes.Equal(v.bytes, k.want()) {
			return failf(t+".Push: refused push left bytes visible that are not the named content", "Push err=%v; %s", err, v)
		}
	}
	if bad := misnamedBlob(added); bad != "" {
		return failf(t+".Push: refused push added a file under blobs/ whose bytes do not hash to its name", "Push err=%v; offending: %s; new files: [%s]", err, bad, names(added))
	}
	return nil
}

// misnamedBlob returns the first file (sorted) that is not <alg>/<hex of its own bytes>.
func misnamedBlob(files map[string][]byte) string {
	var ns []string
	for n := range files {
		ns = append(ns, n)
	}
	sort.Strings(ns)
	for _, n := range ns {
		i := strings.IndexByte(n, '/')
		if i < 0 || (n[:i] != "sha256" && n[:i] != "sha512") || hexOf(n[:i], files[n]) != n[i+1:] {
			return n
		}
	}
	return ""
}
