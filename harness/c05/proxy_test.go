package c05

import (
	"bytes"
	"context"
	"fmt"
	"io"
	"strings"

	ocispec "github.com/opencontainers/image-spec/specs-go/v1"
	"oras.land/oras-go/v2/content"
	"oras.land/oras-go/v2/internal/cas"
	"verif.local/engine/driver"
	"verif.local/engine/vs"
)

// The caching wrapper: a base that serves the scripted reader, a cas.Memory
// cache, first fetch (cache fill) and second fetch. The proxy fills the cache
// from a goroutine through an io.Pipe, so every case is one execution under the
// cooperative scheduler (default schedule): a fetch that never returns shows up
// as a deterministic deadlock verdict of the bubble, not as a timeout.

type scriptBase struct {
	k       *kase
	fetches int
	readers []*sreader
}

func (b *scriptBase) Fetch(context.Context, ocispec.Descriptor) (io.ReadCloser, error) {
	b.fetches++
	rd := newReader(b.k.st, b.k.ck)
	b.readers = append(b.readers, rd)
	return rd, nil
}

func (b *scriptBase) Exists(context.Context, ocispec.Descriptor) (bool, error) { return true, nil }

var proxyVariants = []string{"no limit", "limit=Size-1", "limit=Size", "limit=Size+1"}
var proxyConsumers = []string{"FetchAll", "read-to-EOF"}

func proxyJobs(sp space) []driver.Job {
	var out []driver.Job
	nsh := 16
	if sp.thorough {
		nsh = 64
	}
	for vi, variant := range proxyVariants {
		vi, variant := vi, variant
		for sh := 0; sh < nsh; sh++ {
			sh := sh
			t := "cas.Proxy(" + variant + ")"
			name := fmt.Sprintf("seq/%s/shard%d.%d", t, sh, nsh)
			out = append(out, driver.Job{Name: name, Run: func(c *driver.Ctx) {
				stop := false
				sp.each(false, func(idx int, k *kase) {
					if stop || idx%nsh != sh {
						return
					}
					if idx&255 == 0 && c.Expired() {
						c.Capped, stop = true, true
						return
					}
					for _, consumer := range proxyConsumers {
						c.Evals++
						c.Traces++
						c.Count("cases:"+t, 1)
						if !k.trivial() {
							c.Nontriv(driver.Hash(t, consumer, k.key()))
						}
						f := runProxy(c, t, vi, consumer, k)
						if f == nil {
							continue
						}
						// confirm: the verdict must be reproducible
						for i := 0; i < 3; i++ {
							if f2 := runProxy(c, t, vi, consumer, k); f2 == nil || f2.sig != f.sig {
								c.Infra = append(c.Infra, "HARNESS-NONDETERMINISM "+t+": "+f.sig+" not reproduced for "+k.String())
								f = nil
								break
							}
						}
						if f != nil {
							c.AddViolation(driver.Violation{Tier: c.Tier, Job: c.Job, Scenario: t, Sig: f.sig,
								Detail: "case: " + k.String() + "\nconsumer: " + consumer + "\n" + f.detail})
						}
					}
				})
			}})
		}
	}
	return out
}

func runProxy(c *driver.Ctx, t string, variant int, consumer string, k *kase) *fail {
	cache := cas.NewMemory()
	base := &scriptBase{k: k}
	desc := k.d.oci(nil)
	var p *cas.Proxy
	switch variant {
	case 0:
		p = cas.NewProxy(base, cache)
	default:
		p = cas.NewProxyWithLimit(base, cache, k.d.size+int64(variant-2))
	}
	type fetchRes struct {
		done bool
		out  []byte
		err  error
	}
	var r1, r2 fetchRes
	var cached visibility
	var probed bool
	var f *fail
	fetch := func(r *fetchRes) {
		if consumer == "FetchAll" {
			r.out, r.err = content.FetchAll(ctx, p, desc)
		} else {
			rc, err := p.Fetch(ctx, desc)
			if err != nil {
				r.err = err
			} else {
				r.out, r.err = io.ReadAll(rc)
				if cerr := rc.Close(); r.err == nil {
					r.err = cerr
				}
			}
		}
		r.done = true
	}
	body := func() {
		fetch(&r1)
		cached = probe(cache, desc)
		probed = true
		fetch(&r2)
	}
	res := vs.Run(c.T, vs.Config{}, body)
	c.Transitions += int64(res.Steps)
	if res.Diverged != "" || res.Livelock {
		return failf(t+": scheduler horizon exceeded", "%s", res.Diverged)
	}
	for _, pn := range res.Panics {
		line := pn
		if i := strings.IndexByte(line, '\n'); i > 0 {
			line = line[:i]
		}
		return failf(t+": panic: "+line, "%s", pn)
	}
	if res.Deadlock != "" {
		phase := "first fetch (cache fill)"
		if r1.done {
			phase = "second fetch"
		}
		why := k.class()
		if why == "" && k.beyond() {
			why = "the source holds bytes beyond Size"
		} else if why == "" {
			why = "matching content"
		}
		if consumer != "FetchAll" {
			// a raw consumer is outside the statement: counted only
			c.Count("note:raw-consumer-never-returns:"+t, 1)
		} else {
			return failf(t+": FetchAll never returns ("+why+")", "%s deadlocked: the consumer blocks writing into the cache-fill pipe that nobody reads any more\n%s", phase, res.Deadlock)
		}
	}
	if !probed {
		// deadlocked raw consumer: the cache can still be inspected
		cached = probe(cache, desc)
	}
	c.Outcome(driver.Hash(t, consumer, errClass(r1.err), errClass(r2.err), fmt.Sprint(cached.visible())))
	if cached.visible() {
		c.Count("cached:"+t, 1)
		switch {
		case !k.full():
			f = failf(t+": cache holds content although "+k.class(), "cache: %s", cached)
		case cached.fetchErr == nil && !bytes.Equal(cached.bytes, k.want()):
			f = failf(t+": cache holds bytes that are not the named content", "cache: %s want %q", cached, clip(k.want()))
		}
		if f != nil {
			return f
		}
	}
	if consumer == "FetchAll" {
		for i, r := range []fetchRes{r1, r2} {
			if !r.done {
				continue
			}
			rd := &sreader{}
			if i < len(base.readers) {
				rd = base.readers[i]
			}
			if f := judgeData(c, t+" FetchAll", k, rd, r.out, r.err); f != nil {
				f.detail = fmt.Sprintf("fetch #%d through the proxy: %s", i+1, f.detail)
				return f
			}
		}
	}
	if r1.done && r2.done && base.fetches == 1 {
		c.Count("second_fetch_served_from_cache", 1)
	}
	return nil
}
