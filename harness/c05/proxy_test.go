package c05

import (
	"bytes"
	"context"
	"fmt"
	"io"
	"runtime/debug"
	"strings"
	"testing"
	"testing/synctest"
	"time"

	ocispec "github.com/opencontainers/image-spec/specs-go/v1"
	"oras.land/oras-go/v2/content"
	"oras.land/oras-go/v2/internal/cas"
	"verif.local/engine/driver"
)

// The caching wrapper: a base that serves the scripted reader, a cas.Memory
// cache, first fetch (cache fill) and second fetch. The proxy fills the cache
// from a goroutine through an io.Pipe, so every case runs inside its own
// testing/synctest bubble: virtual time only advances when every goroutine of
// the bubble is durably blocked, so the one-hour virtual timer below fires if
// and only if the fetch can never return - a deterministic deadlock verdict,
// not a wall-clock timeout.

// bubble runs body in a fresh bubble; hung = body is blocked for ever.
func bubble(t *testing.T, body func()) (hung bool, panicked string) {
	defer func() {
		// a bubble that is left with blocked goroutines panics on exit; that is the hung case
		if r := recover(); r != nil && !hung {
			panicked = fmt.Sprint(r)
		}
	}()
	synctest.Test(t, func(*testing.T) {
		done := make(chan string, 1)
		go func() {
			defer func() {
				if r := recover(); r != nil {
					done <- fmt.Sprintf("%v\n%s", r, debug.Stack())
					return
				}
				done <- ""
			}()
			body()
		}()
		select {
		case p := <-done:
			panicked = p
		case <-time.After(time.Hour):
			hung = true
		}
	})
	return
}

type scriptBase struct {
	k       *kase
	fetches int
	readers []*sreader
}

func (b *scriptBase) Fetch(context.Context, ocispec.Descriptor) (io.ReadCloser, error) {
	b.fetches++
	rd := newReader(b.k.st, b.k.ck)
	b.readers = append(b.readers, rd)
	return rd, nil
}

func (b *scriptBase) Exists(context.Context, ocispec.Descriptor) (bool, error) { return true, nil }

var proxyVariants = []string{"no limit", "limit=Size-1", "limit=Size", "limit=Size+1"}
var proxyConsumers = []string{"FetchAll", "read-to-EOF"}

func proxyJobs(sp space) []driver.Job {
	var out []driver.Job
	nsh := 16
	if sp.thorough {
		nsh = 64
	}
	for vi, variant := range proxyVariants {
		vi, variant := vi, variant
		for sh := 0; sh < nsh; sh++ {
			sh := sh
			t := "cas.Proxy(" + variant + ")"
			name := fmt.Sprintf("seq/%s/shard%d.%d", t, sh, nsh)
			out = append(out, driver.Job{Name: name, Run: func(c *driver.Ctx) {
				stop := false
				sp.each(false, func(idx int, k *kase) {
					if stop || idx%nsh != sh {
						return
					}
					if idx&255 == 0 && c.Expired() {
						c.Capped, stop = true, true
						return
					}
					for _, consumer := range proxyConsumers {
						c.Evals++
						c.Traces++
						c.Count("cases:"+t, 1)
						if !k.trivial() {
							c.Nontriv(driver.Hash(t, consumer, k.key()))
						}
						f := runProxy(c, t, vi, consumer, k)
						if f == nil {
							continue
						}
						// confirm: the verdict must be reproducible
						for i := 0; i < 3; i++ {
							if f2 := runProxy(c, t, vi, consumer, k); f2 == nil || f2.sig != f.sig {
								c.Infra = append(c.Infra, "HARNESS-NONDETERMINISM "+t+": "+f.sig+" not reproduced for "+k.String())
								f = nil
								break
							}
						}
						if f != nil {
							c.AddViolation(driver.Violation{Tier: c.Tier, Job: c.Job, Scenario: t, Sig: f.sig,
								Detail: "case: " + k.String() + "\nconsumer: " + consumer + "\n" + f.detail})
						}
					}
				})
			}})
		}
	}
	return out
}

func runProxy(c *driver.Ctx, t string, variant int, consumer string, k *kase) *fail {
	cache := cas.NewMemory()
	base := &scriptBase{k: k}
	desc := k.d.oci(nil)
	var p *cas.Proxy
	switch variant {
	case 0:
		p = cas.NewProxy(base, cache)
	default:
		p = cas.NewProxyWithLimit(base, cache, k.d.size+int64(variant-2))
	}
	type fetchRes struct {
		done bool
		out  []byte
		err  error
	}
	var r1, r2 fetchRes
	var cached visibility
	var probed bool
	fetches1 := 0
	var f *fail
	fetch := func(r *fetchRes) {
		if consumer == "FetchAll" {
			r.out, r.err = content.FetchAll(ctx, p, desc)
		} else {
			rc, err := p.Fetch(ctx, desc)
			if err != nil {
				r.err = err
			} else {
				r.out, r.err = io.ReadAll(rc)
				if cerr := rc.Close(); r.err == nil {
					r.err = cerr
				}
			}
		}
		r.done = true
	}
	body := func() {
		fetch(&r1)
		cached = probe(cache, desc)
		probed = true
		fetches1 = base.fetches
		fetch(&r2)
	}
	hung, pn := bubble(c.T, body)
	if pn != "" {
		line := pn
		if i := strings.IndexByte(line, '\n'); i > 0 {
			line = line[:i]
		}
		return failf(t+": panic: "+line, "%s", pn)
	}
	if hung {
		phase := "first fetch (cache fill)"
		if r1.done {
			phase = "second fetch"
		}
		why := k.class()
		if why == "" && k.beyond() {
			why = "the source holds bytes beyond Size"
		} else if why == "" {
			why = "matching content"
		}
		if consumer != "FetchAll" {
			// a raw consumer is outside the statement: counted only
			c.Count("note:raw-consumer-never-returns:"+t, 1)
		} else {
			st := t
			if variant >= 2 {
				st = "cas.Proxy(limit>=Size)" // one defect, whatever the slack of the limit
			}
			return failf(st+": FetchAll never returns ("+why+")", "%s: every goroutine is blocked for ever (the consumer writes into the cache-fill pipe that nobody reads any more)", phase)
		}
	}
	if !probed {
		// deadlocked raw consumer: the cache can still be inspected
		cached = probe(cache, desc)
	}
	c.Outcome(driver.Hash(t, consumer, errClass(r1.err), errClass(r2.err), fmt.Sprint(cached.visible())))
	if cached.visible() {
		c.Count("cached:"+t, 1)
		switch {
		case !k.full():
			f = failf(t+": cache holds content although "+k.class(), "cache: %s", cached)
		case cached.fetchErr == nil && !bytes.Equal(cached.bytes, k.want()):
			f = failf(t+": cache holds bytes that are not the named content", "cache: %s want %q", cached, clip(k.want()))
		}
		if f != nil {
			return f
		}
	}
	if consumer == "FetchAll" {
		if r1.done {
			if f := judgeData(c, t+" FetchAll", k, base.readers[0], r1.out, r1.err); f != nil {
				f.detail = "fetch #1 through the proxy (cache fill): " + f.detail
				return f
			}
		}
		switch {
		case !r2.done:
		case base.fetches > fetches1:
			// served by the base again: same oracle
			if f := judgeData(c, t+" FetchAll", k, base.readers[len(base.readers)-1], r2.out, r2.err); f != nil {
				f.detail = "fetch #2 through the proxy (from the base): " + f.detail
				return f
			}
		case r2.err == nil:
			// served by the cache: the source of this fetch is the cached content itself
			if !k.full() || !bytes.Equal(r2.out, k.want()) {
				return failf(t+" FetchAll: second fetch (from the cache) handed back data that is not the named content", "returned %q; %s", clip(r2.out), k.class())
			}
		}
	}
	if r1.done && r2.done && base.fetches == fetches1 {
		c.Count("second_fetch_served_from_cache", 1)
	}
	return nil
}
