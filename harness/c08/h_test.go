package c08

import (
	"bytes"
	"context"
	"fmt"
	"os"
	"strings"
	"testing"

	"github.com/opencontainers/go-digest"
	ocispec "github.com/opencontainers/image-spec/specs-go/v1"
	"oras.land/oras-go/v2/content/oci"
	. "oras.land/oras-go/v2/internal/zzverif/common"
	"verif.local/engine/driver"
	"verif.local/engine/explore"
	"verif.local/engine/vos"
	"verif.local/engine/vs"
)

func TestVerif(t *testing.T) {
	driver.Main(t, driver.Harness{
		ID:    "C08",
		Level: "model_checking",
		Rule: "every history up to depth 4 (thorough 5) for the default configuration and 3 (4) for the other three, over {Push, Tag (blobs too, annotated descriptors, several tags per manifest, re-tag), Untag, Delete, GC, SaveIndex} on a universe of 2 blobs + 2 manifests + a sha512-addressed blob and 3 reference names, " +
			"for AutoSaveIndex on | off (+SaveIndex before looking) x AutoGC on | off, map-order deviations O<=1 at the index save/GC ranges. After every step: raw-directory validator written from image-layout.md, " +
			"and the directory is reopened three ways (read-write, fs.FS, tar) and its full observation (tags, tag->descriptor up to the ref-name annotation, Resolve-by-digest, Exists, Fetch, Predecessors) is compared with the live store's. " +
			"non-trivial = distinct history containing a Delete, GC, Untag or re-tag",
		Assumptions: []string{
			"quiescent points are the returns of API calls; with AutoSaveIndex off the comparison is made after an explicit SaveIndex, as the property states",
		},
		Jobs:           jobs,
		BudgetQuick:    200,
		BudgetThorough: 1500,
	})
}

func universe() *DAG {
	d := &DAG{Name: "c08"}
	b1 := d.Blob("B1", MTConfig, "{}")
	b2 := d.Blob("B2", MTLayer, "layer-2")
	m1 := d.Manifest("M1", b1, []int{b2}, ManifestOpt{Subject: -1})
	d.Manifest("M2", b1, nil, ManifestOpt{Subject: m1, ArtifactType: "application/vnd.test.ref"})
	// a sha512-addressed blob, so that tar names longer than 100 bytes reach the tar reader
	data := []byte("sha512 addressed")
	n := &Node{Name: "S", Kind: KBlob, Bytes: data, Subject: -1,
		Desc: ocispec.Descriptor{MediaType: MTLayer, Digest: digest.SHA512.FromBytes(data), Size: int64(len(data))}}
	n.ID = len(d.Nodes)
	d.Nodes = append(d.Nodes, n)
	return d
}

var refs = []string{"a", "b", "c"}

func alphabet(d *DAG) []Op {
	var ops []Op
	for i := range d.Nodes {
		ops = append(ops, Op{Kind: "push", Node: i})
	}
	ops = append(ops,
		Op{Kind: "tag", Node: 2, Ref: "a"}, Op{Kind: "tag", Node: 3, Ref: "a"}, Op{Kind: "tag", Node: 2, Ref: "b"},
		Op{Kind: "tag", Node: 0, Ref: "c"}, Op{Kind: "tag", Node: 3, Ref: "b", Ann: true}, Op{Kind: "tag", Node: 4, Ref: "c"},
		Op{Kind: "tag", Node: 3, Ref: "b"}, Op{Kind: "tag", Node: 3, Ref: "c", Ann: true},
		Op{Kind: "tag", Node: 2, Ref: "b", Ann: true, Foreign: true}, // the descriptor was resolved under another name in another layout

		Op{Kind: "untag", Ref: "a"}, Op{Kind: "untag", Ref: "b"},
		Op{Kind: "delete", Node: 0}, Op{Kind: "delete", Node: 2}, Op{Kind: "delete", Node: 3}, Op{Kind: "delete", Node: 1},
		Op{Kind: "gc"},
		Op{Kind: "pushbad"}) // correct digest and size, a manifest media type, bytes that are not JSON: refused, and the layout stays usable
	return ops
}

func jobs(tier string) []driver.Job {
	var out []driver.Job
	th := tier == "thorough"
	d := universe()
	ops := alphabet(d)
	depth := 4
	if th {
		depth = 5
	}
	maxDepth := depth
	for _, autosave := range []bool{true, false} {
		for _, autogc := range []bool{true, false} {
			// the default configuration gets the full depth, the other three one step less
			depth := maxDepth
			if !(autosave && autogc) {
				depth = maxDepth - 1
			}
			nsh := 32
			if th {
				nsh = 64
			}
			for sh := 0; sh < nsh; sh++ {
				sh, autosave, autogc := sh, autosave, autogc
				name := fmt.Sprintf("autosave=%v/autogc=%v/depth=%d/shard%d.%d", autosave, autogc, depth, sh, nsh)
				out = append(out, driver.Job{Name: name, Run: func(c *driver.Ctx) {
					c.Explore(driver.Scenario{
						Name: name, Sequential: true, Shard: sh, NShard: nsh,
						Make: func() (func(), func(*vs.Result) *driver.Fail) { return run(c, d, ops, autosave, autogc, depth) },
					})
					// shorter histories with map-order deviations
					if depth > 3 {
						c.Explore(driver.Scenario{
							Name: name + "/O1", Sequential: true, Shard: sh, NShard: nsh, Bounds: explore.Bounds{Order: 1},
							MapSite: func(site string) bool {
								return strings.HasPrefix(site, "oci.go") || strings.HasPrefix(site, "readonlyoci.go")
							},
							Make: func() (func(), func(*vs.Result) *driver.Fail) { return run(c, d, ops, autosave, autogc, 3) },
						})
					}
				}})
			}
		}
	}
	return out
}

func run(c *driver.Ctx, d *DAG, ops []Op, autosave, autogc bool, depth int) (func(), func(*vs.Result) *driver.Fail) {
	var fail *driver.Fail
	var hist []string
	nontrivial := false
	body := func() {
		dir := Scratch("c08")
		defer os.RemoveAll(dir)
		plan := &vos.Plan{Budget: 20000}
		vos.SetPlan(plan)
		defer vos.SetPlan(nil)
		st, err := oci.New(dir)
		if err != nil {
			panic(err)
		}
		st.AutoSaveIndex = autosave
		st.AutoGC = autogc
		tagged := map[string]int{}
		for step := 0; step < depth; step++ {
			op := ops[vs.Choose(len(ops), vs.KInput, "op")]
			hist = append(hist, op.Str(d))
			switch op.Kind {
			case "delete", "gc", "untag":
				nontrivial = true
			case "tag":
				if id, ok := tagged[op.Ref]; ok && id != op.Node {
					nontrivial = true
				}
				tagged[op.Ref] = op.Node
			}
			plan.ResetBudget()
			operr := ApplyOCI(st, d, op)
			if !autosave {
				plan.ResetBudget()
				if err := st.SaveIndex(); err != nil {
					fail = &driver.Fail{Sig: "SaveIndex failed", Detail: strings.Join(hist, " ; ") + ": " + err.Error()}
					return
				}
			}
			h := strings.Join(hist, " ; ") + fmt.Sprintf(" (last returned %v)", operr)
			if bad := ValidateLayout(dir); bad != "" {
				fail = &driver.Fail{Sig: "layout invalid on disk: " + sigOf(bad), Detail: h + "\n" + bad}
				return
			}
			live := Observe(st, d, refs, true)
			if strings.Contains(live, "WRONG-BYTES") {
				fail = &driver.Fail{Sig: "live store fetch returned wrong bytes", Detail: h + "\n" + live}
				return
			}
			for _, how := range []string{"rw", "fs", "tar"} {
				plan.ResetBudget()
				re, clean, err := Reopen(dir, how)
				if err != nil {
					fail = &driver.Fail{Sig: "reopen (" + how + ") failed", Detail: h + "\n" + err.Error()}
					return
				}
				got := Observe(re, d, refs, true)
				clean()
				if got != live {
					fail = &driver.Fail{Sig: "reopened store (" + how + ") differs from the live store: " + diffKind(live, got), Detail: h + "\n--- live\n" + live + "--- reopened " + how + "\n" + got}
					return
				}
			}
		}
	}
	check := func(res *vs.Result) *driver.Fail {
		vos.SetPlan(nil)
		for _, p := range res.Panics {
			if strings.Contains(p, "operation budget exceeded") {
				return &driver.Fail{Sig: "operation does not terminate (file-system operation budget exceeded)", Detail: strings.Join(hist, " ; ")}
			}
		}
		if f := driver.StdFail(res); f != nil {
			f.Detail = strings.Join(hist, " ; ") + "\n" + f.Detail
			return f
		}
		if nontrivial {
			c.Nontriv(driver.Hash(fmt.Sprint(autosave, autogc), strings.Join(hist, ";")))
		}
		return fail
	}
	return body, check
}

func sigOf(s string) string {
	for _, k := range []string{"oci-layout", "index.json does not parse", "index.json unreadable", "does not hash", "missing blob", "records size"} {
		if strings.Contains(s, k) {
			return k
		}
	}
	return "other"
}

func diffKind(live, got string) string {
	ll, gl := strings.Split(live, "\n"), strings.Split(got, "\n")
	for i := range ll {
		if i >= len(gl) || ll[i] == gl[i] {
			continue
		}
		switch {
		case strings.HasPrefix(ll[i], "ref "):
			return "tag mapping"
		case strings.HasPrefix(ll[i], "tags="):
			return "tag list"
		case strings.HasPrefix(ll[i], "digest "):
			return "resolve-by-digest"
		case strings.Contains(ll[i], "preds=") && ll[i][:strings.Index(ll[i], "preds=")] == gl[i][:strings.Index(gl[i], "preds=")]:
			return "predecessors"
		default:
			return "exists/fetch"
		}
	}
	return "length"
}

var _ = bytes.NewReader
var _ = context.Background
