package c09

import (
	"context"
	"fmt"
	"os"
	"path/filepath"
	"sort"
	"strings"
	"testing"

	"github.com/opencontainers/go-digest"
	"oras.land/oras-go/v2/content/oci"
	. "oras.land/oras-go/v2/internal/zzverif/common"
	"verif.local/engine/driver"
	"verif.local/engine/explore"
	"verif.local/engine/vos"
	"verif.local/engine/vs"
)

func TestVerif(t *testing.T) {
	driver.Main(t, driver.Harness{
		ID:    "C09",
		Level: "model_checking",
		Rule: "history = push every node of a DAG (curated referrer shapes, a lone image, blobs only + every U(4) shape with a subject) ; up to 2 (thorough 3) tagging steps from {tag x r1, tag y r1 (moves the tag), tag z r2, untag r1} over every choice of manifests x, y and of any node z (blobs included) ; " +
			"optional stray blob files ; then up to 2 operations from {Delete(every descriptor), GC}; AutoGC on and off; map-iteration order deviations O<=1 (thorough 2) at the Delete/Remove/Predecessors/gcIndex map ranges. " +
			"After every operation Exists/Resolve/Tags/Predecessors and the blobs/ listing are compared with a least-fixed-point model written from the property text; termination = file-system operation budget per call. " +
			"non-trivial = distinct history in which Delete or GC removed at least one node other than the named target",
		Assumptions: []string{
			"states in which the statement's own clauses conflict (a referrer that must be removed is still listed by a surviving index) are counted and not judged",
			"stray files are well-formed blobs unknown to the store, or a file whose name is not a digest (the latter is not judged)",
		},
		Jobs:           jobs,
		BudgetQuick:    200,
		BudgetThorough: 1500,
	})
}

func shapes(th bool) []*DAG {
	var out []*DAG
	for _, d := range Curated() {
		switch d.Name {
		case "two-mediatypes", "empty-blob", "platform", "fanout", "dup-layer", "docker", "foreign-mid", "referrer-types":
			continue // no referrers, or two nodes sharing one digest (one blob file in an OCI layout)
		}
		out = append(out, d)
	}
	// a referrer whose subject is only reachable through another referrer's graph
	d := &DAG{Name: "subject-via-referrer"}
	c := d.Blob("C", MTConfig, "{}")
	l := d.Blob("L", MTLayer, "l")
	m := d.Manifest("M", c, []int{l}, ManifestOpt{Subject: -1})
	b := d.Manifest("B", c, nil, ManifestOpt{Subject: -1, Annotations: map[string]string{"x": "b"}})
	d.Index("R", []int{b}, ManifestOpt{Subject: m})
	d.Manifest("X", c, []int{l}, ManifestOpt{Subject: b, ArtifactType: "application/vnd.test.x"})
	out = append(out, d)
	// one blob file known under two media types (a custom-typed {} config and the empty-JSON layer) in a
	// referrer: after GC or a reopen the graph knows both descriptors, the layout holds one file
	e := &DAG{Name: "same-bytes-two-types"}
	ec := e.Blob("C", MTConfig, `{"c":1}`)
	el := e.Blob("L", MTLayer, "l")
	em := e.Manifest("M", ec, []int{el}, ManifestOpt{Subject: -1})
	cx := e.Blob("Cx", "application/vnd.test.config+json", "{}")
	ex := e.Blob("Ex", "application/vnd.oci.empty.v1+json", "{}")
	e.Manifest("R", cx, []int{ex}, ManifestOpt{Subject: em, ArtifactType: "application/vnd.test.sig"})
	out = append(out, e.MergeSameDigest())
	// a single image and nothing else: deleting its manifest leaves an index that lists nothing
	f := &DAG{Name: "lone-image"}
	fc := f.Blob("C", MTConfig, "{}")
	fl := f.Blob("L", MTLayer, "l")
	f.Manifest("M", fc, []int{fl}, ManifestOpt{Subject: -1})
	out = append(out, f)
	// blobs only: the index never lists anything
	g := &DAG{Name: "blobs-only"}
	g.Blob("C", MTConfig, "{}")
	g.Blob("L", MTLayer, "l")
	out = append(out, g)
	return out
}

type step struct {
	kind string
	node int
	ref  string
}

func jobs(tier string) []driver.Job {
	var out []driver.Job
	th := tier == "thorough"
	for _, d := range shapes(th) {
		for _, autogc := range []bool{true, false} {
			for _, stray := range []bool{false, true} {
				if stray && !autogc {
					continue
				}
				d, autogc, stray := d, autogc, stray
				nsh := 4
				if th {
					nsh = 16
				}
				for sh := 0; sh < nsh; sh++ {
					sh := sh
					name := fmt.Sprintf("%s/autogc=%v/stray=%v/shard%d.%d", d.Name, autogc, stray, sh, nsh)
					out = append(out, driver.Job{Name: name, Run: func(c *driver.Ctx) { run(c, name, d, autogc, stray, th, sh, nsh) }})
				}
			}
		}
	}
	// U(4) shapes with a subject: lighter history
	nshard := 64
	for sh := 0; sh < nshard; sh++ {
		sh := sh
		name := fmt.Sprintf("U4/shard%d.%d", sh, nshard)
		out = append(out, driver.Job{Name: name, Run: func(c *driver.Ctx) {
			k := 0
			for _, d := range Universe(4) {
				hasSubj, dupDigest := false, false
				seen := map[digest.Digest]bool{}
				for _, n := range d.Nodes {
					if n.Subject >= 0 {
						hasSubj = true
					}
					if seen[n.Desc.Digest] {
						dupDigest = true
					}
					seen[n.Desc.Digest] = true
				}
				if !hasSubj || dupDigest {
					continue
				}
				k++
				if k%nshard != sh {
					continue
				}
				if c.Expired() {
					c.Capped = true
					return
				}
				runLight(c, d, th)
			}
		}})
	}
	return out
}

const budget = 20000

func mapSite(site string) bool {
	return strings.HasPrefix(site, "oci.go") || strings.HasPrefix(site, "memory.go")
}

func run(c *driver.Ctx, name string, d *DAG, autogc, stray, th bool, sh, nsh int) {
	// full history sweep in canonical map order, then a shorter sweep with map-order deviations
	type cfg struct{ tagSteps, opSteps, ord int }
	cfgs := []cfg{{2, 2, 0}, {1, 1, 1}}
	if th {
		cfgs = []cfg{{3, 2, 0}, {2, 2, 1}, {1, 1, 2}}
	}
	for _, cf := range cfgs {
		cf := cf
		c.Explore(driver.Scenario{
			Name: fmt.Sprintf("%s/tag%d.op%d.O%d", name, cf.tagSteps, cf.opSteps, cf.ord), Sequential: true, Shard: sh, NShard: nsh, Bounds: explore.Bounds{Order: cf.ord}, MapSite: mapSite,
			Make: func() (func(), func(*vs.Result) *driver.Fail) {
				return history(c, d, autogc, stray, cf.tagSteps, cf.opSteps)
			},
		})
	}
}

func runLight(c *driver.Ctx, d *DAG, th bool) {
	ord := 0
	if th {
		ord = 1
	}
	c.Explore(driver.Scenario{
		Name: "U4/" + d.Name, Sequential: true, Bounds: explore.Bounds{Order: ord}, MapSite: mapSite,
		Make: func() (func(), func(*vs.Result) *driver.Fail) { return history(c, d, true, false, 1, 1) },
	})
}

func history(c *driver.Ctx, d *DAG, autogc, stray bool, tagSteps, opSteps int) (func(), func(*vs.Result) *driver.Fail) {
	var fail *driver.Fail
	var hist []string
	nontrivial, ambiguous := false, false
	body := func() {
		dir := Scratch("c09")
		defer os.RemoveAll(dir)
		plan := &vos.Plan{Budget: budget}
		vos.SetPlan(plan)
		defer vos.SetPlan(nil)
		st, err := oci.New(dir)
		if err != nil {
			panic(err)
		}
		st.AutoGC = autogc
		m := NewModel(d)
		for i := range d.Nodes {
			op := Op{Kind: "push", Node: i}
			m.Apply(op)
			if err := ApplyOCI(st, d, op); err != nil {
				panic(err)
			}
		}
		var manifests []int
		for _, n := range d.Nodes {
			if n.Kind.IsManifest() {
				manifests = append(manifests, n.ID)
			}
		}
		// tagging history
		for i := 0; i < tagSteps; i++ {
			k := vs.Choose(4, vs.KInput, "tagstep")
			var op Op
			switch k {
			case 0:
				continue // no step
			case 1:
				if len(manifests) == 0 {
					continue
				}
				op = Op{Kind: "tag", Node: manifests[vs.Choose(len(manifests), vs.KInput, "node")], Ref: "r1"}
			case 2:
				// any node: Tag accepts every stored descriptor, a layer or config can carry a tag of its own
				op = Op{Kind: "tag", Node: vs.Choose(len(d.Nodes), vs.KInput, "node"), Ref: "r2"}
			case 3:
				op = Op{Kind: "untag", Ref: "r1"}
			}
			hist = append(hist, op.Str(d))
			want := m.Apply(op)
			plan.ResetBudget()
			if got := ErrClass(ApplyOCI(st, d, op)); got != want {
				fail = &driver.Fail{Sig: op.Kind + " answered differently from the model", Detail: fmt.Sprintf("%v: got %s want %s", hist, got, want)}
				return
			}
		}
		extra := map[string]bool{}
		if stray {
			garbage := []byte("stray garbage blob")
			dg := digest.FromBytes(garbage)
			os.WriteFile(filepath.Join(dir, "blobs", "sha256", dg.Encoded()), garbage, 0o444)
			os.WriteFile(filepath.Join(dir, "blobs", "sha256", "README"), []byte("not a blob"), 0o644)
			extra["sha256/README"] = true
			extra["sha256/"+dg.Encoded()] = true
		}
		for i := 0; i < opSteps; i++ {
			k := vs.Choose(len(d.Nodes)+2, vs.KInput, "op")
			if k == 0 {
				continue
			}
			var got error
			want := "ok"
			before := len(m.Present)
			if k == len(d.Nodes)+1 {
				hist = append(hist, "gc")
				m.GC()
				delete(extra, "sha256/"+digest.FromBytes([]byte("stray garbage blob")).Encoded())
				plan.ResetBudget()
				got = st.GC(context.Background())
				if before-len(m.Present) > 0 {
					nontrivial = true
				}
			} else {
				target := k - 1
				hist = append(hist, "delete("+d.Nodes[target].Name+")")
				if autogc {
					var amb bool
					var removed map[int]bool
					removed, amb, want = m.DeleteAutoGC(target)
					if amb {
						ambiguous = true
						return
					}
					if len(removed) > 1 {
						nontrivial = true
					}
				} else {
					want = m.Apply(Op{Kind: "delete", Node: target})
				}
				plan.ResetBudget()
				got = st.Delete(context.Background(), d.Nodes[target].Desc)
			}
			// state comparison (a returned error is judged through the state it leaves)
			obs, exp := Observe(st, d, []string{"r1", "r2"}, false), m.Expect([]string{"r1", "r2"})
			var files []string
			for _, f := range BlobFiles(dir) {
				files = append(files, f)
			}
			var wantFiles []string
			for id := range m.Present {
				wantFiles = append(wantFiles, "sha256/"+d.Nodes[id].Desc.Digest.Encoded())
			}
			for f := range extra {
				wantFiles = append(wantFiles, f)
			}
			sort.Strings(wantFiles)
			if obs != exp || strings.Join(files, ",") != strings.Join(wantFiles, ",") {
				fail = &driver.Fail{Sig: classify(d, m, st, hist, obs, exp, files, wantFiles),
					Detail: fmt.Sprintf("history: push all ; %s\nreturned: %v (model: %s)\n--- store\n%s--- model\n%s--- blobs on disk %v\n--- expected     %v", strings.Join(hist, " ; "), got, want, obs, exp, short(files), short(wantFiles))}
				return
			}
			if gc := ErrClass(got); gc != want && !(want == "ok" && got != nil) {
				fail = &driver.Fail{Sig: "Delete/GC answered differently from the model", Detail: fmt.Sprintf("%v: got %s want %s", hist, gc, want)}
				return
			}
			if got != nil && want == "ok" {
				fail = &driver.Fail{Sig: "Delete/GC returned an error although the resulting state is correct", Detail: fmt.Sprintf("%v: %v", hist, got)}
				return
			}
		}
	}
	check := func(res *vs.Result) *driver.Fail {
		vos.SetPlan(nil)
		for _, p := range res.Panics {
			if strings.Contains(p, "operation budget exceeded") {
				return &driver.Fail{Sig: "GC/Delete does not terminate (file-system operation budget exceeded)", Detail: "history: push all ; " + strings.Join(hist, " ; ") + "\n" + first(p)}
			}
		}
		if f := driver.StdFail(res); f != nil {
			f.Detail = strings.Join(hist, " ; ") + "\n" + f.Detail
			return f
		}
		if ambiguous {
			c.Count("ambiguous_states_not_judged", 1)
		}
		if nontrivial {
			c.Nontriv(driver.Hash(d.Name, strings.Join(hist, ";")))
		}
		return fail
	}
	return body, check
}

func first(s string) string {
	if i := strings.IndexByte(s, '\n'); i > 0 {
		return s[:i]
	}
	return s
}

func short(fs []string) []string {
	var out []string
	for _, f := range fs {
		if len(f) > 15 {
			f = f[:15]
		}
		out = append(out, f)
	}
	return out
}

// classify names the failing clause, so that different defects get different signatures.
func classify(d *DAG, m *Model, st *oci.Store, hist []string, obs, exp string, files, want []string) string {
	last := hist[len(hist)-1]
	kind := "Delete"
	if last == "gc" {
		kind = "GC"
	}
	ol, el := strings.Split(obs, "\n"), strings.Split(exp, "\n")
	found := map[string]bool{}
	for i := range ol {
		if i >= len(el) || ol[i] == el[i] {
			continue
		}
		switch {
		case strings.HasPrefix(ol[i], "ref "):
			if strings.Contains(ol[i], "err") {
				found["removed a tag it must keep"] = true
			} else {
				found["left a tag it must remove"] = true
			}
		case strings.HasPrefix(ol[i], "tags="):
			found["changed the tag list wrongly"] = true
		case strings.Contains(ol[i], "exists=false") && strings.Contains(el[i], "exists=true"):
			nm := ol[i][:strings.Index(ol[i], ":")]
			if m.Tagged(d.ByName(nm)) {
				found["removed a tagged node"] = true
			} else {
				found["removed live content"] = true
			}
		case strings.Contains(ol[i], "exists=true") && strings.Contains(el[i], "exists=false"):
			found["kept garbage"] = true
		default:
			found["left wrong predecessor relations"] = true
		}
	}
	for _, k := range []string{"removed a tagged node", "removed a tag it must keep", "removed live content", "kept garbage", "left a tag it must remove", "changed the tag list wrongly", "left wrong predecessor relations"} {
		if found[k] {
			return kind + " " + k
		}
	}
	return kind + " left the wrong set of blob files"
}
