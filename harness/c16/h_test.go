package c16

import (
	"context"
	"encoding/base64"
	"encoding/json"
	"fmt"
	"io"
	"net/http"
	"net/url"
	"sort"
	"strings"
	gosync "sync"
	"testing"

	"oras.land/oras-go/v2/registry/remote/auth"
	"verif.local/engine/driver"
	"verif.local/engine/explore"
	"verif.local/engine/vs"
)

func TestVerif(t *testing.T) {
	driver.Main(t, driver.Harness{
		ID:    "C16",
		Level: "model_checking",
		Rule: "auth.Client over an in-process transport hosting two registries (a.example, and b.example or - same host name, other port - a.example:8443 or - a sub-domain of registry A - sub.a.example) and their token realms (one on the registry's own host, one on a foreign host), each with distinct recognisable secrets. " +
			"sequential: every request sequence of length <= 3 (thorough 4) over {registry A|B} x {scope hint r1:pull | r2:pull,push | none} plus a request that registry A redirects to registry B and the base endpoint /v2/ of registry A (whose Bearer challenge names no scope) with and without a scope hint, and a request to registry B that the caller makes by cloning and re-targeting the request object it sent last; credentials come from the library's StaticCredential of each registry in turn; for every pair of per-registry auth modes {Basic, Bearer distribution, Bearer OAuth2 refresh token, Bearer OAuth2 password+ForceAttemptOAuth2, access token; registry B also: a Bearer challenge that names no realm (outcome not judged, only what travelled), and an anonymous registry (no credential configured for it) whose challenge names registry A as its service}, " +
			"every cache flavour {none, shared, single-context}, a scheme change of registry A after request {never,1,2}, and 3 renderings of the challenge scope string (order / duplication / wildcard action). " +
			"concurrent: 2-3 goroutines through one cache (same host and scope, same host different scopes, different hosts, first caller cancelled during the token fetch, the second of three callers cancelled) under every schedule within D<=2. " +
			"Oracle at the innermost transport: every outgoing request is scanned (headers, query, body) for every secret of the other registry; passwords/refresh tokens only to the registry that challenged Basic or to the realm that registry advertised; " +
			"with valid credentials the answer is non-401 after <= 3 sends to the registry and <= 1 token fetch per request; through a cache never two token requests for one registry and scope set in flight at once; a bearer token is attached only at the host that issued it, and (no cache or shared cache) only when the canonical scope set it was issued for is the set the request declared as hints or that set joined with the scopes the registry asked for in the same exchange. " +
			"Separately CleanScopes over every scope list of <= 3 items from a 10-item alphabet (three of them with a colon inside the resource name): idempotent, order-insensitive, duplicate-free, wildcard-absorbing. non-trivial = distinct sequence containing both hosts or a cache hit",
		Assumptions: []string{
			"the Authorization copy made by the blob upload path of Repository is Repository code, not the auth client, and is outside this property",
			"a cross-registry redirect is only generated towards b.example: towards the same host name on another port net/http itself copies the Authorization header (its same-domain redirect policy), which is not the auth client's doing",
			"for NewSingleContextCache per-host token reuse across scopes is that flavour's documented contract: only host and scheme are judged there",
		},
		Jobs:           jobs,
		BudgetQuick:    240,
		BudgetThorough: 1500,
	})
}

// ---- the fake world

type regSpec struct {
	host, realm    string // realm URL
	user, pass     string
	refresh, token string // refresh token, static access token
	mode           string // basic | dist | oauth-refresh | oauth-pass | access
	askedBasic     bool   // this registry has sent a Basic challenge at some point
}

type issued struct {
	host   string
	scopes []string
}

type world struct {
	mu        gosync.Mutex
	regs      map[string]*regSpec
	realmOf   map[string]string // realm host+path -> registry host
	tokens    map[string]issued
	nTok      int
	log       []string
	fails     []string
	sends     map[string]int // per request id: sends to the registry
	fetches   int
	scopeForm int
	cancelOn  func()            // called by the realm on its first hit (concurrent hand-over scenario)
	realmIn   map[string]int    // token requests being served right now, per registry and scope set
	cacheKind string            // none | shared | single: which token cache the client under test uses
	asked     map[string]string // per request id: canonical scope set of the last challenge sent for it
	realmHits int
	cacheHits int
}

func newWorld(modeA, modeB string, scopeForm int) *world {
	w := &world{regs: map[string]*regSpec{}, realmOf: map[string]string{}, tokens: map[string]issued{}, sends: map[string]int{}, scopeForm: scopeForm, asked: map[string]string{}, realmIn: map[string]int{}}
	w.regs["a.example"] = &regSpec{host: "a.example", realm: "https://a.example/token", user: "userA", pass: "PASSWORD-A", refresh: "REFRESH-A", token: "ACCESS-A", mode: modeA}
	w.regs[hostB] = &regSpec{host: hostB, realm: "https://auth.example/b/token", user: "userB", pass: "PASSWORD-B", refresh: "REFRESH-B", token: "ACCESS-B", mode: modeB}
	for h, r := range w.regs {
		u, _ := url.Parse(r.realm)
		w.realmOf[u.Host+u.Path] = h
	}
	return w
}

// credential is the client's credential function: the library's StaticCredential of each registry in
// turn (registry A first), each configured for that registry's host and asked about hostport.
func (w *world) credential(ctx context.Context, hostport string) (auth.Credential, error) {
	for _, h := range []string{"a.example", hostB} {
		if w.regs[h] == nil {
			continue
		}
		own, _ := w.credentialOf(ctx, h)
		if c, err := auth.StaticCredential(h, own)(ctx, hostport); err != nil || c != auth.EmptyCredential {
			return c, err
		}
	}
	return auth.EmptyCredential, nil
}

func (w *world) credentialOf(_ context.Context, hostport string) (auth.Credential, error) {
	r := w.regs[hostport]
	if r == nil {
		return auth.EmptyCredential, nil
	}
	switch r.mode {
	case "anon":
		return auth.EmptyCredential, nil
	case "basic", "dist", "oauth-pass", "norealm":
		return auth.Credential{Username: r.user, Password: r.pass}, nil
	case "oauth-refresh":
		return auth.Credential{RefreshToken: r.refresh}, nil
	default:
		return auth.Credential{AccessToken: r.token}, nil
	}
}

// secretsOf lists every secret string of registry host (including tokens issued for it).
func (w *world) secretsOf(host string) []string {
	r := w.regs[host]
	s := []string{r.pass, r.refresh, r.token, base64.StdEncoding.EncodeToString([]byte(r.user + ":" + r.pass))}
	for t, is := range w.tokens {
		if is.host == host {
			s = append(s, t)
		}
	}
	return s
}

func required(path string) []string {
	// /v2/<repo>/manifests/x  => repository:<repo>:pull ; r2 needs push too
	parts := strings.Split(strings.TrimPrefix(path, "/v2/"), "/")
	if len(parts) < 2 {
		return nil
	}
	if parts[0] == "r2" {
		return []string{"repository:r2:pull,push"}
	}
	return []string{"repository:" + parts[0] + ":pull"}
}

func covers(granted []string, need string) bool {
	np := strings.SplitN(need, ":", 3)
	for _, g := range granted {
		gp := strings.SplitN(g, ":", 3)
		if len(gp) != 3 || gp[0] != np[0] || gp[1] != np[1] {
			continue
		}
		ga := map[string]bool{}
		for _, a := range strings.Split(gp[2], ",") {
			ga[a] = true
		}
		ok := true
		for _, a := range strings.Split(np[2], ",") {
			if !ga[a] && !ga["*"] {
				ok = false
			}
		}
		if ok {
			return true
		}
	}
	return false
}

// canonSet is the harness's own canonical form of a scope set: per resource the sorted,
// duplicate-free action list, "*" absorbing the others; resources sorted.
func canonSet(in []string) string {
	m := map[string]map[string]bool{}
	for _, s := range in {
		// <type>:<name>:<actions> - the name may contain colons itself (host:port/path), so the type ends
		// at the first colon and the actions start after the last one
		i, j := strings.Index(s, ":"), strings.LastIndex(s, ":")
		if i < 0 || j <= i {
			m[s] = map[string]bool{}
			continue
		}
		p := []string{s[:i], s[i+1 : j], s[j+1:]}
		k := p[0] + ":" + p[1]
		if m[k] == nil {
			m[k] = map[string]bool{}
		}
		for _, a := range strings.Split(p[2], ",") {
			m[k][a] = true
		}
	}
	var out []string
	for k, as := range m {
		if as["*"] {
			out = append(out, k+":*")
			continue
		}
		var al []string
		for a := range as {
			al = append(al, a)
		}
		sort.Strings(al)
		out = append(out, k+":"+strings.Join(al, ","))
	}
	sort.Strings(out)
	return strings.Join(out, " ")
}

func (w *world) challengeScope(need []string) string {
	n := need[0]
	switch w.scopeForm {
	case 1: // duplication and an unrelated scope, shuffled
		return "repository:zz:pull " + n + " " + n
	case 2: // wildcard action next to the plain one
		p := strings.SplitN(n, ":", 3)
		return n + " " + p[0] + ":" + p[1] + ":*"
	}
	return n
}

func resp(req *http.Request, status int, h http.Header, body string) *http.Response {
	if h == nil {
		h = http.Header{}
	}
	return &http.Response{StatusCode: status, Status: fmt.Sprint(status), Header: h, Body: io.NopCloser(strings.NewReader(body)), ContentLength: int64(len(body)), Request: req, Proto: "HTTP/1.1", ProtoMajor: 1, ProtoMinor: 1}
}

// RoundTrip is the innermost transport: the leak oracle lives here.
func (w *world) RoundTrip(req *http.Request) (*http.Response, error) {
	if (req.URL.Scheme != "http" && req.URL.Scheme != "https") || req.URL.Host == "" {
		// net/http's own transport refuses such a request before anything leaves the process
		return nil, fmt.Errorf("unsupported protocol scheme %q", req.URL.Scheme)
	}
	vs.Pt("http " + req.URL.Host + req.URL.Path)
	var body string
	if req.Body != nil && req.Body != http.NoBody {
		b, _ := io.ReadAll(req.Body)
		body = string(b)
	}
	w.mu.Lock() // real lock: only matters in the free-running race pass
	defer w.mu.Unlock()
	host := req.URL.Host
	// which registry does this destination belong to?
	owner := ""
	isRealm := false
	if _, ok := w.regs[host]; ok && strings.HasPrefix(req.URL.Path, "/v2/") {
		owner = host
	} else if o, ok := w.realmOf[host+req.URL.Path]; ok {
		owner, isRealm = o, true
	}
	hay := body + " " + req.URL.RawQuery
	for k, vs := range req.Header {
		if k == "Authorization" || k == "Cookie" || strings.HasPrefix(k, "X-") {
			hay += " " + strings.Join(vs, " ")
		}
	}
	if dec, err := url.QueryUnescape(hay); err == nil {
		hay += " " + dec
	}
	for h := range w.regs {
		if h == owner {
			continue
		}
		for _, s := range w.secretsOf(h) {
			if s != "" && strings.Contains(hay, s) {
				w.fails = append(w.fails, fmt.Sprintf("leak: a secret of %s was sent to %s%s", h, host, req.URL.Path))
			}
		}
	}
	if owner == "" {
		w.fails = append(w.fails, "request to an unknown destination "+host+req.URL.Path)
		return resp(req, 404, nil, ""), nil
	}
	r := w.regs[owner]
	if isRealm {
		return w.realm(req, r, body), nil
	}
	// passwords and refresh tokens never travel to a registry that did not challenge with Basic
	if r.mode != "basic" && (strings.Contains(hay, r.pass) || strings.Contains(hay, r.refresh) ||
		// (a request that this registry redirects elsewhere may come back with the Basic credential the
		// redirect target asked for: that challenge reached the client as this registry's answer)
		!r.askedBasic && !strings.HasPrefix(req.URL.Path, "/v2/rd/") && strings.Contains(hay, base64.StdEncoding.EncodeToString([]byte(r.user+":"+r.pass)))) {
		w.fails = append(w.fails, fmt.Sprintf("leak: password/refresh token of %s sent to the registry itself although it never asked for Basic", owner))
	}
	if owner == "a.example" && strings.HasPrefix(req.URL.Path, "/v2/rd/") {
		// registry A hands this repository over to registry B (e.g. a mirror): a cross-host redirect
		w.log = append(w.log, fmt.Sprintf("%s a.example%s -> 307 "+hostB+" auth=%q", req.Header.Get("X-Verif-Req"), req.URL.Path, trunc(req.Header.Get("Authorization"))))
		if b := w.regs[hostB]; b != nil && b.mode == "basic" {
			r.askedBasic = true // the target's Basic challenge reaches the client as the answer to its request to A
		}
		return resp(req, 307, http.Header{"Location": {"https://" + hostB + req.URL.Path}}, ""), nil
	}
	id := req.Header.Get("X-Verif-Req")
	w.sends[id]++
	authz := req.Header.Get("Authorization")
	w.log = append(w.log, fmt.Sprintf("%s %s%s auth=%q", id, host, req.URL.Path, trunc(authz)))
	need := required(req.URL.Path)
	hint := strings.Fields(req.Header.Get("X-Verif-Hint"))
	switch r.mode {
	case "basic":
		if authz == "Basic "+base64.StdEncoding.EncodeToString([]byte(r.user+":"+r.pass)) {
			return resp(req, 200, nil, "ok"), nil
		}
		r.askedBasic = true // from now on the Basic credential may come back to this registry (a remembered scheme)
		return resp(req, 401, http.Header{"Www-Authenticate": {`Basic realm="` + owner + `"`}}, ""), nil
	default:
		if strings.HasPrefix(authz, "Bearer ") {
			tok := strings.TrimPrefix(authz, "Bearer ")
			if tok == base64.StdEncoding.EncodeToString([]byte(r.user+":"+r.pass)) {
				w.fails = append(w.fails, "a token cached under the Basic scheme was attached under the Bearer scheme")
			}
			if r.mode == "access" && tok == r.token {
				return resp(req, 200, nil, "ok"), nil
			}
			if is, ok := w.tokens[tok]; ok {
				if is.host != owner {
					w.fails = append(w.fails, fmt.Sprintf("a bearer token issued for %s was attached to a request to %s", is.host, owner))
				} else {
					// a cached token is reused only for the same canonical scope set: what this request brought
					// along as hints, or that joined with what the registry asked for in this very exchange
					// (NewSingleContextCache documents per-host reuse and is not judged here)
					got := canonSet(is.scopes)
					first := canonSet(hint)
					joined := first
					if a, ok := w.asked[id]; ok {
						joined = canonSet(append(append([]string{}, hint...), strings.Fields(a)...))
					}
					if w.cacheKind != "single" && got != first && got != joined {
						w.fails = append(w.fails, fmt.Sprintf("a bearer token issued for the scope set {%s} was attached to request %s whose scope set is {%s} (with the registry's challenge: {%s})", got, id, first, joined))
					}
					if need == nil || covers(is.scopes, need[0]) {
						return resp(req, 200, nil, "ok"), nil
					}
				}
			}
		}
		if r.mode == "norealm" {
			// a Bearer challenge that advertises no realm: there is nowhere the client may take its secrets
			w.asked[id] = ""
			return resp(req, 401, http.Header{"Www-Authenticate": {fmt.Sprintf(`Bearer service="%s"`, owner)}}, ""), nil
		}
		if need == nil {
			// the base endpoint asks for a token without naming a scope
			w.asked[id] = ""
			ch := fmt.Sprintf(`Bearer realm="%s",service="%s"`, r.realm, owner)
			return resp(req, 401, http.Header{"Www-Authenticate": {ch}}, ""), nil
		}
		cs := w.challengeScope(need)
		w.asked[id] = cs
		svc := owner
		if r.mode == "anon" {
			svc = "a.example" // an anonymous registry that names the other registry as its service (a mirror in front of it)
		}
		ch := fmt.Sprintf(`Bearer realm="%s",service="%s",scope="%s"`, r.realm, svc, cs)
		return resp(req, 401, http.Header{"Www-Authenticate": {ch}}, ""), nil
	}
}

func trunc(s string) string {
	if len(s) > 24 {
		return s[:24] + "…"
	}
	return s
}

func (w *world) realm(req *http.Request, r *regSpec, body string) *http.Response {
	w.fetches++
	w.realmHits++
	if w.cancelOn != nil && w.realmHits == 1 {
		w.cancelOn()
		w.mu.Unlock()
		vs.Pt("realm after cancel")
		w.mu.Lock()
		if err := req.Context().Err(); err != nil {
			// the transport of a cancelled request fails with the context's error
			return nil
		}
	}
	var scopes []string
	okCred := false
	switch {
	case req.Method == http.MethodGet:
		scopes = req.URL.Query()["scope"]
		u, p, ok := req.BasicAuth()
		okCred = ok && u == r.user && p == r.pass && (r.mode == "dist" || r.mode == "oauth-pass")
	case req.Method == http.MethodPost:
		f, _ := url.ParseQuery(body)
		scopes = strings.Fields(f.Get("scope"))
		switch f.Get("grant_type") {
		case "refresh_token":
			okCred = f.Get("refresh_token") == r.refresh && r.mode == "oauth-refresh"
		case "password":
			okCred = f.Get("username") == r.user && f.Get("password") == r.pass && (r.mode == "oauth-pass" || r.mode == "dist")
		}
	}
	if r.mode == "anon" {
		okCred = true // this registry hands out tokens to anybody; the client holds no credential for it
	}
	w.log = append(w.log, fmt.Sprintf("   realm(%s) %s scopes=%v ok=%v", r.host, req.Method, scopes, okCred))
	if w.cacheKind == "shared" || w.cacheKind == "single" {
		// through a cache, requests for one registry and scope set share one fetch: a second token request for
		// the same key while one is being served means somebody did not wait for it
		key := r.host + " " + canonSet(scopes)
		w.realmIn[key]++
		if w.realmIn[key] > 1 {
			w.fails = append(w.fails, fmt.Sprintf("two token fetches for %s {%s} in flight at the same time: a request did not share the fetch in flight", r.host, canonSet(scopes)))
		}
		w.mu.Unlock()
		vs.Pt("realm serving")
		w.mu.Lock()
		w.realmIn[key]--
	}
	if !okCred {
		return resp(req, 401, nil, `{"errors":[{"code":"UNAUTHORIZED"}]}`)
	}
	w.nTok++
	tok := fmt.Sprintf("TOKEN-%s-%d", strings.ToUpper(r.host[:1]), w.nTok)
	w.tokens[tok] = issued{host: r.host, scopes: scopes}
	b, _ := json.Marshal(map[string]string{"access_token": tok, "token": tok})
	return resp(req, 200, http.Header{"Content-Type": {"application/json"}}, string(b))
}

type transport struct{ w *world }

func (t transport) RoundTrip(req *http.Request) (*http.Response, error) {
	r, err := t.w.RoundTrip(req)
	if r == nil && err == nil {
		return nil, req.Context().Err()
	}
	return r, err
}

func newClient(w *world, cache string) *auth.Client {
	c := &auth.Client{Client: &http.Client{Transport: transport{w}}, Credential: w.credential}
	w.cacheKind = cache
	for _, r := range w.regs {
		if r.mode == "oauth-pass" {
			c.ForceAttemptOAuth2 = true // client-wide: the other registry's password then also travels by the OAuth2 password grant
		}
	}
	switch cache {
	case "shared":
		c.Cache = auth.NewCache()
	case "single":
		c.Cache = auth.NewSingleContextCache()
	}
	return c
}

var modes = []string{"basic", "dist", "oauth-refresh", "oauth-pass", "access"}

type reqKind struct {
	host string
	repo string // "" = no scope hint
	// reuse: the request is made by cloning the request object the caller sent last (a mirror fail-over
	// loop re-targets its request at the next host) instead of building a new one
	reuse bool
}

// prevReq is the request object the caller handed to the client last in the current execution.
// It is kept in the sequential histories only (trackPrev): concurrent callers have no "last" request.
var prevReq *http.Request
var trackPrev bool

// the last kind asks registry A for repository "rd", which A answers with a redirect to registry B
var reqKinds = []reqKind{{"a.example", "r1", false}, {"a.example", "r2", false}, {"a.example", "", false}, {"b.example", "r1", false}, {"b.example", "r2", false}, {"b.example", "", false}, {"a.example", "rd", false},
	// the base endpoint /v2/ of registry A, whose challenge names no scope: without and with a scope hint
	{"a.example", "ping", false}, {"a.example", "ping+r2", false},
	{host: "b.example", repo: "r1", reuse: true}}

// hostB is the name of registry B for the current execution: "b.example", or
// "a.example:8443" - the same host name as registry A on another port, still a
// different registry with its own credentials and realm.
var hostB = "b.example"

func doReq(ctx context.Context, c *auth.Client, id string, k reqKind) (*http.Response, error) {
	if k.host == "b.example" {
		k.host = hostB
	}
	repo := k.repo
	hint := ""
	path := ""
	switch {
	case repo == "":
		repo = "r1"
	case repo == "ping":
		path = "/v2/"
	default:
		if repo == "ping+r2" {
			path, repo = "/v2/", "r2"
		}
		actions := []string{auth.ActionPull}
		if repo == "r2" {
			actions = []string{auth.ActionPull, auth.ActionPush}
		}
		hint = auth.ScopeRepository(repo, actions...)
		ctx = auth.AppendScopesForHost(ctx, k.host, hint)
	}
	if path == "" {
		path = "/v2/" + repo + "/manifests/latest"
	}
	req, _ := http.NewRequestWithContext(ctx, http.MethodGet, "https://"+k.host+path, nil)
	if k.reuse && prevReq != nil {
		req = prevReq.Clone(ctx)
		u := *req.URL
		u.Host, u.Path = k.host, path
		req.URL, req.Host = &u, k.host
	}
	if trackPrev {
		prevReq = req
	}
	req.Header.Set("X-Verif-Req", id)
	req.Header.Set("X-Verif-Hint", hint) // read by the registry double only: the scope set the caller declared
	return c.Do(req)
}

func jobs(tier string) []driver.Job {
	var out []driver.Job
	th := tier == "thorough"
	depth := 3
	if th {
		depth = 4
	}
	for _, ma := range modes {
		for _, mb := range append(append([]string{}, modes...), "norealm", "anon") {
			for _, cache := range []string{"none", "shared", "single"} {
				ma, mb, cache := ma, mb, cache
				name := fmt.Sprintf("seq/A=%s/B=%s/cache=%s/depth%d", ma, mb, cache, depth)
				out = append(out, driver.Job{Name: name, Run: func(c *driver.Ctx) {
					c.Explore(driver.Scenario{Name: name, Sequential: true,
						Make: func() (func(), func(*vs.Result) *driver.Fail) { return seq(c, ma, mb, cache, depth) }})
				}})
			}
		}
	}
	out = append(out, driver.Job{Name: "cleanscopes", Run: cleanScopes})
	out = append(out, concJobs(th)...)
	return out
}

func seq(c *driver.Ctx, ma, mb, cache string, depth int) (func(), func(*vs.Result) *driver.Fail) {
	var fail *driver.Fail
	var hist []string
	var w *world
	body := func() {
		form := vs.Choose(3, vs.KInput, "scopeform")
		change := vs.Choose(3, vs.KInput, "schemechange") // A switches to the next mode after request 0 / 1 / never(0)
		hostB = []string{"b.example", "a.example:8443", "sub.a.example"}[vs.Choose(3, vs.KInput, "hostB")]
		prevReq, trackPrev = nil, true
		w = newWorld(ma, mb, form)
		cl := newClient(w, cache)
		hist = append(hist, fmt.Sprintf("scopeform=%d change=%d registry B = %s", form, change, hostB))
		for i := 0; i < depth; i++ {
			k := reqKinds[vs.Choose(len(reqKinds), vs.KInput, "req")]
			if change > 0 && i == change {
				cur := w.regs["a.example"].mode
				for j, m := range modes {
					if m == cur {
						w.regs["a.example"].mode = modes[(j+1)%len(modes)]
					}
				}
				hist = append(hist, "A switches to "+w.regs["a.example"].mode)
			}
			id := fmt.Sprintf("q%d", i)
			hist = append(hist, fmt.Sprintf("%s GET %s scope-hint=%q%s", id, map[bool]string{true: "B", false: "A"}[k.host == "b.example"], k.repo,
				map[bool]string{true: " (the caller clones the request object it sent last and re-targets it)", false: ""}[k.reuse]))
			if k.repo == "rd" {
				// Redirected request: judged by the leak oracle only (A's credentials are not B's, so the
				// answer may be 401). Generated only when B challenges with Basic: a Bearer challenge arriving
				// through a redirect names B's realm as if A had advertised it, which the statement does not cover.
				// Not generated when B shares A's host name: net/http itself copies Authorization on a redirect
				// within one domain (any port), which is the standard library's policy, not the auth client's.
				if mb == "basic" && hostB == "b.example" {
					if rs, err := doReq(context.Background(), cl, id, k); err == nil {
						rs.Body.Close()
					}
					if len(w.fails) > 0 {
						fail = &driver.Fail{Sig: sig(w.fails[0]), Detail: detail(w, hist) + "\n" + strings.Join(w.fails, "\n")}
						return
					}
				}
				continue
			}
			before := w.fetches
			rs, err := doReq(context.Background(), cl, id, k)
			if k.host == "b.example" && mb == "norealm" {
				// a registry whose Bearer challenge names no realm cannot be authenticated to: whatever the
				// request ends with, only what travelled is judged
				if err == nil {
					rs.Body.Close()
				}
				if len(w.fails) > 0 {
					fail = &driver.Fail{Sig: sig(w.fails[0]), Detail: detail(w, hist) + "\n" + strings.Join(w.fails, "\n")}
					return
				}
				continue
			}
			if err != nil {
				fail = &driver.Fail{Sig: "request with valid credentials failed", Detail: detail(w, hist) + "\n" + err.Error()}
				return
			}
			rs.Body.Close()
			if rs.StatusCode == 401 {
				fail = &driver.Fail{Sig: "request with valid credentials ended with 401", Detail: detail(w, hist)}
				return
			}
			if w.sends[id] > 3 {
				fail = &driver.Fail{Sig: "more than three sends to the registry for one request", Detail: detail(w, hist)}
				return
			}
			if w.fetches-before > 1 {
				fail = &driver.Fail{Sig: "more than one token fetch for one request", Detail: detail(w, hist)}
				return
			}
			if len(w.fails) > 0 {
				fail = &driver.Fail{Sig: sig(w.fails[0]), Detail: detail(w, hist) + "\n" + strings.Join(w.fails, "\n")}
				return
			}
		}
	}
	check := func(res *vs.Result) *driver.Fail {
		if f := driver.StdFail(res); f != nil {
			f.Detail = strings.Join(hist, "\n") + "\n" + f.Detail
			return f
		}
		both := strings.Contains(strings.Join(hist, " "), "GET A") && strings.Contains(strings.Join(hist, " "), "GET B")
		if both {
			c.Nontriv(driver.Hash(ma, mb, cache, strings.Join(hist, ";")))
		}
		return fail
	}
	return body, check
}

func sig(f string) string {
	switch {
	case strings.HasPrefix(f, "leak: a secret"):
		return "a secret of one registry was sent to another host"
	case strings.HasPrefix(f, "leak: password"):
		return "password or refresh token sent to a registry that did not challenge with Basic"
	case strings.HasPrefix(f, "a token cached under the Basic"):
		return "a cached token was reused under another scheme"
	case strings.HasPrefix(f, "two token fetches for"):
		return "a request did not share the token fetch in flight for its registry and scope set"
	case strings.HasPrefix(f, "a bearer token issued for the scope set"):
		return "a cached bearer token was reused for a different scope set"
	case strings.HasPrefix(f, "a bearer token issued"):
		return "a bearer token was attached to a request for another host"
	}
	return f
}

func detail(w *world, hist []string) string {
	return strings.Join(hist, "\n") + "\n--- transport log\n" + strings.Join(w.log, "\n")
}

// ---- CleanScopes

func cleanScopes(c *driver.Ctx) {
	alpha := []string{"repository:a:pull", "repository:a:push", "repository:a:pull,push", "repository:a:*", "repository:b:pull", "registry:catalog:*", "repository:a:push,pull",
		// resource names that contain a colon themselves (a repository named with its mirror's host:port)
		"repository:h:5000/a:pull", "repository:h:5000/a:push", "repository:h:5000/b:pull"}
	canon := func(in []string) string {
		// independent model: resource -> action set; '*' absorbs; sorted
		m := map[string]map[string]bool{}
		for _, s := range in {
			i, j := strings.Index(s, ":"), strings.LastIndex(s, ":")
			p := []string{s[:i], s[i+1 : j], s[j+1:]}
			k := p[0] + ":" + p[1]
			if m[k] == nil {
				m[k] = map[string]bool{}
			}
			for _, a := range strings.Split(p[2], ",") {
				m[k][a] = true
			}
		}
		var out []string
		for k, as := range m {
			if as["*"] {
				out = append(out, k+":*")
				continue
			}
			var al []string
			for a := range as {
				al = append(al, a)
			}
			sort.Strings(al)
			out = append(out, k+":"+strings.Join(al, ","))
		}
		sort.Strings(out)
		return strings.Join(out, " ")
	}
	var rec func(cur []string)
	rec = func(cur []string) {
		got := auth.CleanScopes(append([]string{}, cur...))
		c.Evals++
		if len(cur) >= 2 {
			c.Nontriv(driver.Hash("clean", strings.Join(cur, " ")))
		}
		if strings.Join(got, " ") != canon(cur) {
			c.AddViolation(driver.Violation{Tier: c.Tier, Job: c.Job, Scenario: "cleanscopes", Sig: "CleanScopes is not the canonical (sorted, duplicate-free, wildcard-absorbing) form", Detail: fmt.Sprintf("in %v -> %v, want %s", cur, got, canon(cur))})
		}
		again := auth.CleanScopes(append([]string{}, got...))
		if strings.Join(again, " ") != strings.Join(got, " ") {
			c.AddViolation(driver.Violation{Tier: c.Tier, Job: c.Job, Scenario: "cleanscopes", Sig: "CleanScopes is not idempotent", Detail: fmt.Sprintf("in %v -> %v -> %v", cur, got, again)})
		}
		if len(cur) < 3 {
			for _, a := range alpha {
				rec(append(cur, a))
			}
		}
	}
	rec(nil)
}

// ---- concurrent mixes

type cscen struct {
	name   string
	modeA  string
	cache  string
	reqs   []reqKind
	cancel bool // the first caller's context is cancelled while the realm handles its fetch
	who    int  // which caller's context that is (with three callers, 1: a caller that may only be waiting on another's fetch)
}

func concJobs(th bool) []driver.Job {
	a1, a2, b1 := reqKind{host: "a.example", repo: "r1"}, reqKind{host: "a.example", repo: "r2"}, reqKind{host: "b.example", repo: "r1"}
	var scs []cscen
	for _, cache := range []string{"shared", "single"} {
		for _, m := range []string{"dist", "oauth-refresh", "basic"} {
			scs = append(scs,
				cscen{"same-host-same-scope", m, cache, []reqKind{a1, a1, a1}, false, 0},
				cscen{"same-host-two-scopes", m, cache, []reqKind{a1, a2, a1}, false, 0},
				cscen{"two-hosts", m, cache, []reqKind{a1, b1, a1}, false, 0},
				cscen{"first-caller-cancelled", m, cache, []reqKind{a1, a1}, true, 0},
				// three callers of one scope; the second one's context is cancelled when the token service is first
				// reached: where it was only waiting, the fetch in flight stays the one the third caller shares
				cscen{"second-of-three-cancelled", m, cache, []reqKind{a1, a1, a1}, true, 1},
			)
		}
	}
	var out []driver.Job
	for _, sc := range scs {
		sc := sc
		if sc.cache == "single" && sc.name == "same-host-two-scopes" {
			// NewSingleContextCache is documented for a single context (one repository) and must not be
			// shared across scopes: concurrent requests with different scopes are outside its contract
			continue
		}
		b := explore.Bounds{Dev: 2, Order: 1}
		nsh := 2
		if th {
			b = explore.Bounds{Dev: 3, Order: 1}
			nsh = 8
		}
		for sh := 0; sh < nsh; sh++ {
			sh := sh
			name := fmt.Sprintf("conc/%s/A=%s/cache=%s/%v/shard%d.%d", sc.name, sc.modeA, sc.cache, b, sh, nsh)
			out = append(out, driver.Job{Name: name, Run: func(c *driver.Ctx) {
				c.Explore(driver.Scenario{Name: name, Bases: []int{0, 1, 2}, Bounds: b, Shard: sh, NShard: nsh,
					Make: func() (func(), func(*vs.Result) *driver.Fail) { return conc(c, sc) }})
			}})
		}
	}
	return out
}

func conc(c *driver.Ctx, sc cscen) (func(), func(*vs.Result) *driver.Fail) {
	hostB = "b.example"
	w := newWorld(sc.modeA, "dist", 1)
	cl := newClient(w, sc.cache)
	type result struct {
		status int
		err    string
	}
	results := make([]result, len(sc.reqs))
	body := func() {
		trackPrev = false
		done := make(chan int, len(sc.reqs))
		ctx0, cancel0 := context.WithCancel(context.Background())
		if sc.cancel {
			w.cancelOn = cancel0
		}
		for i, k := range sc.reqs {
			i, k := i, k
			vs.Go(func() {
				ctx := context.Background()
				if i == sc.who && sc.cancel {
					ctx = ctx0
				}
				rs, err := doReq(ctx, cl, fmt.Sprintf("g%d", i), k)
				st, es := 0, ""
				if err == nil {
					st = rs.StatusCode
					rs.Body.Close()
				} else {
					es = err.Error()
				}
				vs.Atomic(func() { results[i] = result{st, es} })
				vs.Send(done, i)
			})
		}
		for range sc.reqs {
			vs.Recv(done)
		}
		cancel0()
	}
	check := func(res *vs.Result) *driver.Fail {
		if f := driver.StdFail(res); f != nil {
			f.Detail = sc.name + "\n" + strings.Join(w.log, "\n") + "\n" + f.Detail
			return f
		}
		d := func() string {
			return fmt.Sprintf("%s A=%s cache=%s results=%v\n%s", sc.name, sc.modeA, sc.cache, results, strings.Join(w.log, "\n"))
		}
		if len(w.fails) > 0 {
			return &driver.Fail{Sig: sig(w.fails[0]), Detail: d() + "\n" + strings.Join(w.fails, "\n")}
		}
		for i, r := range results {
			if i == sc.who && sc.cancel {
				continue // the cancelled caller may fail with its context's error or succeed
			}
			if r.err != "" || r.status != 200 {
				return &driver.Fail{Sig: "concurrent request with valid credentials did not get the registry's non-401 answer", Detail: d()}
			}
			if w.sends[fmt.Sprintf("g%d", i)] > 3 {
				return &driver.Fail{Sig: "more than three sends to the registry for one request", Detail: d()}
			}
		}
		if w.fetches > len(sc.reqs) {
			return &driver.Fail{Sig: "more token fetches than requests", Detail: d()}
		}
		if len(res.Trace) > 0 {
			c.Nontriv(driver.Hash(sc.name, sc.modeA, sc.cache, fmt.Sprint(res.Choices())))
		}
		c.Outcome(driver.Hash(sc.name, fmt.Sprint(w.fetches)))
		return nil
	}
	return body, check
}
