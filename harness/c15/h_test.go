package c15

import (
	"bytes"
	"context"
	"encoding/json"
	"errors"
	"fmt"
	"io"
	"net/http"
	"net/url"
	"os"
	"sort"
	"strings"
	"testing"

	"github.com/opencontainers/go-digest"
	ocispec "github.com/opencontainers/image-spec/specs-go/v1"
	"oras.land/oras-go/v2/content/oci"
	. "oras.land/oras-go/v2/internal/zzverif/common"
	"oras.land/oras-go/v2/registry/remote"
	"verif.local/engine/driver"
)

func TestVerif(t *testing.T) {
	driver.Main(t, driver.Harness{
		ID:    "C15",
		Level: "exploration",
		Rule: "(A) for Repository.Tags, Registry.Repositories and Repository.Referrers (API): every item list of length 0..5 x every value of last (none, each item, a non-member) x every split of the remaining items into <= 4 pages (empty pages included) " +
			"x client page size {0,1,2,7} x Link form {absolute, absolute path, absolute path with extra parameters and spaces, an opaque cursor instead of last, query-only reference, relative-path reference ./<last segment>; with the default page size also rel=next, rel = \"next\", REL=\"next\", and another parameter before rel} x (when a page is empty) that page written with or without its list member x callback failing at page {never,0,1,2} x (referrers) artifact-type filter {none, applied by the server via header, via annotation, not applied}; " +
			"the scripted registry double serves exactly those pages and checks every follow-up request against the Link it issued. (B) response documents of size limit-1, limit, limit+1 for small MaxMetadataBytes, padded by whitespace inside the document, after it, or by a long item; a counting body measures the bytes consumed. " +
			"(C) OCI layout Tags (read-write and read-only store) for every subset of 4 tag names x every last, each listing preceded by one whose callback scribbles over the slice it was handed. (D) Referrers through the tag schema with every filter; and with a chunked GET answer that goes on for 100 KiB after the announced index (no more than MaxMetadataBytes read); and with an index larger than MaxMetadataBytes whose length is declared x Docker-Content-Digest header {always, never, GET only} x limit {len-1, len/2}. " +
			"Oracle: concatenated callback arguments = the model list (for referrers also artifactType and annotations of every descriptor, which differ from entry to entry); a slice handed to the callback still holds the same items after the listing; stops at the first missing Link or callback error (returned); bytes consumed <= limit; oversize document => error. non-trivial = distinct case with >= 2 pages or a non-empty last",
		Assumptions: []string{"a 'document' is the JSON value; trailing whitespace after a value that fits the limit is not part of it"},
		Jobs:        jobs,
	})
}

// ---- scripted paging double

type pager struct {
	host     string
	path     string // expected request path
	pages    [][]byte
	chunked  bool // responses carry no Content-Length (-1), as with chunked transfer encoding
	linkForm int
	ctype    string
	filterHd bool // OCI-Filters-Applied header on every page
	nreq     int
	bad      []string
	lastLink string // query of the link issued with the previous page
	clientN  string // the client's own page size ("": none)
	firstQ   url.Values
	bodies   []*cbody
}

type cbody struct {
	r io.Reader
	n int64
}

func (c *cbody) Read(p []byte) (int, error) { n, err := c.r.Read(p); c.n += int64(n); return n, err }
func (c *cbody) Close() error               { return nil }

func (p *pager) Do(req *http.Request) (*http.Response, error) {
	i := p.nreq
	p.nreq++
	if req.URL.Host != p.host || req.URL.Path != p.path {
		p.bad = append(p.bad, fmt.Sprintf("request %d went to %s%s, expected %s%s", i, req.URL.Host, req.URL.Path, p.host, p.path))
	}
	if req.Method != http.MethodGet {
		p.bad = append(p.bad, "method "+req.Method)
	}
	q := req.URL.Query()
	if i == 0 {
		p.firstQ = q
	} else {
		// a follow-up must use the link the registry issued; only the client's own n may be (re)set
		want, _ := url.ParseQuery(p.lastLink)
		if p.clientN != "" {
			want.Set("n", p.clientN)
		}
		if q.Encode() != want.Encode() {
			p.bad = append(p.bad, fmt.Sprintf("follow-up request %d has query %q, the Link said %q", i, q.Encode(), want.Encode()))
		}
	}
	if i >= len(p.pages) {
		p.bad = append(p.bad, fmt.Sprintf("request %d issued although the previous page carried no Link", i))
		return &http.Response{StatusCode: 500, Header: http.Header{}, Body: io.NopCloser(strings.NewReader("{}")), Request: req}, nil
	}
	h := http.Header{"Content-Type": {p.ctype}}
	if p.filterHd {
		h.Set("OCI-Filters-Applied", "artifactType")
	}
	if i < len(p.pages)-1 {
		nq := url.Values{}
		if p.linkForm == 3 {
			nq.Set("cursor", fmt.Sprintf("c%d", i)) // an opaque continuation token: the link carries no 'last' at all
		} else {
			nq.Set("last", fmt.Sprintf("cursor%d", i))
		}
		if v := q.Get("artifactType"); v != "" {
			nq.Set("artifactType", v)
		}
		p.lastLink = nq.Encode()
		switch p.linkForm {
		case 3:
			h.Set("Link", "<"+req.URL.Path+"?"+nq.Encode()+`>; rel="next"`)
		case 0:
			u := *req.URL
			u.RawQuery = nq.Encode()
			h.Set("Link", "<"+u.String()+`>; rel="next"`)
		case 1:
			h.Set("Link", "<"+req.URL.Path+"?"+nq.Encode()+`>; rel="next"`)
		case 4: // a query-only relative reference (RFC 3986 section 5.2: same path, new query)
			h.Set("Link", "<?"+nq.Encode()+`>; rel="next"`)
		case 5: // a relative-path reference: the last segment of the request path again
			seg := req.URL.Path[strings.LastIndex(req.URL.Path, "/")+1:]
			// written with "./" because a first segment containing ':' (a digest) would read as a scheme
			h.Set("Link", "<./"+seg+"?"+nq.Encode()+`>; rel="next"`)
		case 6: // RFC 8288: the relation type may be a token
			h.Set("Link", "<"+req.URL.Path+"?"+nq.Encode()+`>; rel=next`)
		case 7: // optional white space around "="
			h.Set("Link", "<"+req.URL.Path+"?"+nq.Encode()+`>; rel = "next"`)
		case 8: // parameter names are case-insensitive
			h.Set("Link", "<"+req.URL.Path+"?"+nq.Encode()+`>; REL="next"`)
		case 9: // another parameter before rel
			h.Set("Link", "<"+req.URL.Path+"?"+nq.Encode()+`>; title="more"; rel="next"`)
		default:
			h.Set("Link", "<"+req.URL.Path+"?"+nq.Encode()+`>;   rel="next"; title="x>y"`)
		}
	}
	cb := &cbody{r: bytes.NewReader(p.pages[i])}
	p.bodies = append(p.bodies, cb)
	cl := int64(len(p.pages[i]))
	if p.chunked {
		cl = -1
	}
	return &http.Response{StatusCode: 200, Header: h, Body: cb, ContentLength: cl, Request: req}, nil
}

// splits enumerates every split of n items into 1..maxPages pages (empty pages allowed).
func splits(n, maxPages int) [][]int {
	var out [][]int
	var rec func(rem, pages int, cur []int)
	rec = func(rem, pages int, cur []int) {
		if pages == 1 {
			out = append(out, append(append([]int{}, cur...), rem))
			return
		}
		for k := 0; k <= rem; k++ {
			rec(rem-k, pages-1, append(cur, k))
		}
	}
	for p := 1; p <= maxPages; p++ {
		rec(n, p, nil)
	}
	return out
}

var errCallback = errors.New("callback failed")

type target struct {
	name string
	key  string
}

func jobs(tier string) []driver.Job {
	var out []driver.Job
	maxLen := 4
	if tier == "thorough" {
		maxLen = 5
	}
	for _, tg := range []string{"tags", "repositories", "referrers"} {
		for n := 0; n <= maxLen; n++ {
			tg, n := tg, n
			out = append(out, driver.Job{Name: fmt.Sprintf("paging/%s/len%d", tg, n), Run: func(c *driver.Ctx) { paging(c, tg, n) }})
		}
	}
	out = append(out, driver.Job{Name: "limit", Run: limits})
	out = append(out, driver.Job{Name: "ocitags", Run: ociTags})
	out = append(out, driver.Job{Name: "tagschema", Run: tagSchema})
	return out
}

func items(n int) []string {
	all := []string{"a", "ab", "b", "c", "d"}
	return all[:n]
}

func refDesc(name string) ocispec.Descriptor {
	at := "application/vnd.t.x"
	if name == "ab" || name == "c" {
		at = "application/vnd.t.y"
	}
	d := ocispec.Descriptor{MediaType: ocispec.MediaTypeImageManifest, Digest: digest.FromString(name), Size: int64(len(name)), ArtifactType: at}
	// optional members differ from entry to entry: "a" carries annotations, "b" and "d" carry none, "d" has no artifactType
	switch name {
	case "a":
		d.Annotations = map[string]string{"k": "of-a"}
	case "d":
		d.ArtifactType = ""
	}
	return d
}

// descKey writes out what the callback was handed for one referrer.
func descKey(name string, d ocispec.Descriptor) string {
	return fmt.Sprintf("%s|%s|%v", name, d.ArtifactType, d.Annotations)
}

func paging(c *driver.Ctx, tg string, n int) {
	all := items(n)
	lasts := []string{""}
	if tg != "referrers" {
		lasts = append(lasts, all...)
		lasts = append(lasts, "aa")
	}
	filters := []string{""}
	if tg == "referrers" {
		filters = []string{"", "hdr", "ann", "none"}
	}
	for _, last := range lasts {
		var rest []string
		for _, it := range all {
			if last == "" || it > last {
				rest = append(rest, it)
			}
		}
		for _, filter := range filters {
			served := rest // what the registry puts on its pages
			want := rest   // what the callback must see
			if filter != "" {
				var f []string
				for _, it := range rest {
					if refDesc(it).ArtifactType == "application/vnd.t.y" {
						f = append(f, it)
					}
				}
				want = f
				if filter != "none" {
					served = f
				}
			}
			for _, sp := range splits(len(served), 4) {
				for _, psize := range []int{0, 1, 2, 7} {
					for lf := 0; lf < 10; lf++ {
						if lf >= 6 && psize != 0 {
							continue // other legal spellings of rel="next": with the default page size only
						}
						for _, failAt := range []int{-1, 0, 1, 2} {
							one(c, tg, served, want, last, filter, sp, psize, lf, failAt)
						}
					}
				}
			}
		}
	}
}

func one(c *driver.Ctx, tg string, served, want []string, last, filter string, sp []int, psize, lf, failAt int) {
	oneEnc(c, tg, served, want, last, filter, sp, psize, lf, failAt, false)
	for _, k := range sp {
		if k == 0 {
			// an empty page may also be written without its list member
			oneEnc(c, tg, served, want, last, filter, sp, psize, lf, failAt, true)
			break
		}
	}
}

func oneEnc(c *driver.Ctx, tg string, served, want []string, last, filter string, sp []int, psize, lf, failAt int, sparse bool) {
	p := &pager{host: "reg.example", linkForm: lf, ctype: "application/json", filterHd: filter == "hdr"}
	if psize > 0 {
		p.clientN = fmt.Sprint(psize)
	}
	off := 0
	for _, k := range sp {
		page := served[off : off+k]
		off += k
		var b []byte
		switch {
		case tg == "tags" && sparse && k == 0:
			b = []byte(`{"name":"ns/app"}`)
		case tg == "repositories" && sparse && k == 0:
			b = []byte(`{}`)
		case tg == "referrers" && sparse && k == 0:
			b = []byte(`{"schemaVersion":2,"mediaType":"` + ocispec.MediaTypeImageIndex + `"}`)
			if filter == "ann" {
				b = []byte(`{"schemaVersion":2,"mediaType":"` + ocispec.MediaTypeImageIndex + `","annotations":{"org.opencontainers.referrers.filtersApplied":"artifactType"}}`)
			}
		case tg == "tags":
			b, _ = json.Marshal(map[string]any{"name": "ns/app", "tags": page})
		case tg == "repositories":
			b, _ = json.Marshal(map[string]any{"repositories": page})
		default:
			idx := ocispec.Index{MediaType: ocispec.MediaTypeImageIndex, Manifests: []ocispec.Descriptor{}}
			idx.SchemaVersion = 2
			for _, it := range page {
				idx.Manifests = append(idx.Manifests, refDesc(it))
			}
			if filter == "ann" {
				idx.Annotations = map[string]string{"org.opencontainers.referrers.filtersApplied": "artifactType"}
			}
			b, _ = json.Marshal(idx)
		}
		p.pages = append(p.pages, b)
	}
	var got []string
	var kept [][]string   // the very slices the callback was handed, looked at again after the listing
	var keptAt [][]string // what they held at that moment
	var gotDescs, wantDescs []string
	calls := 0
	var err error
	ctx := context.Background()
	subject := ocispec.Descriptor{MediaType: ocispec.MediaTypeImageManifest, Digest: digest.FromString("subject"), Size: 7}
	switch tg {
	case "tags":
		p.path = "/v2/ns/app/tags/list"
		repo, _ := remote.NewRepository("reg.example/ns/app")
		repo.Client = p
		repo.TagListPageSize = psize
		err = repo.Tags(ctx, last, func(t []string) error {
			if calls == failAt {
				calls++
				return errCallback
			}
			calls++
			got = append(got, t...)
			kept, keptAt = append(kept, t), append(keptAt, append([]string(nil), t...))
			return nil
		})
	case "repositories":
		p.path = "/v2/_catalog"
		reg, _ := remote.NewRegistry("reg.example")
		reg.Client = p
		reg.RepositoryListPageSize = psize
		err = reg.Repositories(ctx, last, func(t []string) error {
			if calls == failAt {
				calls++
				return errCallback
			}
			calls++
			got = append(got, t...)
			kept, keptAt = append(kept, t), append(keptAt, append([]string(nil), t...))
			return nil
		})
	default:
		p.path = "/v2/ns/app/referrers/" + subject.Digest.String()
		p.ctype = ocispec.MediaTypeImageIndex
		repo, _ := remote.NewRepository("reg.example/ns/app")
		repo.Client = p
		repo.ReferrerListPageSize = psize
		repo.SetReferrersCapability(true)
		at := ""
		if filter != "" {
			at = "application/vnd.t.y"
		}
		err = repo.Referrers(ctx, subject, at, func(r []ocispec.Descriptor) error {
			if calls == failAt {
				calls++
				return errCallback
			}
			calls++
			for _, d := range r {
				name := "?"
				for _, it := range []string{"a", "ab", "b", "c", "d"} {
					if digest.FromString(it) == d.Digest {
						name = it
					}
				}
				got = append(got, name)
				gotDescs = append(gotDescs, descKey(name, d))
			}
			return nil
		})
		for _, it := range want {
			wantDescs = append(wantDescs, descKey(it, refDesc(it)))
		}
	}
	c.Evals++
	if len(sp) >= 2 || last != "" {
		c.Nontriv(driver.Hash(tg, fmt.Sprint(served, want, last, filter, sp, psize, lf, failAt)))
	}
	desc := fmt.Sprintf("%s items=%v last=%q filter=%q pages=%v (empty pages without their list member: %v) clientPageSize=%d linkForm=%d callbackFailsAt=%d -> got %v err %v", tg, served, last, filter, sp, sparse, psize, lf, failAt, got, err)
	viol := func(sig string) {
		c.AddViolation(driver.Violation{Tier: c.Tier, Job: c.Job, Scenario: tg, Sig: tg + ": " + sig, Detail: desc + "\n" + strings.Join(p.bad, "\n")})
	}
	if c.Evals == 1 {
		c.Sample(desc)
	}
	// first request shape
	if v := p.firstQ.Get("last"); v != last {
		viol("first request does not carry the given last value")
		return
	}
	if v := p.firstQ.Get("n"); v != p.clientN {
		viol("first request does not carry the client's page size")
		return
	}
	if len(p.bad) > 0 {
		viol("follow-up request differs from the Link the registry issued")
		return
	}
	if failed := calls > 0 && failAt >= 0 && failAt < calls; failed {
		if !errors.Is(err, errCallback) {
			viol("callback failure not returned")
			return
		}
		// items delivered before the failure must be a prefix of the expected list
		if strings.Join(got, ",") != strings.Join(want[:len(got)], ",") {
			viol("items delivered before the callback failure are not a prefix of the list")
		}
		if p.nreq > failAt+1 && tg != "referrers" {
			viol("iteration continued after the callback failed")
		}
		return
	}
	if err != nil {
		viol("listing failed on a fault-free exchange")
		return
	}
	if fmt.Sprint(kept) != fmt.Sprint(keptAt) {
		desc += fmt.Sprintf("\npages as handed to the callback: %v; the same slices after the listing: %v", keptAt, kept)
		viol("a page handed to the callback was overwritten by a later page")
		return
	}
	if strings.Join(got, ",") == strings.Join(want, ",") && strings.Join(gotDescs, ";") != strings.Join(wantDescs[:len(gotDescs)], ";") {
		desc += fmt.Sprintf("\ndelivered: %v\nserved:    %v", gotDescs, wantDescs)
		viol("delivered descriptors differ from the ones the registry served (artifactType / annotations)")
		return
	}
	if strings.Join(got, ",") != strings.Join(want, ",") {
		viol("delivered items differ from the registry's list (missing, duplicated or reordered)")
		return
	}
	if p.nreq != len(sp) {
		viol("did not fetch exactly the pages the registry linked")
	}
}

// ---- (B) size limit

func limits(c *driver.Ctx) {
	for _, tg := range []string{"tags", "repositories", "referrers"} {
		for _, limit := range []int64{40, 64, 200} {
			if tg == "referrers" && limit < 200 {
				continue
			}
			for _, pad := range []string{"inside", "after", "item", "inside-chunked", "item-chunked"} {
				chunked := strings.HasSuffix(pad, "-chunked")
				pad := strings.TrimSuffix(pad, "-chunked")
				for delta := -2; delta <= 2; delta++ {
					size := int(limit) + delta
					var body []byte
					var valueLen int
					build := func(fill int) ([]byte, int) {
						switch tg {
						case "tags", "repositories":
							key := tg
							switch pad {
							case "inside":
								s := `{` + strings.Repeat(" ", fill) + `"` + key + `":["a","b"]}`
								return []byte(s), len(s)
							case "after":
								s := `{"` + key + `":["a","b"]}`
								return []byte(s + strings.Repeat("\n", fill)), len(s)
							default:
								s := `{"` + key + `":["a","` + strings.Repeat("b", fill+1) + `"]}`
								return []byte(s), len(s)
							}
						default:
							d := refDesc("a")
							mk := func(extra string) string {
								idx := ocispec.Index{MediaType: ocispec.MediaTypeImageIndex, Manifests: []ocispec.Descriptor{d}}
								idx.SchemaVersion = 2
								if extra != "" {
									idx.Annotations = map[string]string{"p": extra}
								}
								b, _ := json.Marshal(idx)
								return string(b)
							}
							switch pad {
							case "inside":
								s := mk("")
								s = "{" + strings.Repeat(" ", fill) + s[1:]
								return []byte(s), len(s)
							case "after":
								s := mk("")
								return []byte(s + strings.Repeat(" ", fill)), len(s)
							default:
								s := mk(strings.Repeat("x", fill+1))
								return []byte(s), len(s)
							}
						}
					}
					base, _ := build(0)
					if size < len(base) {
						continue
					}
					body, valueLen = build(size - len(base))
					if len(body) != size {
						continue
					}
					p := &pager{host: "reg.example", ctype: "application/json", pages: [][]byte{body}, chunked: chunked}
					var got []string
					var err error
					switch tg {
					case "tags":
						p.path = "/v2/ns/app/tags/list"
						repo, _ := remote.NewRepository("reg.example/ns/app")
						repo.Client, repo.MaxMetadataBytes = p, limit
						err = repo.Tags(context.Background(), "", func(t []string) error { got = append(got, t...); return nil })
					case "repositories":
						p.path = "/v2/_catalog"
						reg, _ := remote.NewRegistry("reg.example")
						reg.Client, reg.MaxMetadataBytes = p, limit
						err = reg.Repositories(context.Background(), "", func(t []string) error { got = append(got, t...); return nil })
					default:
						subject := ocispec.Descriptor{MediaType: ocispec.MediaTypeImageManifest, Digest: digest.FromString("subject"), Size: 7}
						p.path = "/v2/ns/app/referrers/" + subject.Digest.String()
						p.ctype = ocispec.MediaTypeImageIndex
						repo, _ := remote.NewRepository("reg.example/ns/app")
						repo.Client, repo.MaxMetadataBytes = p, limit
						repo.SetReferrersCapability(true)
						err = repo.Referrers(context.Background(), subject, "", func(r []ocispec.Descriptor) error {
							for range r {
								got = append(got, "a")
							}
							return nil
						})
					}
					c.Evals++
					c.Nontriv(driver.Hash("limit", tg, fmt.Sprint(limit, pad, delta, chunked)))
					desc := fmt.Sprintf("%s limit=%d pad=%s chunked=%v body=%d bytes (JSON value %d bytes) -> got %v err %v, consumed %d", tg, limit, pad, chunked, size, valueLen, got, err, consumed(p))
					viol := func(sig string) {
						c.AddViolation(driver.Violation{Tier: c.Tier, Job: c.Job, Scenario: tg, Sig: tg + ": " + sig, Detail: desc})
					}
					if consumed(p) > limit {
						viol("more than MaxMetadataBytes of a metadata response was read")
						continue
					}
					wantN := 2
					if tg == "referrers" {
						wantN = 1
					}
					if int64(valueLen) > limit {
						if err == nil {
							viol("a document larger than the limit produced a result instead of an error")
						}
					} else if err != nil {
						viol("a document that fits the limit was refused")
					} else if len(got) != wantN {
						viol("truncated or wrong result for a document that fits the limit")
					}
				}
			}
		}
	}
}

func consumed(p *pager) int64 {
	var m int64
	for _, b := range p.bodies {
		if b.n > m {
			m = b.n
		}
	}
	return m
}

// ---- (C) OCI layout Tags

func ociTags(c *driver.Ctx) {
	names := []string{"a", "ab", "b", "c"}
	d := &DAG{}
	cfg := d.Blob("C", MTConfig, "{}")
	m := d.Manifest("M", cfg, nil, ManifestOpt{Subject: -1})
	for mask := 0; mask < 16; mask++ {
		dir := Scratch("c15oci")
		st, err := oci.New(dir)
		if err != nil {
			panic(err)
		}
		for i := range d.Nodes {
			st.Push(context.Background(), d.Nodes[i].Desc, bytes.NewReader(d.Nodes[i].Bytes))
		}
		var tagged []string
		// tag in reverse order so that insertion order is not the sorted order
		for i := len(names) - 1; i >= 0; i-- {
			if mask&(1<<i) != 0 {
				st.Tag(context.Background(), d.Nodes[m].Desc, names[i])
				tagged = append(tagged, names[i])
			}
		}
		sort.Strings(tagged)
		ro, err := oci.NewFromFS(context.Background(), os.DirFS(dir))
		if err != nil {
			panic(err)
		}
		for _, last := range append([]string{"", "aa", "zz", "0"}, names...) {
			var want []string
			for _, t := range tagged {
				if last == "" || t > last {
					want = append(want, t)
				}
			}
			for kind, lister := range map[string]interface {
				Tags(context.Context, string, func([]string) error) error
			}{"rw": st, "ro": ro} {
				// a first listing whose callback uses the slice it is handed as scratch space (reverses and blanks
				// it): what a later listing delivers must not depend on that
				_ = lister.Tags(context.Background(), last, func(t []string) error {
					for i, j := 0, len(t)-1; i < j; i, j = i+1, j-1 {
						t[i], t[j] = t[j], t[i]
					}
					for i := range t {
						if i%2 == 0 {
							t[i] = "zz-overwritten"
						}
					}
					return nil
				})
				var got []string
				err := lister.Tags(context.Background(), last, func(t []string) error { got = append(got, t...); return nil })
				c.Evals++
				c.Nontriv(driver.Hash("oci", kind, fmt.Sprint(mask), last))
				if err != nil || strings.Join(got, ",") != strings.Join(want, ",") {
					c.AddViolation(driver.Violation{Tier: c.Tier, Job: c.Job, Scenario: "ocitags", Sig: "oci(" + kind + "): Tags is not the sorted list after last",
						Detail: fmt.Sprintf("tags %v last %q: got %v err %v want %v", tagged, last, got, err, want)})
				}
				cbErr := lister.Tags(context.Background(), last, func(t []string) error { return errCallback })
				if !errors.Is(cbErr, errCallback) {
					c.AddViolation(driver.Violation{Tier: c.Tier, Job: c.Job, Scenario: "ocitags", Sig: "oci(" + kind + "): callback failure not returned", Detail: fmt.Sprint(cbErr)})
				}
			}
		}
		os.RemoveAll(dir)
	}
}

// ---- (D) Referrers through the tag schema

func tagSchema(c *driver.Ctx) {
	// the referrers index fetched by tag from a registry that answers GET chunked (its size is then
	// known from HEAD only) and whose body goes on after the announced document: the listing fails and
	// no more than MaxMetadataBytes of that answer is read
	for n := 1; n <= 3; n++ {
		for at := 0; at <= 3; at++ {
			g := NewRegistry("reg.example", Profile{NoGetLength: true})
			repo, _ := remote.NewRepository("reg.example/ns/app")
			repo.Client = g
			subject := ocispec.Descriptor{MediaType: ocispec.MediaTypeImageManifest, Digest: digest.FromString("subject"), Size: 7}
			idx := ocispec.Index{MediaType: ocispec.MediaTypeImageIndex, Manifests: []ocispec.Descriptor{}}
			idx.SchemaVersion = 2
			for _, it := range items(n) {
				idx.Manifests = append(idx.Manifests, refDesc(it))
			}
			b, _ := json.Marshal(idx)
			dg := digest.FromBytes(b)
			g.Repo("ns/app").PutManifest(dg, b, ocispec.MediaTypeImageIndex)
			g.Repo("ns/app").Tags["sha256-"+subject.Digest.Encoded()] = dg
			limit := int64(len(b)) + 64
			repo.MaxMetadataBytes = limit
			g.Corrupt = Corruption{At: at, Kind: "body-longer"}
			var got []string
			err := repo.Referrers(context.Background(), subject, "", func(r []ocispec.Descriptor) error {
				for _, d := range r {
					got = append(got, d.Digest.String())
				}
				return nil
			})
			if g.Applied == "" {
				continue // that response was not a GET with a body
			}
			c.Evals++
			c.Nontriv(driver.Hash("tagschema-longer", fmt.Sprint(n, at)))
			detail := fmt.Sprintf("index of %d bytes, MaxMetadataBytes=%d, response %d goes on for 100 KiB after the document: err=%v delivered=%v, largest number of bytes read from one response body: %d", len(b), limit, at, err, got, g.MaxBodyRead())
			if g.MaxBodyRead() > limit {
				c.AddViolation(driver.Violation{Tier: c.Tier, Job: c.Job, Scenario: "tagschema", Sig: "referrers (tag schema): more than MaxMetadataBytes of a metadata response was read", Detail: detail})
				return
			}
			if err == nil && len(got) != n {
				c.AddViolation(driver.Violation{Tier: c.Tier, Job: c.Job, Scenario: "tagschema", Sig: "referrers (tag schema): a truncated or altered result was delivered without error", Detail: detail})
				return
			}
		}
	}
	// the referrers index is larger than MaxMetadataBytes and its length is declared; the registry sends the
	// Docker-Content-Digest header always / never / on GET only (without it the client hashes the body itself)
	for n := 1; n <= 3; n++ {
		for dh := 0; dh <= 2; dh++ {
			for _, lim := range []int{-1, 2} { // limit = len-1, len/2 (both above the size of the registry's error documents, which are read under a limit of their own)
				g := NewRegistry("reg.example", Profile{DigestHeader: dh})
				repo, _ := remote.NewRepository("reg.example/ns/app")
				repo.Client = g
				subject := ocispec.Descriptor{MediaType: ocispec.MediaTypeImageManifest, Digest: digest.FromString("subject"), Size: 7}
				idx := ocispec.Index{MediaType: ocispec.MediaTypeImageIndex, Manifests: []ocispec.Descriptor{}}
				idx.SchemaVersion = 2
				for _, it := range items(n) {
					idx.Manifests = append(idx.Manifests, refDesc(it))
				}
				b, _ := json.Marshal(idx)
				dg := digest.FromBytes(b)
				g.Repo("ns/app").PutManifest(dg, b, ocispec.MediaTypeImageIndex)
				g.Repo("ns/app").Tags["sha256-"+subject.Digest.Encoded()] = dg
				limit := int64(len(b)) - 1
				if lim == 2 {
					limit = int64(len(b)) / 2
				}
				repo.MaxMetadataBytes = limit
				var got []string
				err := repo.Referrers(context.Background(), subject, "", func(r []ocispec.Descriptor) error {
					for _, d := range r {
						got = append(got, d.Digest.String())
					}
					return nil
				})
				c.Evals++
				c.Nontriv(driver.Hash("tagschema-oversize", fmt.Sprint(n, dh, lim)))
				detail := fmt.Sprintf("index of %d bytes with its length declared, MaxMetadataBytes=%d, Docker-Content-Digest header mode %d (0 always, 1 never, 2 on GET only): err=%v delivered=%v, largest number of bytes read from one response body: %d", len(b), limit, dh, err, got, g.MaxBodyRead())
				if g.MaxBodyRead() > limit {
					c.AddViolation(driver.Violation{Tier: c.Tier, Job: c.Job, Scenario: "tagschema", Sig: "referrers (tag schema): more than MaxMetadataBytes of a metadata response was read", Detail: detail})
					return
				}
				if err == nil {
					c.AddViolation(driver.Violation{Tier: c.Tier, Job: c.Job, Scenario: "tagschema", Sig: "referrers (tag schema): an index larger than MaxMetadataBytes was delivered without error", Detail: detail})
					return
				}
			}
		}
	}
	for n := 0; n <= 4; n++ {
		for _, at := range []string{"", "application/vnd.t.y", "application/vnd.t.none"} {
			g := NewRegistry("reg.example", Profile{})
			repo, _ := remote.NewRepository("reg.example/ns/app")
			repo.Client = g
			subject := ocispec.Descriptor{MediaType: ocispec.MediaTypeImageManifest, Digest: digest.FromString("subject"), Size: 7}
			idx := ocispec.Index{MediaType: ocispec.MediaTypeImageIndex, Manifests: []ocispec.Descriptor{}}
			idx.SchemaVersion = 2
			var want []string
			for _, it := range items(n) {
				idx.Manifests = append(idx.Manifests, refDesc(it))
				if at == "" || refDesc(it).ArtifactType == at {
					want = append(want, refDesc(it).Digest.String())
				}
			}
			b, _ := json.Marshal(idx)
			if n > 0 {
				dg := digest.FromBytes(b)
				g.Repo("ns/app").PutManifest(dg, b, ocispec.MediaTypeImageIndex)
				g.Repo("ns/app").Tags["sha256-"+subject.Digest.Encoded()] = dg
			}
			var got []string
			err := repo.Referrers(context.Background(), subject, at, func(r []ocispec.Descriptor) error {
				for _, d := range r {
					got = append(got, d.Digest.String())
				}
				return nil
			})
			c.Evals++
			c.Nontriv(driver.Hash("tagschema", fmt.Sprint(n), at))
			if err != nil || strings.Join(got, ",") != strings.Join(want, ",") || len(g.Rejects) > 0 {
				c.AddViolation(driver.Violation{Tier: c.Tier, Job: c.Job, Scenario: "tagschema", Sig: "referrers (tag schema): delivered items differ from the index",
					Detail: fmt.Sprintf("n=%d filter=%q got %v err %v want %v rejects %v", n, at, got, err, want, g.Rejects)})
			}
		}
	}
}
