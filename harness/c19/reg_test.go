package c19

import (
	"bytes"
	"crypto/sha256"
	"encoding/hex"
	"encoding/json"
	"fmt"
	"io"
	"net/http"
	"strings"
	"sync"
)

// fakeReg is a minimal in-process registry for one repository ("reg.test/repo")
// speaking just the distribution-spec endpoints a push / existence check / pull
// needs. It is a remote.Client (no sockets). It verifies what a real registry
// (or the HTTP transport) verifies: body length = Content-Length, body digest =
// the digest named in the URL.
type fakeReg struct {
	mu        sync.Mutex
	blobs     map[string][]byte
	manifests map[string]regManifest
	sessions  map[string]bool
	next      int
	log       []string // mutating requests accepted
	refused   []string // requests the registry refused
}

type regManifest struct {
	mt   string
	data []byte
}

func newFakeReg() *fakeReg {
	return &fakeReg{blobs: map[string][]byte{}, manifests: map[string]regManifest{}, sessions: map[string]bool{}}
}

func shaHex(b []byte) string {
	s := sha256.Sum256(b)
	return "sha256:" + hex.EncodeToString(s[:])
}

func (r *fakeReg) putBlob(b []byte) { r.blobs[shaHex(b)] = append([]byte(nil), b...) }
func (r *fakeReg) putManifest(mt string, b []byte) {
	r.manifests[shaHex(b)] = regManifest{mt, append([]byte(nil), b...)}
}

func (r *fakeReg) resp(req *http.Request, code int, hdr map[string]string, body []byte) (*http.Response, error) {
	h := http.Header{}
	for k, v := range hdr {
		h.Set(k, v)
	}
	resp := &http.Response{
		Status: fmt.Sprintf("%d %s", code, http.StatusText(code)), StatusCode: code,
		Proto: "HTTP/1.1", ProtoMajor: 1, ProtoMinor: 1,
		Header: h, Request: req, ContentLength: int64(len(body)),
	}
	if req.Method == http.MethodHead {
		resp.Body = http.NoBody
	} else {
		resp.Body = io.NopCloser(bytes.NewReader(body))
	}
	return resp, nil
}

func (r *fakeReg) refuse(req *http.Request, code int, why string) (*http.Response, error) {
	r.refused = append(r.refused, fmt.Sprintf("%s %s: %s", req.Method, req.URL.Path, why))
	body, _ := json.Marshal(map[string]any{"errors": []map[string]string{{"code": "INVALID", "message": why}}})
	return r.resp(req, code, map[string]string{"Content-Type": "application/json"}, body)
}

func (r *fakeReg) Do(req *http.Request) (*http.Response, error) {
	var body []byte
	if req.Body != nil {
		body, _ = io.ReadAll(req.Body)
		req.Body.Close()
	}
	r.mu.Lock()
	defer r.mu.Unlock()
	if req.Method == http.MethodPut || req.Method == http.MethodPost {
		if req.ContentLength >= 0 && req.ContentLength != int64(len(body)) {
			// what net/http's transport does with such a request
			r.refused = append(r.refused, fmt.Sprintf("%s %s: ContentLength=%d with Body length %d", req.Method, req.URL.Path, req.ContentLength, len(body)))
			return nil, fmt.Errorf("http: ContentLength=%d with Body length %d", req.ContentLength, len(body))
		}
	}
	const pre = "/v2/repo/"
	p := req.URL.Path
	if req.URL.Host != "reg.test" || !strings.HasPrefix(p, pre) {
		return r.refuse(req, http.StatusNotFound, "unknown host or repository")
	}
	rest := p[len(pre):]
	switch {
	case rest == "blobs/uploads/" && req.Method == http.MethodPost:
		r.next++
		id := fmt.Sprintf("u%d", r.next)
		r.sessions[id] = true
		return r.resp(req, http.StatusAccepted, map[string]string{"Location": "https://reg.test/v2/repo/blobs/uploads/" + id}, nil)
	case strings.HasPrefix(rest, "blobs/uploads/") && req.Method == http.MethodPut:
		id := rest[len("blobs/uploads/"):]
		if !r.sessions[id] {
			return r.refuse(req, http.StatusNotFound, "unknown upload session")
		}
		delete(r.sessions, id)
		dg := req.URL.Query().Get("digest")
		if dg != shaHex(body) {
			return r.refuse(req, http.StatusBadRequest, "digest does not match the uploaded bytes")
		}
		r.blobs[dg] = body
		r.log = append(r.log, "blob "+dg)
		return r.resp(req, http.StatusCreated, map[string]string{"Location": "https://reg.test/v2/repo/blobs/" + dg, "Docker-Content-Digest": dg}, nil)
	case strings.HasPrefix(rest, "blobs/") && (req.Method == http.MethodGet || req.Method == http.MethodHead):
		dg := rest[len("blobs/"):]
		b, ok := r.blobs[dg]
		if !ok {
			return r.resp(req, http.StatusNotFound, nil, nil)
		}
		return r.resp(req, http.StatusOK, map[string]string{"Content-Type": "application/octet-stream", "Docker-Content-Digest": dg}, b)
	case strings.HasPrefix(rest, "manifests/") && req.Method == http.MethodPut:
		dg := rest[len("manifests/"):]
		if dg != shaHex(body) {
			return r.refuse(req, http.StatusBadRequest, "digest does not match the uploaded manifest")
		}
		mt := req.Header.Get("Content-Type")
		var m struct {
			MediaType string `json:"mediaType"`
			Subject   *struct {
				Digest string `json:"digest"`
			} `json:"subject"`
		}
		if err := json.Unmarshal(body, &m); err != nil {
			return r.refuse(req, http.StatusBadRequest, "manifest is not JSON")
		}
		if m.MediaType != "" && m.MediaType != mt {
			return r.refuse(req, http.StatusBadRequest, "manifest mediaType does not match Content-Type")
		}
		r.manifests[dg] = regManifest{mt, body}
		r.log = append(r.log, "manifest "+dg)
		hdr := map[string]string{"Location": "https://reg.test/v2/repo/manifests/" + dg, "Docker-Content-Digest": dg}
		if m.Subject != nil {
			hdr["OCI-Subject"] = m.Subject.Digest
		}
		return r.resp(req, http.StatusCreated, hdr, nil)
	case strings.HasPrefix(rest, "manifests/") && (req.Method == http.MethodGet || req.Method == http.MethodHead):
		dg := rest[len("manifests/"):]
		m, ok := r.manifests[dg]
		if !ok {
			return r.resp(req, http.StatusNotFound, nil, nil)
		}
		return r.resp(req, http.StatusOK, map[string]string{"Content-Type": m.mt, "Docker-Content-Digest": dg}, m.data)
	}
	return r.refuse(req, http.StatusNotFound, "no such endpoint")
}
