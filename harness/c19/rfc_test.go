package c19

// Hand-written recognisers used as the oracle's ground truth. Nothing here
// uses the library, regexp or the time package.

// rfc6838 reports whether s is `type-name "/" subtype-name` with both names a
// restricted-name of RFC 6838 section 4.2:
//
//	restricted-name       = restricted-name-first *126restricted-name-chars
//	restricted-name-first = ALPHA / DIGIT
//	restricted-name-chars = ALPHA / DIGIT / "!" / "#" / "$" / "&" / "-" / "^" / "_" / "." / "+"
func rfc6838(s string) bool {
	slash := -1
	for i := 0; i < len(s); i++ {
		if s[i] == '/' {
			slash = i
			break
		}
	}
	if slash < 0 {
		return false
	}
	return restrictedName(s[:slash]) && restrictedName(s[slash+1:])
}

func alnum(c byte) bool {
	return c >= 'a' && c <= 'z' || c >= 'A' && c <= 'Z' || c >= '0' && c <= '9'
}

func restrictedName(n string) bool {
	if len(n) < 1 || len(n) > 127 {
		return false
	}
	for i := 0; i < len(n); i++ {
		c := n[i]
		if alnum(c) {
			continue
		}
		if i == 0 {
			return false
		}
		switch c {
		case '!', '#', '$', '&', '-', '^', '_', '.', '+':
		default:
			return false
		}
	}
	return true
}

// rfc3339 classifies s against the date-time production of RFC 3339 section 5.6.
//
//	 1: conforming (upper-case "T" and "Z", every field in range)
//	 0: the RFC leaves it open / to the application: lower-case "t" or "z", a
//	    space instead of "T" (section 5.6 NOTEs) or second 60 (leap seconds) —
//	    such values are never judged
//	-1: not conforming
func rfc3339(s string) int {
	p := 0
	open := false
	num := func(n int) (int, bool) {
		if p+n > len(s) {
			return 0, false
		}
		v := 0
		for i := 0; i < n; i++ {
			c := s[p+i]
			if c < '0' || c > '9' {
				return 0, false
			}
			v = v*10 + int(c-'0')
		}
		p += n
		return v, true
	}
	lit := func(c byte) bool {
		if p < len(s) && s[p] == c {
			p++
			return true
		}
		return false
	}
	year, ok := num(4)
	if !ok || !lit('-') {
		return -1
	}
	month, ok := num(2)
	if !ok || !lit('-') {
		return -1
	}
	day, ok := num(2)
	if !ok {
		return -1
	}
	if month < 1 || month > 12 {
		return -1
	}
	dim := [...]int{31, 28, 31, 30, 31, 30, 31, 31, 30, 31, 30, 31}[month-1]
	if month == 2 && (year%4 == 0 && year%100 != 0 || year%400 == 0) {
		dim = 29
	}
	if day < 1 || day > dim {
		return -1
	}
	switch {
	case lit('T'):
	case lit('t'), lit(' '):
		open = true
	default:
		return -1
	}
	hour, ok := num(2)
	if !ok || !lit(':') {
		return -1
	}
	minute, ok := num(2)
	if !ok || !lit(':') {
		return -1
	}
	sec, ok := num(2)
	if !ok {
		return -1
	}
	if hour > 23 || minute > 59 || sec > 60 {
		return -1
	}
	if sec == 60 {
		open = true
	}
	if lit('.') {
		n := 0
		for p < len(s) && s[p] >= '0' && s[p] <= '9' {
			p++
			n++
		}
		if n == 0 {
			return -1
		}
	}
	switch {
	case lit('Z'):
	case lit('z'):
		open = true
	case lit('+'), lit('-'):
		oh, ok := num(2)
		if !ok || !lit(':') {
			return -1
		}
		om, ok := num(2)
		if !ok {
			return -1
		}
		if oh > 23 || om > 59 {
			return -1
		}
	default:
		return -1
	}
	if p != len(s) {
		return -1
	}
	if open {
		return 0
	}
	return 1
}
