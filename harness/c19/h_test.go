package c19

import (
	"bytes"
	"context"
	"encoding/json"
	"errors"
	"fmt"
	"io"
	"os"
	"reflect"
	"sort"
	"strings"
	"testing"

	"github.com/opencontainers/go-digest"
	ocispec "github.com/opencontainers/image-spec/specs-go/v1"
	oras "oras.land/oras-go/v2"
	"oras.land/oras-go/v2/content"
	"oras.land/oras-go/v2/content/file"
	"oras.land/oras-go/v2/content/memory"
	"oras.land/oras-go/v2/content/oci"
	"oras.land/oras-go/v2/errdef"
	. "oras.land/oras-go/v2/internal/zzverif/common"
	"oras.land/oras-go/v2/registry/remote"
	"verif.local/engine/driver"
)

func TestVerif(t *testing.T) {
	driver.Main(t, driver.Harness{
		ID:    "C19",
		Level: "exploration",
		Rule: "plain enumeration of calls PackManifest(v1.0 | v1.1 | invalid version 0,3,-1) and Pack(image | artifact) over: " +
			"artifactType in SWEEP = {every string of length <= 3 over {a,/,+,space,%,newline}; thorough: length <= 4, plus length <= 3 over those six and {A,0,.,-,_,!}} and CURATED = {empty, valid names incl. every allowed punctuation and 127-character names, 128-character names, missing/extra slash, parameters, padding, control characters, leading punctuation, non-ASCII, 19 disallowed punctuation characters: 52 strings}; " +
			"config option {none, none+ConfigAnnotations, none+empty ConfigAnnotations, none+ConfigAnnotations being the very map passed as ManifestAnnotations, descriptor valid, descriptor valid+ConfigAnnotations(ignored), descriptor of the empty-JSON type, descriptor with media type \"\" | containing a space | with a parameter | with a 128-character subtype}; " +
			"layers {nil, [], 1, 2}; subject {nil, set}; manifest annotations FULL = {nil, {}, other key, the other function family's created key, created+other key, created alone in 5 conforming, 3 application-defined and 40 malformed forms of 7 syntactic classes} and REPS (13 of FULL: one per class); " +
			"light targets {recording memory store, Pusher-only wrapper without Exists}, each fresh and already holding the placeholder blobs: ((SWEEP x REPS) u (CURATED x FULL)) x everything else (for the deprecated Pack, which only echoes artifactType, SWEEP runs against 3 annotation forms); " +
			"heavy targets {OCI layout on tmpfs, file store, remote repository over an in-process registry}, each fresh and already holding the blobs: 14 artifactType representatives x 8 of REPS (thorough: all 13) x everything else. " +
			"Every call goes through a Push recorder. Oracle: hand-written RFC 6838 and RFC 3339 recognisers decide the expected verdict; on success the manifest is fetched back from the target, hashed with crypto/sha256, re-parsed with the harness's own structs and compared field by field with the request, each invented blob is fetched, CopyGraph to an empty memory store must succeed and deliver every referenced node, and the call is repeated with identical inputs (same target, and a fresh one for light targets) when created is fixed. " +
			"evaluations = calls judged; non-trivial = distinct (target, function, artifactType class empty|valid|invalid, config option, layers, subject, annotation form) whose call succeeded and went through the whole success-side oracle, or that had to be rejected and whose Push log was inspected",
		Assumptions: []string{
			"lower-case t/z, a space instead of T and second 60 in a created value are left to the application by RFC 3339 and are not judged either way",
			"a call that is rejected although the statement would allow it is counted (unexpected_reject) but not judged: the statement has no such clause",
			"invalid PackManifestVersion values are exercised and counted but not judged (the statement is silent)",
			"layer and subject media types are always well-formed: the documented validation covers artifactType and the config media type only",
			"the remote target is an in-process registry model that checks body length and digest like a real registry; referrers capability is preset so that no referrers-index traffic is generated",
		},
		Jobs:           jobs,
		BudgetQuick:    240,
		BudgetThorough: 900,
	})
}

// ---- vocabulary (written out here on purpose: the oracle does not take these from the library)

const (
	mtImage           = "application/vnd.oci.image.manifest.v1+json"
	mtArtifact        = "application/vnd.oci.artifact.manifest.v1+json"
	mtEmpty           = "application/vnd.oci.empty.v1+json"
	mtUnknownConfig   = "application/vnd.unknown.config.v1+json"
	mtUnknownArtifact = "application/vnd.unknown.artifact.v1"
	keyImageCreated   = "org.opencontainers.image.created"
	keyArtCreated     = "org.opencontainers.artifact.created"
)

type blob struct {
	desc ocispec.Descriptor
	data []byte
}

func mk(mt string, data string, ann map[string]string) blob {
	b := []byte(data)
	return blob{ocispec.Descriptor{MediaType: mt, Digest: digest.Digest(shaHex(b)), Size: int64(len(b)), Annotations: ann}, b}
}

var (
	layer1   = mk("application/vnd.oci.image.layer.v1.tar", "layer-one", nil)
	layer2   = mk("application/vnd.test.layer", "layer-two-bytes", map[string]string{"com.example.l": "2"})
	subjCfg  = mk("application/vnd.test.subject.config+json", `{"subject":"config"}`, nil)
	subjBlob = func() blob {
		m := fmt.Sprintf(`{"schemaVersion":2,"mediaType":%q,"config":{"mediaType":%q,"digest":%q,"size":%d},"layers":[]}`,
			mtImage, subjCfg.desc.MediaType, subjCfg.desc.Digest, subjCfg.desc.Size)
		b := mk(mtImage, m, map[string]string{"com.example.s": "x"})
		b.desc.ArtifactType = "application/vnd.test.subject"
		return b
	}()
	emptyBlob = mk(mtEmpty, "{}", nil)
)

type fn int

const (
	fPM10 fn = iota
	fPM11
	fPMbad
	fPackImg
	fPackArt
)

var fnName = map[fn]string{fPM10: "PackManifest v1.0", fPM11: "PackManifest v1.1", fPMbad: "PackManifest invalid version", fPackImg: "Pack image", fPackArt: "Pack artifact"}

type cfgOpt struct {
	name string
	blob *blob             // user-supplied config (nil = none)
	ann  map[string]string // ConfigAnnotations
	// shared: ConfigAnnotations is the very map passed as ManifestAnnotations (one map for both options)
	shared bool
}

func cfgOpts() []cfgOpt {
	userData := `{"user":"config"}`
	d := func(mt string, data string, ann map[string]string) *blob { b := mk(mt, data, ann); return &b }
	ca := map[string]string{"com.example.cfg": "v"}
	return []cfgOpt{
		{name: "none"},
		{name: "none+ConfigAnnotations", ann: ca},
		{name: "none+empty ConfigAnnotations", ann: map[string]string{}},
		{name: "none+ConfigAnnotations = the map passed as ManifestAnnotations", shared: true},
		{name: "descriptor(valid)", blob: d("application/vnd.test.config.v1+json", userData, map[string]string{"com.example.c": "1"}), ann: nil},
		{name: "descriptor(valid)+ConfigAnnotations", blob: d("application/vnd.test.config.v1+json", userData, nil), ann: ca},
		{name: "descriptor(empty-JSON type)", blob: d(mtEmpty, "{}", nil), ann: nil},
		// the bytes of the empty JSON object under a custom media type: shares its digest, not its identity, with the placeholder blob
		{name: "descriptor(custom type, content {})", blob: d("application/vnd.test.config.v1+json", "{}", nil), ann: nil},
		{name: "descriptor(media type \"\")", blob: d("", userData, nil), ann: nil},
		{name: "descriptor(media type with space)", blob: d("application/x y", userData, nil), ann: nil},
		{name: "descriptor(media type with parameter)", blob: d("application/json; charset=utf-8", userData, nil), ann: nil},
		{name: "descriptor(128-character subtype)", blob: d("application/"+strings.Repeat("s", 128), userData, nil), ann: nil},
	}
}

type annOpt struct {
	name  string
	m     map[string]string
	rep   bool
	class string // for a malformed created value: its syntactic class
}

var createdForms = []struct {
	v, class string
	rep      bool
}{
	// conforming
	{"2023-01-02T03:04:05Z", "", true},
	{"2023-01-02T03:04:05.123456789+08:00", "", false},
	{"2023-01-02T03:04:05-00:00", "", false},
	{"0000-01-01T00:00:00Z", "", false},
	{"2024-02-29T23:59:59.5-23:59", "", false},
	// left to the application by the RFC
	{"2023-01-02t03:04:05z", "", true},
	{"2023-01-02 03:04:05Z", "", false},
	{"2016-12-31T23:59:60Z", "", false},
	// malformed
	{"", "not a date-time", true},
	{"1672628645", "not a date-time", false},
	{"Mon, 02 Jan 2023 03:04:05 GMT", "not a date-time", false},
	{"yesterday", "not a date-time", false},
	{" 2023-01-02T03:04:05Z", "extra characters around a date-time", false},
	{"2023-01-02T03:04:05Z\n", "extra characters around a date-time", false},
	{"2023-01-02T03:04:05ZZ", "extra characters around a date-time", false},
	{"+2023-01-02T03:04:05Z", "extra characters around a date-time", false},
	{"2023-01-02T03:04:05 +08:00", "extra characters around a date-time", false},
	{"2023-01-02", "missing component", true},
	{"2023-01-02T03:04:05", "missing component", false},
	{"2023-01-02T03:04:05.5", "missing component", false},
	{"2023-01-02T03:04:05+08", "missing component", false},
	{"2023-01-02T03:04Z", "missing component", false},
	{"2023-01-02T03:04:05.Z", "missing component", false},
	{"T03:04:05Z", "missing component", false},
	{"2023-13-02T03:04:05Z", "date or time field out of range", true},
	{"2023-00-02T03:04:05Z", "date or time field out of range", false},
	{"2023-01-00T03:04:05Z", "date or time field out of range", false},
	{"2023-01-32T03:04:05Z", "date or time field out of range", false},
	{"2023-02-30T03:04:05Z", "date or time field out of range", false},
	{"2023-02-29T03:04:05Z", "date or time field out of range", false},
	{"2023-01-02T24:04:05Z", "date or time field out of range", false},
	{"2023-01-02T03:60:05Z", "date or time field out of range", false},
	{"2023-01-02T03:04:61Z", "date or time field out of range", false},
	{"2023-01-02T3:04:05Z", "wrong field width", true},
	{"2023-01-02T03:4:05Z", "wrong field width", false},
	{"2023-01-02T03:04:5Z", "wrong field width", false},
	{"23-01-02T03:04:05Z", "wrong field width", false},
	{"12023-01-02T03:04:05Z", "wrong field width", false},
	{"2023-1-2T03:04:05Z", "wrong field width", false},
	{"2023-01-02T03:04:05+8:00", "wrong field width", false},
	{"2023-01-02T03:04:05,5Z", "wrong separator", true},
	{"2023-01-02T03:04:05+0800", "wrong separator", false},
	{"2023/01/02T03:04:05Z", "wrong separator", false},
	{"2023-01-02T03.04.05Z", "wrong separator", false},
	{"2023-01-02_03:04:05Z", "wrong separator", false},
	{"2023-01-02T03:04:05+24:00", "numeric offset out of range", true},
	{"2023-01-02T03:04:05+08:60", "numeric offset out of range", false},
	{"2023-01-02T03:04:05-99:99", "numeric offset out of range", false},
}

func createdKey(f fn) string {
	if f == fPackArt {
		return keyArtCreated
	}
	return keyImageCreated
}

func annOpts(f fn) []annOpt {
	rk, ok := createdKey(f), keyArtCreated
	if f == fPackArt {
		ok = keyImageCreated
	}
	out := []annOpt{
		{"nil", nil, true, ""},
		{"{}", map[string]string{}, true, ""},
		{"other key", map[string]string{"com.example.k": "v"}, true, ""},
		{"the other family's created key, not a time", map[string]string{ok: "not-a-time"}, true, ""},
		{"created(conforming)+other key", map[string]string{rk: "2001-02-03T04:05:06+07:00", "com.example.k": "v<&>"}, true, ""},
	}
	for _, cf := range createdForms {
		out = append(out, annOpt{fmt.Sprintf("created=%q", cf.v), map[string]string{rk: cf.v}, cf.rep, cf.class})
	}
	return out
}

// ---- artifactType alphabets

func sweep(alpha string, maxLen int) []string {
	var out []string
	var rec func(prefix string)
	rec = func(prefix string) {
		if len(prefix) > 0 {
			out = append(out, prefix)
		}
		if len(prefix) == maxLen {
			return
		}
		for i := 0; i < len(alpha); i++ {
			rec(prefix + alpha[i:i+1])
		}
	}
	rec("")
	return out
}

var (
	n127 = strings.Repeat("n", 127)
	n128 = strings.Repeat("n", 128)
)

func curated() []string {
	return []string{
		"", "application/vnd.test.artifact.v1+json", "a/b", "A/B", "1/2", "A0!#$&-^_.+/Z9!#$&-^_.+",
		n127 + "/" + n127, n128 + "/b", "b/" + n128, n128 + "/" + n128,
		mtEmpty, mtUnknownConfig,
		"application", "application/", "/json", "/", "a/b/c", "a//b", "a/b;q=1", "text/plain; charset=utf-8",
		"a/b ", " a/b", "a/b\n", "\na/b", "a/b\r\n", "a/b\x00", "a b/c", "a/b c",
		".a/b", "a/.b", "+a/b", "a/+b", "-a/b", "a/_b", "!a/b",
		"é/b", "a/é", "a/b*", "a/b(c)", "a\\b", "a/b%", "a/b'", "a/b\"", "a/b,c", "a/b=c", "a/b?c", "a/b@c", "a/b~", "a/b|c", "a/{b}", "a/<b>",
	}
}

func heavyAT() []string {
	return []string{"", "application/vnd.test.artifact.v1+json", "a/a", "A0!#$&-^_.+/Z9!#$&-^_.+", n127 + "/" + n127, n128 + "/b", "b/" + n128,
		mtEmpty, "a", "a/b\n", "a /b", "a/b/c", "%/a", "+a/a"}
}

func atClass(s string) string {
	switch {
	case s == "":
		return "empty"
	case rfc6838(s):
		return "valid"
	}
	return "invalid"
}

// ---- one case

type tcase struct {
	f    fn
	ver  int
	at   string
	c    *cfgOpt
	ci   int
	nl   int // -1 nil, 0 empty slice, 1, 2
	subj bool
	m    *annOpt
	mi   int
}

func (tc *tcase) String() string {
	ls := map[int]string{-1: "nil", 0: "[]", 1: "[L1]", 2: "[L1,L2]"}[tc.nl]
	v := ""
	if tc.f == fPMbad {
		v = fmt.Sprintf("(%d)", tc.ver)
	}
	return fmt.Sprintf("%s%s artifactType=%q config=%s layers=%s subject=%v annotations=%s", fnName[tc.f], v, short(tc.at), tc.c.name, ls, tc.subj, tc.m.name)
}

func short(s string) string {
	if len(s) > 60 {
		return fmt.Sprintf("%s…(%d bytes)", s[:24], len(s))
	}
	return s
}

func copyMap(m map[string]string) map[string]string {
	if m == nil {
		return nil
	}
	out := make(map[string]string, len(m))
	for k, v := range m {
		out[k] = v
	}
	return out
}

func copyDesc(d ocispec.Descriptor) ocispec.Descriptor {
	d.Annotations = copyMap(d.Annotations)
	return d
}

// cfgAnn is what was requested as the config's annotations: the ConfigAnnotations option, which in one
// variant is the very map (hence the content) of the manifest annotations as the caller passed them.
func (tc *tcase) cfgAnn() map[string]string {
	if tc.c.shared {
		return tc.m.m
	}
	return tc.c.ann
}

func (tc *tcase) layers() []ocispec.Descriptor {
	switch tc.nl {
	case -1:
		return nil
	case 0:
		return []ocispec.Descriptor{}
	case 1:
		return []ocispec.Descriptor{copyDesc(layer1.desc)}
	}
	return []ocispec.Descriptor{copyDesc(layer1.desc), copyDesc(layer2.desc)}
}

// userBlobs is what the caller is responsible for having in the target.
func (tc *tcase) userBlobs() []blob {
	var out []blob
	if tc.nl >= 1 {
		out = append(out, layer1)
	}
	if tc.nl >= 2 {
		out = append(out, layer2)
	}
	if tc.subj {
		out = append(out, subjCfg, subjBlob)
	}
	if tc.c.blob != nil && tc.f != fPackArt {
		out = append(out, *tc.c.blob)
	}
	return out
}

func call(tc *tcase, p content.Pusher) (d ocispec.Descriptor, err error, pan string) {
	defer func() {
		if r := recover(); r != nil {
			pan = fmt.Sprint(r)
		}
	}()
	ctx := context.Background()
	var subj, cd *ocispec.Descriptor
	if tc.subj {
		s := copyDesc(subjBlob.desc)
		subj = &s
	}
	if tc.c.blob != nil {
		x := copyDesc(tc.c.blob.desc)
		cd = &x
	}
	mAnn, cAnn := copyMap(tc.m.m), copyMap(tc.c.ann)
	if tc.c.shared {
		cAnn = mAnn
	}
	switch tc.f {
	case fPM10, fPM11, fPMbad:
		v := oras.PackManifestVersion(tc.ver)
		if tc.f == fPM10 {
			v = oras.PackManifestVersion1_0
		} else if tc.f == fPM11 {
			v = oras.PackManifestVersion1_1
		}
		d, err = oras.PackManifest(ctx, p, v, tc.at, oras.PackManifestOptions{
			Subject: subj, Layers: tc.layers(), ManifestAnnotations: mAnn, ConfigDescriptor: cd, ConfigAnnotations: cAnn})
	default:
		d, err = oras.Pack(ctx, p, tc.at, tc.layers(), oras.PackOptions{
			Subject: subj, ManifestAnnotations: mAnn, PackImageManifest: tc.f == fPackImg, ConfigDescriptor: cd, ConfigAnnotations: cAnn})
	}
	return
}

// ---- expectation (ground truth derived from the documented rules only)

type want struct {
	d           ocispec.Descriptor
	placeholder bool // invented by the function: data may be embedded ("{}") or absent
}

type exp struct {
	judged       bool
	rejectPre    []string // reasons that demand a rejection before any Push
	createdBad   string   // class of a malformed created value ("" = fine)
	createdGiven bool
	mediaType    string
	config       *want
	layers       []want
	subject      *ocispec.Descriptor
	artifactType string
	invented     []blob
}

func placeholder(mt string, ann map[string]string) want {
	d := emptyBlob.desc
	d.MediaType = mt
	d.Annotations = ann
	return want{d, true}
}

func expect(tc *tcase) *exp {
	e := &exp{judged: true, mediaType: mtImage}
	if tc.f == fPMbad {
		e.judged = false
		return e
	}
	for _, l := range tc.layers() {
		e.layers = append(e.layers, want{l, false})
	}
	if tc.subj {
		s := subjBlob.desc
		e.subject = &s
	}
	invent := func(w want) {
		for _, b := range e.invented {
			if b.desc.MediaType == w.d.MediaType {
				return
			}
		}
		d := w.d
		d.Annotations = nil
		e.invented = append(e.invented, blob{d, []byte("{}")})
	}
	switch tc.f {
	case fPM10:
		if tc.subj {
			e.rejectPre = append(e.rejectPre, "subject with manifest version 1.0")
		}
		if tc.c.blob != nil {
			if !rfc6838(tc.c.blob.desc.MediaType) {
				e.rejectPre = append(e.rejectPre, "config media type violating RFC 6838")
			}
			e.config = &want{tc.c.blob.desc, false}
		} else {
			mt := tc.at
			if mt == "" {
				mt = mtUnknownConfig
			} else if !rfc6838(mt) {
				e.rejectPre = append(e.rejectPre, "artifactType violating RFC 6838")
			}
			w := placeholder(mt, tc.cfgAnn())
			e.config = &w
			invent(w)
		}
		e.subject = nil
	case fPM11:
		if tc.at == "" && (tc.c.blob == nil || tc.c.blob.desc.MediaType == mtEmpty) {
			e.rejectPre = append(e.rejectPre, "missing artifact type")
		}
		if tc.at != "" && !rfc6838(tc.at) {
			e.rejectPre = append(e.rejectPre, "artifactType violating RFC 6838")
		}
		if tc.c.blob != nil {
			if !rfc6838(tc.c.blob.desc.MediaType) {
				e.rejectPre = append(e.rejectPre, "config media type violating RFC 6838")
			}
			e.config = &want{tc.c.blob.desc, false}
		} else {
			w := placeholder(mtEmpty, tc.cfgAnn())
			e.config = &w
			invent(w)
		}
		if len(e.layers) == 0 {
			w := placeholder(mtEmpty, nil)
			e.layers = []want{w}
			invent(w)
		}
		e.artifactType = tc.at
	case fPackImg:
		if tc.c.blob != nil {
			e.config = &want{tc.c.blob.desc, false}
		} else {
			mt := tc.at
			if mt == "" {
				mt = mtUnknownConfig
			}
			w := placeholder(mt, tc.cfgAnn())
			e.config = &w
			invent(w)
		}
	case fPackArt:
		e.mediaType = mtArtifact
		e.artifactType = tc.at
		if e.artifactType == "" {
			e.artifactType = mtUnknownArtifact
		}
	}
	if v, ok := tc.m.m[createdKey(tc.f)]; ok {
		e.createdGiven = true
		if rfc3339(v) < 0 {
			e.createdBad = tc.m.class
			if e.createdBad == "" {
				e.createdBad = "malformed"
			}
		}
	}
	return e
}

// ---- targets

type pushRec struct {
	desc ocispec.Descriptor
	data []byte
	err  error
}

type recorder struct {
	inner  content.Storage
	pushes []pushRec
}

func (r *recorder) Push(ctx context.Context, d ocispec.Descriptor, rd io.Reader) error {
	b, _ := io.ReadAll(rd)
	err := r.inner.Push(ctx, d, bytes.NewReader(b))
	r.pushes = append(r.pushes, pushRec{d, b, err})
	return err
}

type recFull struct{ *recorder }

func (r recFull) Fetch(ctx context.Context, d ocispec.Descriptor) (io.ReadCloser, error) {
	return r.inner.Fetch(ctx, d)
}
func (r recFull) Exists(ctx context.Context, d ocispec.Descriptor) (bool, error) {
	return r.inner.Exists(ctx, d)
}

type recPushOnly struct{ r *recorder }

func (r recPushOnly) Push(ctx context.Context, d ocispec.Descriptor, rd io.Reader) error {
	return r.r.Push(ctx, d, rd)
}

type target struct {
	kind    string
	inner   content.Storage
	rec     *recorder
	pusher  content.Pusher
	reg     *fakeReg
	cleanup func()
}

func newTarget(kind string, pre []blob) *target {
	t := &target{kind: kind, cleanup: func() {}}
	switch kind {
	case "memory", "pushonly":
		t.inner = memory.New()
	case "oci":
		dir := Scratch("c19oci")
		s, err := oci.New(dir)
		if err != nil {
			panic(err)
		}
		t.inner, t.cleanup = s, func() { os.RemoveAll(dir) }
	case "file":
		dir := Scratch("c19file")
		s, err := file.New(dir)
		if err != nil {
			panic(err)
		}
		t.inner, t.cleanup = s, func() { s.Close(); os.RemoveAll(dir) }
	case "remote":
		repo, err := remote.NewRepository("reg.test/repo")
		if err != nil {
			panic(err)
		}
		t.reg = newFakeReg()
		repo.Client = t.reg
		repo.SetReferrersCapability(true)
		t.inner = repo
	default:
		panic("unknown target kind " + kind)
	}
	ctx := context.Background()
	for _, b := range pre {
		if t.reg != nil {
			if b.desc.MediaType == mtImage {
				t.reg.putManifest(b.desc.MediaType, b.data)
			} else {
				t.reg.putBlob(b.data)
			}
			continue
		}
		if err := t.inner.Push(ctx, b.desc, bytes.NewReader(b.data)); err != nil && !errors.Is(err, errdef.ErrAlreadyExists) {
			panic(fmt.Sprintf("cannot prepare %s target: %v", kind, err))
		}
	}
	t.rec = &recorder{inner: t.inner}
	if kind == "pushonly" {
		t.pusher = recPushOnly{t.rec}
	} else {
		t.pusher = recFull{t.rec}
	}
	return t
}

func fetch(st content.ReadOnlyStorage, d ocispec.Descriptor) ([]byte, error) {
	rc, err := st.Fetch(context.Background(), d)
	if err != nil {
		return nil, err
	}
	defer rc.Close()
	return io.ReadAll(rc)
}

func isManifestPush(p pushRec) bool {
	switch p.desc.MediaType {
	case mtImage, mtArtifact, "application/vnd.oci.image.index.v1+json":
		return true
	}
	return !bytes.Equal(p.data, []byte("{}"))
}

// ---- the harness's own view of a manifest

type jdesc struct {
	MediaType    string            `json:"mediaType"`
	Digest       string            `json:"digest"`
	Size         int64             `json:"size"`
	URLs         []string          `json:"urls"`
	Annotations  map[string]string `json:"annotations"`
	Data         []byte            `json:"data"`
	Platform     json.RawMessage   `json:"platform"`
	ArtifactType string            `json:"artifactType"`
}

type jmanifest struct {
	SchemaVersion *int              `json:"schemaVersion"`
	MediaType     string            `json:"mediaType"`
	ArtifactType  string            `json:"artifactType"`
	Config        *jdesc            `json:"config"`
	Layers        []jdesc           `json:"layers"`
	Blobs         []jdesc           `json:"blobs"`
	Subject       *jdesc            `json:"subject"`
	Annotations   map[string]string `json:"annotations"`
}

func mapEq(a, b map[string]string) bool {
	if len(a) != len(b) {
		return false
	}
	for k, v := range a {
		if w, ok := b[k]; !ok || w != v {
			return false
		}
	}
	return true
}

func fmtMap(m map[string]string) string {
	keys := make([]string, 0, len(m))
	for k := range m {
		keys = append(keys, k)
	}
	sort.Strings(keys)
	var sb strings.Builder
	sb.WriteString("{")
	for _, k := range keys {
		fmt.Fprintf(&sb, "%q:%q ", k, m[k])
	}
	return sb.String() + "}"
}

func descDiff(w want, g *jdesc) string {
	if g == nil {
		return "absent"
	}
	var diffs []string
	add := func(f string, a ...any) { diffs = append(diffs, fmt.Sprintf(f, a...)) }
	if g.MediaType != w.d.MediaType {
		add("mediaType %q, want %q", short(g.MediaType), short(w.d.MediaType))
	}
	if g.Digest != string(w.d.Digest) {
		add("digest %s, want %s", g.Digest, w.d.Digest)
	}
	if g.Size != w.d.Size {
		add("size %d, want %d", g.Size, w.d.Size)
	}
	if !mapEq(g.Annotations, w.d.Annotations) {
		add("annotations %s, want %s", fmtMap(g.Annotations), fmtMap(w.d.Annotations))
	}
	if g.ArtifactType != w.d.ArtifactType {
		add("artifactType %q, want %q", g.ArtifactType, w.d.ArtifactType)
	}
	if len(g.URLs) != len(w.d.URLs) || len(g.Platform) != 0 {
		add("unexpected urls/platform")
	}
	if w.placeholder {
		if len(g.Data) != 0 && string(g.Data) != "{}" {
			add("embedded data %q does not match the digest", g.Data)
		}
	} else if !bytes.Equal(g.Data, w.d.Data) {
		add("data %q, want %q", g.Data, w.d.Data)
	}
	return strings.Join(diffs, "; ")
}

func trunc(b []byte) string {
	if len(b) > 700 {
		return string(b[:700]) + "…"
	}
	return string(b)
}

// verifySuccess judges a successful call. It returns "" or (clause, detail).
func verifySuccess(tc *tcase, e *exp, t *target, got ocispec.Descriptor) (string, string) {
	fam := fnName[tc.f]
	if got.MediaType != e.mediaType {
		return fam + ": returned descriptor has the wrong media type", fmt.Sprintf("returned %q, documented %q", got.MediaType, e.mediaType)
	}
	var mpush *pushRec
	for i := range t.rec.pushes {
		if isManifestPush(t.rec.pushes[i]) {
			mpush = &t.rec.pushes[i]
		}
	}
	if mpush != nil && (mpush.desc.Digest != got.Digest || mpush.desc.Size != got.Size || mpush.desc.MediaType != got.MediaType) {
		return fam + ": returned descriptor differs from the one the manifest was pushed with", fmt.Sprintf("pushed %s %s size %d, returned %s %s size %d", mpush.desc.MediaType, mpush.desc.Digest, mpush.desc.Size, got.MediaType, got.Digest, got.Size)
	}
	data, err := fetch(t.inner, got)
	if err != nil {
		return fam + ": returned descriptor cannot be fetched from the target (" + t.kind + ")", err.Error()
	}
	if dg := shaHex(data); dg != string(got.Digest) || int64(len(data)) != got.Size {
		return fam + ": returned digest/size are not those of the stored bytes", fmt.Sprintf("descriptor %s size %d; stored bytes %s size %d", got.Digest, got.Size, dg, len(data))
	}
	if mpush != nil && !bytes.Equal(mpush.data, data) {
		return fam + ": stored bytes are not the bytes that were pushed", fmt.Sprintf("pushed %q\nstored %q", trunc(mpush.data), trunc(data))
	}
	var m jmanifest
	if err := json.Unmarshal(data, &m); err != nil {
		return fam + ": stored bytes do not parse as a manifest", err.Error() + "\n" + trunc(data)
	}
	if m.MediaType != got.MediaType {
		return fam + ": manifest mediaType field differs from the returned media type", fmt.Sprintf("%q vs %q", m.MediaType, got.MediaType)
	}
	if e.mediaType == mtImage {
		if m.SchemaVersion == nil || *m.SchemaVersion != 2 {
			return fam + ": image manifest without schemaVersion 2", trunc(data)
		}
		if d := descDiff(*e.config, m.Config); d != "" {
			return fam + ": manifest config is not the requested one", d + "\n" + trunc(data)
		}
		if len(m.Blobs) != 0 {
			return fam + ": image manifest with a blobs field", trunc(data)
		}
	}
	gotLayers := m.Layers
	if e.mediaType == mtArtifact {
		gotLayers = m.Blobs
	}
	if len(gotLayers) != len(e.layers) {
		return fam + ": manifest layers are not the requested ones", fmt.Sprintf("%d layers, want %d\n%s", len(gotLayers), len(e.layers), trunc(data))
	}
	for i := range e.layers {
		if d := descDiff(e.layers[i], &gotLayers[i]); d != "" {
			return fam + ": manifest layers are not the requested ones", fmt.Sprintf("layer %d: %s\n%s", i, d, trunc(data))
		}
	}
	switch {
	case e.subject == nil && m.Subject != nil:
		return fam + ": manifest subject is not the requested one", "unexpected subject\n" + trunc(data)
	case e.subject != nil:
		if d := descDiff(want{*e.subject, false}, m.Subject); d != "" {
			return fam + ": manifest subject is not the requested one", d + "\n" + trunc(data)
		}
	}
	if m.ArtifactType != e.artifactType {
		return fam + ": manifest artifactType is not the requested one", fmt.Sprintf("%q, want %q", short(m.ArtifactType), short(e.artifactType))
	}
	wantAnn := copyMap(tc.m.m)
	ck := createdKey(tc.f)
	if !e.createdGiven {
		v, ok := m.Annotations[ck]
		if !ok {
			return fam + ": no created timestamp filled in", fmtMap(m.Annotations)
		}
		if rfc3339(v) != 1 {
			return fam + ": filled-in created timestamp is not RFC 3339", fmt.Sprintf("%q", v)
		}
		if wantAnn == nil {
			wantAnn = map[string]string{}
		}
		wantAnn[ck] = v
	}
	if !mapEq(m.Annotations, wantAnn) {
		return fam + ": manifest annotations are not the requested ones", fmt.Sprintf("%s, want %s", fmtMap(m.Annotations), fmtMap(wantAnn))
	}
	// blobs the function invented must be in the target
	for _, inv := range e.invented {
		b, err := fetch(t.inner, inv.desc)
		if err != nil {
			return fam + ": invented placeholder blob is not in the target", fmt.Sprintf("%s %s: %v", inv.desc.MediaType, inv.desc.Digest, err)
		}
		if string(b) != "{}" {
			return fam + ": invented placeholder blob has wrong content", fmt.Sprintf("%q", b)
		}
	}
	// the result can be copied
	dst := memory.New()
	ctx := context.Background()
	if err := oras.CopyGraph(ctx, t.inner, dst, got, oras.DefaultCopyGraphOptions); err != nil {
		return fam + ": CopyGraph of the packed manifest fails", err.Error() + "\n" + trunc(data)
	}
	need := []ocispec.Descriptor{got}
	if e.config != nil {
		need = append(need, e.config.d)
	}
	for _, l := range e.layers {
		need = append(need, l.d)
	}
	if e.subject != nil {
		need = append(need, *e.subject, subjCfg.desc)
	}
	for _, d := range need {
		if ok, err := dst.Exists(ctx, d); err != nil || !ok {
			return fam + ": CopyGraph of the packed manifest left a referenced node behind", fmt.Sprintf("%s %s", d.MediaType, d.Digest)
		}
	}
	return "", ""
}

// ---- evaluation of one case on one target kind

type runner struct {
	c    *driver.Ctx
	kind string
	held bool
}

func (r *runner) targetName() string {
	n := map[string]string{"memory": "recording memory store", "pushonly": "Pusher-only target", "oci": "OCI layout", "file": "file store", "remote": "remote repository"}[r.kind]
	if r.held {
		n += " already holding the blobs"
	}
	return n
}

func (r *runner) violate(tc *tcase, sig, detail string) {
	if rp := r.c.Replay; rp != nil && (rp.Sig != sig || rp.Scenario != tc.String()) {
		return // replaying one recorded violation: report only that one
	}
	r.c.AddViolation(driver.Violation{Tier: r.c.Tier, Job: r.c.Job, Scenario: tc.String(), Sig: sig,
		Detail: "call: " + tc.String() + "\ntarget: " + r.targetName() + "\n" + detail})
}

func pushLog(ps []pushRec) string {
	var sb strings.Builder
	for i, p := range ps {
		fmt.Fprintf(&sb, "  push %d: %s %s size %d bytes=%q err=%v\n", i+1, short(p.desc.MediaType), p.desc.Digest, p.desc.Size, trunc(p.data), p.err)
	}
	return sb.String()
}

func (r *runner) eval(tc *tcase) {
	c := r.c
	e := expect(tc)
	pre := tc.userBlobs()
	if r.held {
		pre = append(pre, e.invented...)
	}
	t := newTarget(r.kind, pre)
	defer t.cleanup()
	got, err, pan := call(tc, t.pusher)
	if !e.judged {
		c.Count("invalid_version_calls", 1)
		if err == nil && pan == "" {
			c.Count("invalid_version_accepted", 1)
		}
		if len(t.rec.pushes) > 0 {
			c.Count("invalid_version_pushes", 1)
		}
		c.Outcome(driver.Hash("unjudged", fmt.Sprint(err == nil)))
		return
	}
	c.Evals++
	fam := fnName[tc.f]
	key := driver.Hash(r.kind, fmt.Sprint(r.held), fam, atClass(tc.at), fmt.Sprint(tc.ci, tc.nl, tc.subj, tc.mi))
	if pan != "" {
		r.violate(tc, fam+": panic", pan)
		return
	}
	switch {
	case len(e.rejectPre) > 0:
		c.Nontriv(key)
		c.Count("expected_reject_before_push", 1)
		c.Outcome(driver.Hash(fam, "pre", e.rejectPre[0], fmt.Sprint(err == nil, len(t.rec.pushes))))
		if err == nil {
			r.violate(tc, fam+": "+e.rejectPre[0]+" accepted", fmt.Sprintf("returned %s %s\n%s", got.MediaType, got.Digest, pushLog(t.rec.pushes)))
		} else if len(t.rec.pushes) > 0 {
			r.violate(tc, fam+": "+e.rejectPre[0]+" rejected only after a Push", "error: "+err.Error()+"\n"+pushLog(t.rec.pushes))
		}
	case e.createdBad != "":
		c.Nontriv(key)
		c.Count("expected_reject_created", 1)
		nm := 0
		for _, p := range t.rec.pushes {
			if isManifestPush(p) {
				nm++
			}
		}
		c.Outcome(driver.Hash(fam, "created", e.createdBad, fmt.Sprint(err == nil, nm)))
		if err == nil {
			r.violate(tc, "created annotation violating RFC 3339 accepted: "+e.createdBad,
				fmt.Sprintf("%s=%q was accepted and written into the manifest %s", createdKey(tc.f), tc.m.m[createdKey(tc.f)], got.Digest))
		} else if nm > 0 {
			r.violate(tc, fam+": malformed created rejected only after the manifest was pushed", "error: "+err.Error()+"\n"+pushLog(t.rec.pushes))
		}
	case err != nil:
		c.Count("unexpected_reject", 1)
		c.Count("unexpected_reject: "+fam+" / "+ErrClass(err), 1)
		c.Outcome(driver.Hash(fam, "unexpected", ErrClass(err)))
	default:
		c.Nontriv(key)
		c.Count("success_verified", 1)
		if len(e.invented) > 0 {
			c.Count("success_with_invented_blob", 1)
		}
		c.Outcome(driver.Hash(fam, "ok", fmt.Sprint(len(t.rec.pushes))))
		if sig, detail := verifySuccess(tc, e, t, got); sig != "" {
			r.violate(tc, sig, detail+"\n"+pushLog(t.rec.pushes))
			return
		}
		if t.reg != nil && len(t.reg.refused) > 0 {
			r.violate(tc, fam+": a request was refused by the registry although the call succeeded", strings.Join(t.reg.refused, "\n"))
			return
		}
		npush := len(t.rec.pushes)
		if e.createdGiven {
			// identical inputs, fixed created: same target (now holding everything) and a fresh one
			c.Count("determinism_checked", 1)
			got2, err2, pan2 := call(tc, t.pusher)
			if pan2 != "" || err2 != nil || !reflect.DeepEqual(got, got2) {
				r.violate(tc, fam+": identical inputs with a fixed created do not give an identical descriptor (second call on the same target)",
					fmt.Sprintf("first %+v\nsecond %+v err=%v panic=%s", got, got2, err2, pan2))
				return
			}
			if r.kind == "memory" || r.kind == "pushonly" {
				t3 := newTarget(r.kind, pre)
				got3, err3, pan3 := call(tc, t3.pusher)
				t3.cleanup()
				if pan3 != "" || err3 != nil || !reflect.DeepEqual(got, got3) {
					r.violate(tc, fam+": identical inputs with a fixed created do not give an identical descriptor (fresh target)",
						fmt.Sprintf("first %+v\nthird %+v err=%v panic=%s", got, got3, err3, pan3))
					return
				}
			}
		}
		if len(e.invented) > 0 && !r.held && tc.mi == 4 {
			data, _ := fetch(t.inner, got)
			c.Sample(fmt.Sprintf("%s on %s -> %s %s size %d; Push calls=%d; manifest=%s", tc.String(), r.targetName(), got.MediaType, got.Digest, got.Size, npush, trunc(data)))
		}
	}
}

// ---- jobs

type block struct {
	ats []string
	ms  []int // indices into annOpts(f)
}

func blocks(tier string, heavy bool, f fn) []block {
	all := annOpts(f)
	var full, reps []int
	for i, a := range all {
		full = append(full, i)
		if a.rep {
			reps = append(reps, i)
		}
	}
	if heavy {
		if tier != "thorough" {
			reps = few(all, reps, 8)
		}
		return []block{{heavyAT(), reps}}
	}
	sw := sweep("a/+ %\n", 3)
	if tier == "thorough" {
		sw = sweep("a/+ %\n", 4)
		seen := map[string]bool{}
		for _, s := range sw {
			seen[s] = true
		}
		for _, s := range sweep("a/+ %\nA0.-_!", 3) {
			if !seen[s] {
				sw = append(sw, s)
			}
		}
	}
	if f == fPackImg || f == fPackArt {
		// the deprecated Pack only echoes artifactType: the sweep runs against three annotation forms
		return []block{{sw, few(all, reps, 3)}, {curated(), full}}
	}
	return []block{{sw, reps}, {curated(), full}}
}

// few keeps the n most distinctive representatives: nil, created+other key, then
// one per malformed class in the order they are listed, then the rest.
func few(all []annOpt, reps []int, n int) []int {
	var first, bad, rest []int
	for _, i := range reps {
		switch {
		case i == 0 || i == 4:
			first = append(first, i)
		case all[i].class != "":
			bad = append(bad, i)
		default:
			rest = append(rest, i)
		}
	}
	out := append(append(first, bad...), rest...)
	if len(out) > n {
		out = out[:n]
	}
	sort.Ints(out)
	return out
}

func jobs(tier string) []driver.Job {
	var out []driver.Job
	cfgs := cfgOpts()
	type tk struct {
		kind  string
		heavy bool
	}
	for _, k := range []tk{{"memory", false}, {"pushonly", false}, {"oci", true}, {"file", true}, {"remote", true}} {
		for _, held := range []bool{false, true} {
			for _, f := range []fn{fPM10, fPM11, fPackImg, fPackArt, fPMbad} {
				if f == fPMbad && (k.kind != "memory" || held) {
					continue
				}
				for ci := range cfgs {
					if f == fPackArt && ci != 0 && ci != 3 {
						continue // the config options do not apply to artifact manifests
					}
					k, held, f, ci := k, held, f, ci
					name := fmt.Sprintf("%s/held=%v/%s/config=%d", k.kind, held, fnName[f], ci)
					out = append(out, driver.Job{Name: name, Run: func(c *driver.Ctx) {
						runJob(c, tier, k.kind, k.heavy, held, f, ci, &cfgs[ci])
					}})
				}
			}
		}
	}
	return out
}

func runJob(c *driver.Ctx, tier, kind string, heavy, held bool, f fn, ci int, cfg *cfgOpt) {
	r := &runner{c: c, kind: kind, held: held}
	all := annOpts(f)
	bl := blocks(tier, heavy, f)
	vers := []int{0}
	if f == fPMbad {
		vers = []int{0, 3, -1}
		bl = []block{{heavyAT(), bl[0].ms}}
	}
	done := map[string]map[int]bool{}
	for _, b := range bl {
		for _, at := range b.ats {
			seen := done[at]
			if seen == nil {
				seen = map[int]bool{}
				done[at] = seen
			}
			for _, mi := range b.ms {
				if seen[mi] {
					continue
				}
				seen[mi] = true
				if c.Expired() {
					c.Capped = true
					return
				}
				for _, nl := range []int{-1, 0, 1, 2} {
					for _, subj := range []bool{false, true} {
						for _, v := range vers {
							tc := &tcase{f: f, ver: v, at: at, c: cfg, ci: ci, nl: nl, subj: subj, m: &all[mi], mi: mi}
							r.eval(tc)
						}
					}
				}
			}
		}
	}
}
