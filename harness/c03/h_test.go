package c03

import (
	"bytes"
	"context"
	"fmt"
	"io"
	"os"
	"path/filepath"
	"regexp"
	"sort"
	"strings"
	"testing"

	ocispec "github.com/opencontainers/image-spec/specs-go/v1"
	oras "oras.land/oras-go/v2"
	"oras.land/oras-go/v2/content"
	"oras.land/oras-go/v2/content/file"
	"oras.land/oras-go/v2/content/memory"
	"oras.land/oras-go/v2/content/oci"
	"oras.land/oras-go/v2/errdef"
	. "oras.land/oras-go/v2/internal/zzverif/common"
	"oras.land/oras-go/v2/registry/remote"
	"verif.local/engine/driver"
	"verif.local/engine/explore"
	"verif.local/engine/vs"
)

func TestVerif(t *testing.T) {
	driver.Main(t, driver.Harness{
		ID:    "C03",
		Level: "model_checking",
		Rule: "scenario = DAG (curated family + a referrer whose subject is a layer blob + indexes (one listing the node, one naming it as subject) that carry the filtered annotation + one wide shape with 70 referrers of one manifest (default filter, Depth 0-1, four source kinds) + every U(4) shape with a subject or index; thorough adds every U(5) shape on the plain memory source) x start node x Depth 0..3 x filter (none | artifact-type regex per type present / no match / all | " +
			"annotation key, value regex | two chained annotation filters) x source kind (memory with plain descriptors, memory with rich descriptors, OCI layout written then reopened read-write / fs.FS / tar, file store, remote Repository via Referrers API / via tag schema) x API; " +
			"for the curated shapes on the plain memory source with Depth <= 1 additionally: x one node whose content the source lost (its Fetch answers not-found), every node in turn - a failed call is not judged, a successful one by the same oracle; " +
			"ExtendedCopy without filter is also run into a destination that already holds every node (the given node must still be tagged); " +
			"default schedule for the sweep, every schedule within D<=2 (map-order deviations O<=1 at the roots map) for multi-root shapes. Oracle: generator's inverse edge list. " +
			"non-trivial = distinct scenario whose start node has at least one ancestor",
		Assumptions: []string{
			"index nodes carry no artifactType of their own (the statement's 'artifactType, else config media type' is decided for image and artifact manifests)",
			"remote sources are a Repository over the in-process registry model (Referrers API with a server page cap of 1, and tag schema); their predecessor relation is the referrers relation",
		},
		Jobs:           jobs,
		BudgetQuick:    200,
		BudgetThorough: 2400,
	})
}

type filter struct {
	kind string // "", "type", "ann"
	re   string
	key  string
}

func (f filter) String() string { return f.kind + ":" + f.key + ":" + f.re }

type scen struct {
	d     *DAG
	start int
	depth int
	f     filter
	src   string
	api   string // extgraph | ext
	conc  int
	lost  int  // 1+id of a node the source answers not-found for on Fetch (the source lost it); 0 = none
	full  bool // the destination already holds every node (an earlier copy of the same artifact): only the tag clause is judged
}

// lossy is a source that lists a node everywhere but no longer has its content.
type lossy struct {
	srcStore
	lost ocispec.Descriptor
}

func (l lossy) Fetch(ctx context.Context, target ocispec.Descriptor) (io.ReadCloser, error) {
	if target.Digest == l.lost.Digest && target.MediaType == l.lost.MediaType {
		return nil, fmt.Errorf("%s: %w", target.Digest, errdef.ErrNotFound)
	}
	return l.srcStore.Fetch(ctx, target)
}

func (s scen) name() string {
	nm := fmt.Sprintf("%s/start=%s/depth=%d/filter=%v/src=%s/%s/conc=%d", s.d.Name, s.d.Nodes[s.start].Name, s.depth, s.f, s.src, s.api, s.conc)
	if s.lost > 0 {
		nm += "/source-lost=" + s.d.Nodes[s.lost-1].Name
	}
	if s.full {
		nm += "/destination-already-complete"
	}
	return nm
}

var srcKinds = []string{"memory-plain", "memory-rich", "oci-rw", "oci-fs", "oci-tar", "file", "remote-api", "remote-tags"}

func filtersFor(d *DAG) []filter {
	out := []filter{{}}
	types := map[string]bool{}
	for _, n := range d.Nodes {
		if n.Kind.IsManifest() && d.TypeOf(n.ID) != "" {
			types[d.TypeOf(n.ID)] = true
		}
	}
	var ts []string
	for t := range types {
		ts = append(ts, t)
	}
	sort.Strings(ts)
	for _, t := range ts {
		out = append(out, filter{kind: "type", re: "^" + regexp.QuoteMeta(t) + "$"})
	}
	out = append(out, filter{kind: "type", re: "^nomatch$"}, filter{kind: "type", re: ".*"})
	// unanchored literals: a regular expression without metacharacters still matches substrings
	out = append(out, filter{kind: "type", re: "sig"}, filter{kind: "type", re: "vnd"})
	out = append(out, filter{kind: "ann", key: "k"}, filter{kind: "ann", key: "k", re: "^v1$"}, filter{kind: "ann", key: "absent"})
	// two annotation filters chained on one options value: a predecessor is followed when it satisfies both
	out = append(out, filter{kind: "ann2", key: "k", re: "other"}, filter{kind: "ann2", key: "other", re: "k"})
	return out
}

func hasUp(d *DAG) bool {
	for _, n := range d.Nodes {
		if n.Subject >= 0 || n.Kind == KIndex || n.Kind == KDockerList {
			return true
		}
	}
	return false
}

func jobs(tier string) []driver.Job {
	var out []driver.Job
	th := tier == "thorough"
	// sweep over curated shapes (plus 'blob-subject': a referrer of a layer blob): everything
	for _, d := range append(Curated(), Extra("blob-subject"), Extra("annotated-index")) {
		d := d
		out = append(out, driver.Job{Name: "sweep/" + d.Name, Run: func(c *driver.Ctx) {
			for start := range d.Nodes {
				if d.Nodes[start].Kind == KForeign {
					continue // foreign layers are excepted from copying; not a meaningful start node
				}
				for _, f := range filtersFor(d) {
					for depth := 0; depth <= 3; depth++ {
						for _, sk := range srcKinds {
							for _, api := range []string{"extgraph", "ext"} {
								if api == "ext" && (depth > 1 || sk != "memory-plain" && sk != "oci-rw" && !strings.HasPrefix(sk, "remote")) {
									continue
								}
								if api == "ext" && strings.HasPrefix(sk, "remote") && !d.Nodes[start].Kind.IsManifest() {
									continue
								}
								s := scen{d: d, start: start, depth: depth, f: f, src: sk, api: api, conc: 2}
								one(c, s, explore.Bounds{}, nil)
								if api == "ext" && f.kind == "" {
									// the destination already holds the whole graph: ExtendedCopy still tags the given node
									s.full = true
									one(c, s, explore.Bounds{}, nil)
									s.full = false
								}
								if sk == "memory-plain" && depth <= 1 {
									// the same call on a source that lost one node's content: whatever
									// the call reports, success still means a complete copy
									for lost := range d.Nodes {
										s.lost = lost + 1
										one(c, s, explore.Bounds{}, nil)
									}
								}
							}
						}
					}
				}
			}
		}})
	}
	// one wide shape: 70 referrers of one manifest (the work lists hold more entries at once than in any small shape)
	out = append(out, driver.Job{Name: "wide/many-referrers", Run: func(c *driver.Ctx) {
		d := Extra("many-referrers")
		for _, start := range []int{0, 2} { // the shared config (every referrer and M are its predecessors), and M
			for _, sk := range []string{"memory-plain", "oci-rw", "remote-api", "remote-tags"} {
				for _, depth := range []int{0, 1} {
					one(c, scen{d: d, start: start, depth: depth, src: sk, api: "extgraph", conc: 3}, explore.Bounds{}, nil)
				}
			}
		}
	}})
	// sweep over U(n) shapes with an upward relation: U(4) on three source kinds; thorough adds U(5) on the plain memory source
	type usweep struct {
		n, nshard int
		plainOnly bool
	}
	sweeps := []usweep{{4, 32, false}}
	if th {
		sweeps = append(sweeps, usweep{5, 256, true})
	}
	for _, sw := range sweeps {
		n, nshard, plainOnly := sw.n, sw.nshard, sw.plainOnly
		for sh := 0; sh < nshard; sh++ {
			sh := sh
			out = append(out, driver.Job{Name: fmt.Sprintf("sweepU%d/shard%d.%d", n, sh, nshard), Run: func(c *driver.Ctx) {
				k := 0
				for _, d := range Universe(n) {
					if !hasUp(d) {
						continue
					}
					k++
					if k%nshard != sh {
						continue
					}
					if c.Expired() {
						c.Capped = true
						return
					}
					fs := []filter{{}, {kind: "type", re: "^application/vnd\\.oci\\.image\\.config\\.v1\\+json$"}, {kind: "type", re: "^application/vnd\\.test\\.art$"}}
					for start := range d.Nodes {
						if d.Nodes[start].Kind == KForeign {
							continue
						}
						for _, f := range fs {
							for _, depth := range []int{0, 1, 2} {
								kinds := []string{"memory-plain"}
								if depth == 0 && !plainOnly {
									kinds = []string{"memory-plain", "memory-rich", "oci-rw"}
								}
								for _, sk := range kinds {
									one(c, scen{d: d, start: start, depth: depth, f: f, src: sk, api: "extgraph", conc: 2}, explore.Bounds{}, nil)
								}
							}
						}
					}
				}
			}})
		}
	}
	// schedule sweep on multi-root shapes
	for _, d := range Curated() {
		switch d.Name {
		case "two-referrers-shared", "referrer-types", "index-subject", "subject-chain", "artifact-subject", "nested-index":
		default:
			continue
		}
		d := d
		start := 0
		for _, nd := range d.Nodes {
			if nd.Subject >= 0 {
				start = nd.Subject
				break
			}
		}
		for _, conc := range []int{1, 3} {
			s := scen{d: d, start: start, src: "memory-plain", api: "extgraph", conc: conc}
			b := explore.Bounds{Dev: 1, Order: 1}
			nsh := 1
			if th {
				b = explore.Bounds{Dev: 2, Order: 1}
				nsh = 8
			}
			for sh := 0; sh < nsh; sh++ {
				sh := sh
				out = append(out, driver.Job{Name: fmt.Sprintf("sched/%s/%v/shard%d.%d", s.name(), b, sh, nsh), Run: func(c *driver.Ctx) {
					oneSharded(c, s, b, []int{0, 1, 2}, sh, nsh)
				}})
			}
		}
	}
	return out
}

func one(c *driver.Ctx, s scen, b explore.Bounds, bases []int) { oneSharded(c, s, b, bases, 0, 1) }

func oneSharded(c *driver.Ctx, s scen, b explore.Bounds, bases []int, sh, nsh int) {
	c.Explore(driver.Scenario{
		Name: s.name(), Bases: bases, Bounds: b, Shard: sh, NShard: nsh,
		MapSite: func(site string) bool { return strings.HasPrefix(site, "extendedcopy.go") },
		Make:    s.make,
	})
	if len(s.d.Ancestors(s.start)) > 1 {
		c.Nontriv(driver.Hash(s.name()))
	}
}

type srcStore interface {
	content.ReadOnlyGraphStorage
	content.Resolver
}

func (s scen) buildSrc() (srcStore, func()) {
	d := s.d
	ctx := context.Background()
	push := func(st content.Pusher, rich bool) {
		for _, n := range d.Nodes {
			desc := n.Desc
			if rich {
				desc = d.RichDesc(n.ID)
			}
			if err := st.Push(ctx, desc, bytes.NewReader(n.Bytes)); err != nil && !strings.Contains(err.Error(), "already exists") {
				panic(err)
			}
		}
	}
	startDesc := d.Nodes[s.start].Desc
	switch s.src {
	case "remote-api", "remote-tags":
		g := NewRegistry("reg.example", Profile{ReferrersAPI: s.src == "remote-api", PageSize: 1, OCISubject: s.src == "remote-api", LinkForm: 1})
		repo, err := remote.NewRepository("reg.example/src/repo")
		if err != nil {
			panic(err)
		}
		repo.Client = g
		repo.ReferrerListPageSize = 50 // above the registry's own cap of 1 entry per page
		push(repo, false)
		if d.Nodes[s.start].Kind.IsManifest() {
			if err := repo.Tag(ctx, startDesc, "ref"); err != nil {
				panic(err)
			}
		}
		if len(g.Rejects) > 0 {
			panic("registry model rejected a request: " + g.Rejects[0])
		}
		// the copy reads through a Repository value of its own (a new process): what the writing one
		// learnt about the registry's capabilities is not known to it
		reader, err := remote.NewRepository("reg.example/src/repo")
		if err != nil {
			panic(err)
		}
		reader.Client = g
		reader.ReferrerListPageSize = 50
		return reader, func() {}
	case "memory-plain", "memory-rich":
		m := memory.New()
		push(m, s.src == "memory-rich")
		m.Tag(ctx, startDesc, "ref")
		return m, func() {}
	case "file":
		dir := Scratch("c03file")
		f, err := file.New(dir)
		if err != nil {
			panic(err)
		}
		push(f, false)
		f.Tag(ctx, startDesc, "ref")
		return f, func() { f.Close(); os.RemoveAll(dir) }
	default:
		dir := Scratch("c03oci")
		st, err := oci.New(dir)
		if err != nil {
			panic(err)
		}
		push(st, false)
		if err := st.Tag(ctx, startDesc, "ref"); err != nil {
			panic(err)
		}
		clean := func() { os.RemoveAll(dir) }
		switch s.src {
		case "oci-rw":
			st2, err := oci.New(dir)
			if err != nil {
				panic(err)
			}
			return st2, clean
		case "oci-fs":
			st2, err := oci.NewFromFS(ctx, os.DirFS(dir))
			if err != nil {
				panic(err)
			}
			return st2, clean
		default:
			tp := filepath.Join(dir, "..", filepath.Base(dir)+".tar")
			if err := TarDir(dir, tp); err != nil {
				panic(err)
			}
			st2, err := oci.NewFromTar(ctx, tp)
			if err != nil {
				panic(err)
			}
			return st2, func() { clean(); os.Remove(tp) }
		}
	}
}

func (s scen) pass(id int) bool {
	d := s.d
	switch s.f.kind {
	case "type":
		return regexp.MustCompile(s.f.re).MatchString(d.TypeOf(id))
	case "ann":
		v, ok := d.Nodes[id].Annotations[s.f.key]
		return ok && (s.f.re == "" || regexp.MustCompile(s.f.re).MatchString(v))
	case "ann2": // key and re name the two annotation keys, in the order the filters are installed
		_, ok1 := d.Nodes[id].Annotations[s.f.key]
		_, ok2 := d.Nodes[id].Annotations[s.f.re]
		return ok1 && ok2
	}
	return true
}

func (s scen) make() (func(), func(*vs.Result) *driver.Fail) {
	d := s.d
	src, clean := s.buildSrc()
	if s.lost > 0 {
		src = lossy{src, d.Nodes[s.lost-1].Desc}
	}
	dst := memory.New()
	if s.full {
		all := make([]int, len(d.Nodes))
		for i := range all {
			all[i] = i
		}
		if err := Populate(dst, d, all); err != nil {
			panic(err)
		}
	}
	opts := oras.ExtendedCopyGraphOptions{Depth: s.depth}
	opts.Concurrency = s.conc
	switch s.f.kind {
	case "type":
		opts.FilterArtifactType(regexp.MustCompile(s.f.re))
	case "ann2":
		opts.FilterAnnotation(s.f.key, nil)
		opts.FilterAnnotation(s.f.re, nil)
	case "ann":
		var re *regexp.Regexp
		if s.f.re != "" {
			re = regexp.MustCompile(s.f.re)
		}
		opts.FilterAnnotation(s.f.key, re)
	}
	startDesc := d.Nodes[s.start].Desc
	var err error
	var got ocispec.Descriptor
	body := func() {
		if s.api == "ext" {
			got, err = oras.ExtendedCopy(context.Background(), src, "ref", dst, "", oras.ExtendedCopyOptions{ExtendedCopyGraphOptions: opts})
		} else {
			err = oras.ExtendedCopyGraph(context.Background(), src, dst, startDesc, opts)
		}
	}
	check := func(res *vs.Result) *driver.Fail {
		defer clean()
		if f := driver.StdFail(res); f != nil {
			return f
		}
		if err != nil && s.lost > 0 {
			return nil // a failure is the expected answer when needed content is gone; only success is judged
		}
		if err != nil {
			return &driver.Fail{Sig: "fault-free extended copy failed", Detail: s.name() + ": " + err.Error()}
		}
		if s.full {
			r, rerr := dst.Resolve(context.Background(), "ref")
			if rerr != nil || r.Digest != startDesc.Digest || got.Digest != startDesc.Digest {
				return &driver.Fail{Sig: "ExtendedCopy did not tag the given node", Detail: fmt.Sprintf("%s: resolve=%v err=%v returned=%v", s.name(), r, rerr, got)}
			}
			return nil
		}
		copied := map[int]bool{}
		for _, n := range d.Nodes {
			if ok, _ := dst.Exists(context.Background(), n.Desc); ok {
				copied[n.ID] = true
			}
		}
		// filtered upward reachability with minimal distances
		dist := map[int]int{s.start: 0}
		q := []int{s.start}
		for len(q) > 0 {
			x := q[0]
			q = q[1:]
			for _, p := range d.Preds(x, nil) {
				if strings.HasPrefix(s.src, "remote") && d.Nodes[p].Subject != x {
					continue // a Repository's predecessor relation is the referrers relation
				}
				if !s.pass(p) {
					continue
				}
				if _, ok := dist[p]; !ok {
					dist[p] = dist[x] + 1
					q = append(q, p)
				}
			}
		}
		closureOf := func(within int) map[int]bool {
			out := map[int]bool{}
			for a, dd := range dist {
				if within >= 0 && dd > within {
					continue
				}
				for _, x := range d.Closure(a, true) {
					out[x] = true
				}
			}
			return out
		}
		names := func(m map[int]bool) string {
			var ns []string
			for id := range m {
				ns = append(ns, d.Nodes[id].Name)
			}
			sort.Strings(ns)
			return strings.Join(ns, ",")
		}
		upper := closureOf(-1)
		if s.depth > 0 {
			upper = closureOf(s.depth)
		}
		for id := range copied {
			if !upper[id] {
				sig := "copied a node outside the allowed ancestor graphs"
				if s.f.kind != "" {
					sig = "followed a predecessor that does not satisfy the filter"
				}
				return &driver.Fail{Sig: sig, Detail: fmt.Sprintf("%s: copied {%s} allowed {%s}", s.name(), names(copied), names(upper))}
			}
		}
		lower := closureOf(-1)
		if s.depth > 0 {
			lower = map[int]bool{}
			for _, x := range d.Closure(s.start, true) {
				lower[x] = true
			}
		}
		var want []int
		for id := range lower {
			want = append(want, id)
		}
		sort.Ints(want)
		if bad := CheckCopied(dst, d, want); bad != "" {
			sig := "an ancestor's graph is missing from the destination"
			if s.f.kind != "" {
				sig = "a predecessor satisfying the filter was not followed"
			}
			return &driver.Fail{Sig: sig, Detail: fmt.Sprintf("%s: %s; copied {%s} expected {%s}", s.name(), bad, names(copied), names(lower))}
		}
		if s.api == "ext" {
			r, rerr := dst.Resolve(context.Background(), "ref")
			if rerr != nil || r.Digest != startDesc.Digest || got.Digest != startDesc.Digest {
				return &driver.Fail{Sig: "ExtendedCopy did not tag the given node", Detail: fmt.Sprintf("%s: resolve=%v err=%v returned=%v", s.name(), r, rerr, got)}
			}
		}
		return nil
	}
	return body, check
}
