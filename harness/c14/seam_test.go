package c14

import (
	"errors"
	"fmt"
	"sort"
	"strings"
	gosync "sync"

	"oras.land/oras-go/v2/internal/syncutil"
	"verif.local/engine/driver"
	"verif.local/engine/explore"
	"verif.local/engine/vs"
)

// Narrow seam: syncutil.Merge.Do and syncutil.Pool alone, 3 goroutines, explored with the
// classical preemption bound (only switching away from a still-enabled goroutine costs).
// Oracle: every item is resolved in exactly one batch; a batch is prepared before it is
// resolved; a failing prepare/resolve gives its error to every item of that batch and the
// pending batch still runs; Pool hands the same object to overlapping users of one key and
// a fresh one after the last user is done.

var errSeam = errors.New("seam failure")

func seamJobs(th bool) []driver.Job {
	P := 2
	if th {
		P = 3
	}
	var out []driver.Job
	for _, failMode := range []string{"none", "prepare-first", "resolve-first"} {
		failMode := failMode
		nsh := 4
		for sh := 0; sh < nsh; sh++ {
			sh := sh
			name := fmt.Sprintf("seam/merge/%s/P%d/shard%d.%d", failMode, P, sh, nsh)
			out = append(out, driver.Job{Name: name, Run: func(c *driver.Ctx) {
				c.Explore(driver.Scenario{Name: name, Bounds: explore.Bounds{Dev: P, Preempt: true}, Shard: sh, NShard: nsh,
					Make: func() (func(), func(*vs.Result) *driver.Fail) { return mergeSeam(c, failMode) }})
			}})
		}
	}
	for sh := 0; sh < 2; sh++ {
		sh := sh
		name := fmt.Sprintf("seam/pool/P%d/shard%d.2", P, sh)
		out = append(out, driver.Job{Name: name, Run: func(c *driver.Ctx) {
			c.Explore(driver.Scenario{Name: name, Bounds: explore.Bounds{Dev: P, Preempt: true}, Shard: sh, NShard: 2,
				Make: func() (func(), func(*vs.Result) *driver.Fail) { return poolSeam(c) }})
		}})
	}
	return out
}

func mergeSeam(c *driver.Ctx, failMode string) (func(), func(*vs.Result) *driver.Fail) {
	var m syncutil.Merge[int]
	var mon gosync.Mutex // monitor bookkeeping (real lock: only matters in the free-running race pass)
	var batches [][]int
	var events []string
	nprep, nres := 0, 0
	errs := make([]error, 3)
	body := func() {
		done := make(chan int, 3)
		for i := 0; i < 3; i++ {
			i := i
			vs.Go(func() {
				errs[i] = m.Do(i,
					func() error {
						vs.Pt("prepare")
						mon.Lock()
						defer mon.Unlock()
						nprep++
						events = append(events, "prepare")
						if failMode == "prepare-first" && nprep == 1 {
							return errSeam
						}
						return nil
					},
					func(items []int) error {
						vs.Pt("resolve")
						mon.Lock()
						defer mon.Unlock()
						nres++
						batches = append(batches, append([]int{}, items...))
						events = append(events, fmt.Sprintf("resolve%v", items))
						if failMode == "resolve-first" && nres == 1 {
							return errSeam
						}
						return nil
					})
				vs.Send(done, i)
			})
		}
		for i := 0; i < 3; i++ {
			vs.Recv(done)
		}
	}
	check := func(res *vs.Result) *driver.Fail {
		if f := driver.StdFail(res); f != nil {
			f.Detail = strings.Join(events, " ") + "\n" + f.Detail
			return f
		}
		d := fmt.Sprintf("mode %s events %v errs %v", failMode, events, errs)
		seen := map[int]int{}
		for _, b := range batches {
			for _, it := range b {
				seen[it]++
			}
		}
		failedItems := map[int]bool{}
		for i, e := range errs {
			if e != nil {
				if !errors.Is(e, errSeam) {
					return &driver.Fail{Sig: "Merge.Do returned an unexpected error", Detail: d}
				}
				failedItems[i] = true
			}
		}
		for i := 0; i < 3; i++ {
			switch {
			case seen[i] > 1:
				return &driver.Fail{Sig: "Merge: an item was resolved in more than one batch", Detail: d}
			case seen[i] == 0 && !failedItems[i]:
				return &driver.Fail{Sig: "Merge: an item was never resolved although its Do returned nil (lost update)", Detail: d}
			}
		}
		if failMode == "none" && len(failedItems) > 0 {
			return &driver.Fail{Sig: "Merge.Do failed without an injected failure", Detail: d}
		}
		if failMode == "prepare-first" {
			// the first batch was never resolved: exactly its items carry the error
			if len(failedItems) == 0 {
				return &driver.Fail{Sig: "Merge: a failing prepare was not reported to its batch", Detail: d}
			}
			for i := range failedItems {
				if seen[i] != 0 {
					return &driver.Fail{Sig: "Merge: item of a failed batch was resolved anyway", Detail: d}
				}
			}
		}
		if failMode == "resolve-first" && len(batches) > 0 {
			first := batches[0]
			for _, it := range first {
				if !failedItems[it] {
					return &driver.Fail{Sig: "Merge: a failing resolve was not reported to every item of its batch", Detail: d}
				}
			}
			if len(failedItems) != len(first) {
				return &driver.Fail{Sig: "Merge: a failing resolve was reported to items outside its batch", Detail: d}
			}
		}
		var shape []string
		for _, b := range batches {
			sort.Ints(b)
			shape = append(shape, fmt.Sprint(b))
		}
		c.Outcome(driver.Hash("merge", failMode, strings.Join(shape, "")))
		if len(batches) > 0 && len(batches) < 3 {
			c.Nontriv(driver.Hash("merge", failMode, fmt.Sprint(res.Choices())))
		}
		return nil
	}
	return body, check
}

func poolSeam(c *driver.Ctx) (func(), func(*vs.Result) *driver.Fail) {
	type obj struct{ id int }
	next := 0
	var p syncutil.Pool[*obj]
	var mon gosync.Mutex
	p.New = func() *obj { next++; return &obj{next} } // called with the pool's own lock held
	type use struct{ g, id, enter, leave int }
	var uses []use
	clock := 0
	body := func() {
		done := make(chan int, 3)
		for g := 0; g < 3; g++ {
			g := g
			key := "k"
			if g == 2 {
				key = "other"
			}
			vs.Go(func() {
				v, release := p.Get(key)
				mon.Lock()
				clock++
				u := use{g: g, id: (*v).id, enter: clock}
				mon.Unlock()
				vs.Pt("using")
				mon.Lock()
				clock++
				u.leave = clock
				uses = append(uses, u)
				mon.Unlock()
				release()
				vs.Send(done, g)
			})
		}
		for i := 0; i < 3; i++ {
			vs.Recv(done)
		}
	}
	check := func(res *vs.Result) *driver.Fail {
		if f := driver.StdFail(res); f != nil {
			return f
		}
		d := fmt.Sprintf("uses %+v", uses)
		var a, b *use
		for i := range uses {
			switch uses[i].g {
			case 0:
				a = &uses[i]
			case 1:
				b = &uses[i]
			case 2:
				for j := range uses {
					if uses[j].g != 2 && uses[j].id == uses[i].id {
						return &driver.Fail{Sig: "Pool: two different keys shared one object", Detail: d}
					}
				}
			}
		}
		overlap := a.enter < b.leave && b.enter < a.leave
		if overlap && a.id != b.id {
			return &driver.Fail{Sig: "Pool: overlapping users of one key got different objects", Detail: d}
		}
		if overlap {
			c.Nontriv(driver.Hash("pool", fmt.Sprint(res.Choices())))
		}
		c.Outcome(driver.Hash("pool", fmt.Sprint(overlap, a.id == b.id)))
		return nil
	}
	return body, check
}
