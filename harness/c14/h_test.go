package c14

import (
	"bytes"
	"context"
	"encoding/json"
	"errors"
	"fmt"
	"sort"
	"strings"
	"testing"

	"github.com/opencontainers/go-digest"
	ocispec "github.com/opencontainers/image-spec/specs-go/v1"
	"oras.land/oras-go/v2/errdef"
	. "oras.land/oras-go/v2/internal/zzverif/common"
	"oras.land/oras-go/v2/registry/remote"
	"verif.local/engine/driver"
	"verif.local/engine/explore"
	"verif.local/engine/vs"
)

func TestVerif(t *testing.T) {
	driver.Main(t, driver.Harness{
		ID:    "C14",
		Level: "model_checking",
		Rule: "one Repository over an in-process registry model without the Referrers API; 2-3 goroutines each running 1-2 operations from {push referrer Ri of S, delete referrer Ri, push referrer of a second subject S'}, colliding on one subject's index; " +
			"pre-existing index in {absent, valid, with a duplicate entry, with an empty entry}; SkipReferrersGC off/on; every HTTP exchange and every sync operation of the merge pool is a scheduling point and every schedule within the deviation bound of three base schedulers is run; " +
			"one fault (F<=1) may hit an index fetch, index push or index delete, and one response may carry a spurious OCI-Subject header. Oracle after quiescence: Referrers(subject) = exactly the live manifests naming it with artifact type and annotations " +
			"= what the registry model lists for the Referrers API; no dangling superseded index unless GC is skipped; a failed index delete surfaces as ReferrersError.IsReferrersIndexDelete with the new index in place; the detected capability never flips. " +
			"non-trivial = distinct schedule in which two updates of the same index overlapped (an update was merged or queued behind another)",
		Assumptions: []string{
			"faulted runs are judged only on the clauses the statement gives for them (index-delete failure; otherwise an error must surface and no live referrer of a successful operation may be lost)",
		},
		Jobs:           jobs,
		BudgetQuick:    240,
		BudgetThorough: 1500,
	})
}

const host = "reg.example"
const repoName = "ns/app"

type world struct {
	d        *DAG
	s, s2    int   // subjects
	refs     []int // referrers of s: R0 (pre-existing), R1, R2
	ref2     int   // referrer of s2
	preIndex string
	skipGC   bool
	fault    bool
	limit    bool       // Repository.MaxMetadataBytes is set below the size of R2
	progs    [][]string // per goroutine: ops "push:R1", "del:R0", "push:Q"
	scenario string
}

func universe(padR2 ...bool) (*DAG, int, int, []int, int) {
	d := &DAG{Name: "c14"}
	c := d.Blob("C", MTConfig, "{}")
	l := d.Blob("L", MTLayer, "l")
	s := d.Manifest("S", c, []int{l}, ManifestOpt{Subject: -1})
	s2 := d.Manifest("S2", c, nil, ManifestOpt{Subject: -1, Annotations: map[string]string{"which": "s2"}})
	var refs []int
	for i := 0; i < 3; i++ {
		o := ManifestOpt{Subject: s, ArtifactType: fmt.Sprintf("application/vnd.t.r%d", i), Annotations: map[string]string{"n": fmt.Sprint(i)}}
		if i == 2 {
			// R2 names the same subject digest with another media type and size in its subject descriptor:
			// the referrers index is addressed by the digest alone, so both updates hit one index
			sd := d.Nodes[s].Desc
			sd.MediaType, sd.Size = MTDockerManifest, sd.Size+1
			o.SubjectDesc = &sd
			if len(padR2) > 0 && padR2[0] {
				// R2 is larger than the Repository's MaxMetadataBytes of the "limit" scenario
				o.Annotations = map[string]string{"n": "2", "pad": strings.Repeat("x", 3000)}
			}
		}
		refs = append(refs, d.Manifest(fmt.Sprintf("R%d", i), c, nil, o))
	}
	q := d.Artifact("Q", []int{l}, ManifestOpt{Subject: s2, ArtifactType: "application/vnd.t.q"})
	return d, s, s2, refs, q
}

func jobs(tier string) []driver.Job {
	var out []driver.Job
	th := tier == "thorough"
	type prog struct {
		name  string
		progs [][]string
	}
	progs := []prog{
		{"push2", [][]string{{"push:R1"}, {"push:R2"}}},
		{"push-del", [][]string{{"push:R1"}, {"del:R0"}}},
		{"push2-del", [][]string{{"push:R1"}, {"push:R2"}, {"del:R0"}}},
		{"push-then-del", [][]string{{"push:R1", "del:R1"}, {"push:R2"}}},
		{"two-subjects", [][]string{{"push:R1"}, {"push:Q"}, {"push:R2"}}},
	}
	for _, pg := range progs {
		for _, pre := range []string{"valid", "absent", "dup", "empty"} {
			for _, skip := range []bool{false, true} {
				if skip && pre != "valid" {
					continue
				}
				if pre == "absent" && strings.Contains(fmt.Sprint(pg.progs), "del:R0") {
					continue // without an index there is no pre-existing referrer to delete
				}
				for _, fault := range []bool{false, true} {
					if fault && (pre == "dup" || pre == "empty" || skip) {
						continue
					}
					w := world{preIndex: pre, skipGC: skip, fault: fault, progs: pg.progs}
					w.scenario = fmt.Sprintf("%s/pre=%s/skipgc=%v/fault=%v", pg.name, pre, skip, fault)
					b := explore.Bounds{Dev: 2}
					nsh := 2
					heavy := pre == "valid" && !skip
					if heavy {
						b = explore.Bounds{Dev: 2}
						nsh = 4
					}
					if fault {
						b = explore.Bounds{Dev: 2, Fault: 1}
						nsh = 8
					}
					if th {
						b.Dev++
						nsh *= 4
					}
					for sh := 0; sh < nsh; sh++ {
						w, sh, b, nsh := w, sh, b, nsh
						name := fmt.Sprintf("%s/%v/shard%d.%d", w.scenario, b, sh, nsh)
						out = append(out, driver.Job{Name: name, Run: func(c *driver.Ctx) {
							var merged bool
							c.Explore(driver.Scenario{Name: name, Bases: []int{0, 1, 2}, Bounds: b, Shard: sh, NShard: nsh,
								Make: func() (func(), func(*vs.Result) *driver.Fail) { return w.make(c, &merged) },
								Nontrivial: func(res *vs.Result) string {
									if merged {
										return fmt.Sprint(res.Choices())
									}
									return ""
								}})
						}})
					}
				}
			}
		}
	}
	// a referrer larger than Repository.MaxMetadataBytes next to one that fits
	for sh := 0; sh < 2; sh++ {
		sh := sh
		w := world{preIndex: "valid", limit: true, progs: [][]string{{"push:R1"}, {"push:R2"}}}
		w.scenario = "push2/pre=valid/oversize-R2"
		b := explore.Bounds{Dev: 2}
		name := fmt.Sprintf("%s/%v/shard%d.2", w.scenario, b, sh)
		out = append(out, driver.Job{Name: name, Run: func(c *driver.Ctx) {
			var merged bool
			c.Explore(driver.Scenario{Name: name, Bases: []int{0, 1, 2}, Bounds: b, Shard: sh, NShard: 2,
				Make: func() (func(), func(*vs.Result) *driver.Fail) { return w.make(c, &merged) }})
		}})
	}
	return append(out, seamJobs(th)...)
}

func refTag(d ocispec.Descriptor) string { return "sha256-" + d.Digest.Encoded() }

func indexOf(descs []ocispec.Descriptor) (digest.Digest, []byte) {
	idx := ocispec.Index{MediaType: ocispec.MediaTypeImageIndex, Manifests: descs}
	idx.SchemaVersion = 2
	b, _ := json.Marshal(idx)
	return digest.FromBytes(b), b
}

func (w world) make(c *driver.Ctx, merged *bool) (func(), func(*vs.Result) *driver.Fail) {
	d, s, s2, refs, q := universe(w.limit)
	*merged = false
	g := NewRegistry(host, Profile{})
	repo, err := remote.NewRepository(host + "/" + repoName)
	if err != nil {
		panic(err)
	}
	repo.Client = g
	repo.SkipReferrersGC = w.skipGC
	if w.limit {
		repo.MaxMetadataBytes = 2048 // R0, R1 and their index fit, R2 (3 KB of annotation) does not
	}
	rr := g.Repo(repoName)
	// sequential setup straight into the registry: blobs, subjects, R0 and the pre-existing index
	for _, id := range []int{0, 1} {
		rr.Blobs[d.Nodes[id].Desc.Digest] = d.Nodes[id].Bytes
	}
	for _, id := range []int{s, s2, refs[0]} {
		rr.PutManifest(d.Nodes[id].Desc.Digest, d.Nodes[id].Bytes, d.Nodes[id].Desc.MediaType)
	}
	r0 := d.RichDesc(refs[0])
	var pre []ocispec.Descriptor
	switch w.preIndex {
	case "valid":
		pre = []ocispec.Descriptor{r0}
	case "dup":
		pre = []ocispec.Descriptor{r0, r0}
	case "empty":
		pre = []ocispec.Descriptor{r0, {}}
	}
	var preDigest digest.Digest
	if pre != nil {
		dg, b := indexOf(pre)
		preDigest = dg
		rr.PutManifest(dg, b, ocispec.MediaTypeImageIndex)
		rr.Tags[refTag(d.Nodes[s].Desc)] = dg
	} else {
		// without an index R0 is not listed: remove it so that the live set matches
		delete(rr.Manifests, d.Nodes[refs[0]].Desc.Digest)
	}
	idxTag, idxTag2 := refTag(d.Nodes[s].Desc), refTag(d.Nodes[s2].Desc)
	// fault menu on index traffic + overlap detection
	inflightIdx := 0
	var injected string
	spurious := false
	g.Hook = func(rec *ReqRecord) (int, bool) {
		isIdxTag := strings.HasSuffix(rec.Path, "/manifests/"+idxTag) || strings.HasSuffix(rec.Path, "/manifests/"+idxTag2)
		isOldIdx := rec.Method == "DELETE" && preDigest != "" && strings.HasSuffix(rec.Path, "/manifests/"+preDigest.String())
		isIdxDelete := rec.Method == "DELETE" && !isReferrerDigest(d, refs, q, rec.Path)
		_ = isOldIdx
		if !w.fault || injected != "" {
			return 0, false
		}
		switch {
		case isIdxTag && rec.Method == "GET":
			if vs.Choose(2, vs.KFault, "index-fetch") == 1 {
				injected = "index-fetch"
				return 500, true
			}
		case isIdxTag && rec.Method == "PUT":
			if vs.Choose(2, vs.KFault, "index-push") == 1 {
				injected = "index-push"
				return 500, true
			}
		case isIdxDelete:
			if vs.Choose(2, vs.KFault, "index-delete") == 1 {
				injected = "index-delete"
				return 500, true
			}
		}
		return 0, false
	}
	_ = inflightIdx
	results := make([][]result, len(w.progs))
	ctx := context.Background()
	node := func(name string) *Node { return d.Nodes[d.ByName(name)] }
	body := func() {
		done := make(chan int, len(w.progs))
		for gi, ops := range w.progs {
			gi, ops := gi, ops
			vs.Go(func() {
				for _, op := range ops {
					n := node(op[strings.Index(op, ":")+1:])
					var err error
					if strings.HasPrefix(op, "push:") {
						err = repo.Push(ctx, n.Desc, bytes.NewReader(n.Bytes))
					} else {
						err = repo.Delete(ctx, n.Desc)
					}
					vs.Atomic(func() { results[gi] = append(results[gi], result{op, err}) })
				}
				vs.Send(done, gi)
			})
		}
		for range w.progs {
			vs.Recv(done)
		}
		vs.Freeze()
	}
	_ = spurious
	check := func(res *vs.Result) *driver.Fail {
		if f := driver.StdFail(res); f != nil {
			return f
		}
		// did two updates of one index overlap? (several index GETs before the first index PUT, or fewer PUTs than updates)
		puts := 0
		for _, r := range g.Log {
			if r.Method == "PUT" && strings.HasSuffix(r.Path, "/manifests/"+idxTag) {
				puts++
			}
		}
		updates := 0
		for _, ops := range w.progs {
			for _, op := range ops {
				if op != "push:Q" {
					updates++
				}
			}
		}
		if puts < updates {
			*merged = true
		}
		var resStr []string
		anyErr := false
		for gi, rs := range results {
			for _, r := range rs {
				resStr = append(resStr, fmt.Sprintf("g%d %s=%v", gi, r.op, r.err))
				if r.err != nil {
					anyErr = true
				}
			}
		}
		detail := func(extra string) string {
			var reqs []string
			for _, r := range g.Log {
				p := r.Path
				if i := strings.LastIndex(p, "/"); i > 0 && len(p)-i > 20 {
					p = p[:i+14] + "…"
				}
				reqs = append(reqs, fmt.Sprintf("%s %s=%d", r.Method, strings.TrimPrefix(p, "/v2/ns/app"), r.Status))
			}
			return fmt.Sprintf("%s\nscenario %s injected=%q\nresults: %s\nrequests: %s", extra, w.scenario, injected, strings.Join(resStr, ", "), strings.Join(reqs, " ; "))
		}
		if len(g.Rejects) > 0 {
			return &driver.Fail{Sig: "non-conforming request emitted", Detail: detail(strings.Join(g.Rejects, "\n"))}
		}
		if w.limit {
			// the push of the oversize referrer may be refused (size limit): whatever it answered, the listing
			// below must equal the manifests that are live in the registry
			anyErr = false
			for _, rs := range results {
				for _, r := range rs {
					if r.err != nil && !(r.op == "push:R2" && errors.Is(r.err, errdef.ErrSizeExceedsLimit)) {
						anyErr = true
					}
				}
			}
		}
		if injected == "" && anyErr {
			return &driver.Fail{Sig: "fault-free referrer operation failed", Detail: detail("")}
		}
		if injected == "index-delete" {
			// must surface as a referrers-index-delete error, after the update took effect
			found := false
			for _, rs := range results {
				for _, r := range rs {
					var re *remote.ReferrersError
					if errors.As(r.err, &re) && re.IsReferrersIndexDelete() {
						found = true
					}
				}
			}
			if !found {
				return &driver.Fail{Sig: "failed index deletion not reported as a referrers-index-delete error", Detail: detail("")}
			}
		}
		if injected == "index-fetch" || injected == "index-push" {
			if !anyErr {
				return &driver.Fail{Sig: "injected index " + strings.TrimPrefix(injected, "index-") + " failure did not surface", Detail: detail("")}
			}
		}
		// live referrers per subject = what a Referrers-API registry would list (computed by the model from its manifests)
		for _, sub := range []int{s, s2} {
			want := rr.ReferrersOf(d.Nodes[sub].Desc.Digest)
			var got []ocispec.Descriptor
			err := repo.Referrers(ctx, d.Nodes[sub].Desc, "", func(r []ocispec.Descriptor) error { got = append(got, r...); return nil })
			if err != nil {
				return &driver.Fail{Sig: "Referrers failed after quiescence", Detail: detail(err.Error())}
			}
			gs, ws := render(got), render(want)
			if injected == "index-fetch" || injected == "index-push" {
				// operations that reported an error may or may not be reflected; successful ones must be:
				// every listed entry must be live, and no entry may be listed twice
				if bad := subsetOnce(gs, ws); bad != "" {
					return &driver.Fail{Sig: "referrers index lists a dead or duplicated entry after a failed update", Detail: detail(bad)}
				}
				// a referrer whose own push/delete succeeded must be reflected
				for gi, rs := range results {
					for _, r := range rs {
						_ = gi
						if r.err != nil || r.op == "push:Q" && sub == s || r.op != "push:Q" && sub == s2 {
							continue
						}
						n := node(r.op[strings.Index(r.op, ":")+1:])
						listed := contains(gs, n.Desc.Digest.String())
						laterDeleted := strings.HasPrefix(r.op, "push:") && deletedLater(results, n.Name)
						if strings.HasPrefix(r.op, "push:") && !listed && !laterDeleted {
							return &driver.Fail{Sig: "a successfully pushed referrer is missing from the index after another update failed", Detail: detail(n.Name)}
						}
						if strings.HasPrefix(r.op, "del:") && listed {
							return &driver.Fail{Sig: "a successfully deleted referrer is still listed", Detail: detail(n.Name)}
						}
					}
				}
				continue
			}
			if injected == "index-delete" {
				// A delete whose only failure was the index clean-up has normally removed its entry already
				// (the manifest itself is still stored); when the referrer was the last entry, deleting the old
				// index *is* the update and nothing changed. Both are consistent with the statement, so the
				// entry of such a referrer is not judged; everything else must be exact.
				skip := map[string]bool{}
				for _, rs := range results {
					for _, r := range rs {
						var re *remote.ReferrersError
						if strings.HasPrefix(r.op, "del:") && errors.As(r.err, &re) && re.IsReferrersIndexDelete() {
							skip[node(r.op[4:]).Desc.Digest.String()] = true
						}
					}
				}
				filter := func(in []string) (out []string) {
					for _, l := range in {
						if !skip[l[:strings.Index(l, "|")]] {
							out = append(out, l)
						}
					}
					return
				}
				gs, ws = filter(gs), filter(ws)
			}
			if strings.Join(gs, "\n") != strings.Join(ws, "\n") {
				return &driver.Fail{Sig: "Referrers differs from the live manifests naming the subject (lost or stale update)", Detail: detail(fmt.Sprintf("subject %s\n got: %v\nwant: %v", d.Nodes[sub].Name, gs, ws))}
			}
		}
		// no dangling superseded index
		if !w.skipGC && (injected == "" || injected == "index-delete") {
			tagged := map[digest.Digest]bool{}
			for _, dg := range rr.Tags {
				tagged[dg] = true
			}
			dangling := 0
			for _, dg := range rr.IndexManifests() {
				if !tagged[dg] {
					dangling++
				}
			}
			limit := 0
			if injected == "index-delete" {
				limit = 1
			}
			if dangling > limit {
				return &driver.Fail{Sig: "superseded referrers index left behind", Detail: detail(fmt.Sprintf("%d untagged index manifests", dangling))}
			}
		}
		// capability must be 'unsupported' and must not have flipped
		if err := repo.SetReferrersCapability(false); err != nil {
			return &driver.Fail{Sig: "detected referrers capability flipped", Detail: detail(err.Error())}
		}
		return nil
	}
	return body, check
}

func isReferrerDigest(d *DAG, refs []int, q int, path string) bool {
	for _, id := range append(append([]int{}, refs...), q) {
		if strings.HasSuffix(path, "/manifests/"+d.Nodes[id].Desc.Digest.String()) {
			return true
		}
	}
	return false
}

func render(ds []ocispec.Descriptor) []string {
	var out []string
	for _, x := range ds {
		out = append(out, fmt.Sprintf("%s|%s|%d|%s|%v", x.Digest, x.MediaType, x.Size, x.ArtifactType, x.Annotations))
	}
	sort.Strings(out)
	return out
}

func subsetOnce(got, live []string) string {
	seen := map[string]bool{}
	for _, g := range got {
		if seen[g] {
			return "duplicate entry " + g
		}
		seen[g] = true
		ok := false
		for _, l := range live {
			if l == g {
				ok = true
			}
		}
		if !ok {
			return "entry for a manifest that is not stored: " + g
		}
	}
	return ""
}

func contains(list []string, dg string) bool {
	for _, l := range list {
		if strings.HasPrefix(l, dg+"|") {
			return true
		}
	}
	return false
}

type result struct {
	op  string
	err error
}

// deletedLater reports whether some goroutine also deleted the named referrer.
func deletedLater(results [][]result, name string) bool {
	for _, rs := range results {
		for _, r := range rs {
			if r.op == "del:"+name {
				return true
			}
		}
	}
	return false
}
