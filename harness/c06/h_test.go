package c06

import (
	"bytes"
	"context"
	"fmt"
	"os"
	"strings"
	"testing"

	"oras.land/oras-go/v2/content/memory"
	"oras.land/oras-go/v2/content/oci"
	. "oras.land/oras-go/v2/internal/zzverif/common"
	"verif.local/engine/driver"
	"verif.local/engine/explore"
	"verif.local/engine/vs"
)

func TestVerif(t *testing.T) {
	driver.Main(t, driver.Harness{
		ID:    "C06",
		Level: "model_checking",
		Rule: "sequential: every history of mutating operations (push / tag incl. empty reference, annotated descriptor, absent content / untag / delete) up to the depth bound over a universe of 2 blobs + 2 manifests " +
			"(one with a subject) and 2 references, on the memory store, the OCI layout (AutoSaveIndex on and off) and the file store (default, ForceCAS, IgnoreNoName, DisableOverwrite); after every step the full observation " +
			"(Exists, Fetch bytes, Predecessors of every node, Resolve of every reference, Tags) is compared with a content-map + tag-map model (memory, OCI) or with the statement's clauses as invariants (file). " +
			"concurrent: 2-3 goroutines x 1-2 operations on colliding keys under every schedule within the deviation bound; the quiescent observation must equal the model after some interleaving of the same operations. " +
			"non-trivial = distinct history containing at least one refused operation or a re-tag",
		Assumptions: []string{
			"references are never another node's digest string; file names are distinct clean relative paths (as the property states)",
			"OCI AutoGC is off here (garbage-collection semantics are C09)",
		},
		Jobs:           jobs,
		BudgetQuick:    200,
		BudgetThorough: 1500,
	})
}

func universe() *DAG {
	d := &DAG{Name: "c06"}
	b1 := d.Blob("B1", MTConfig, "{}")
	b2 := d.Blob("B2", MTLayer, "layer-2")
	m1 := d.Manifest("M1", b1, []int{b2}, ManifestOpt{Subject: -1})
	d.Manifest("M2", b1, nil, ManifestOpt{Subject: m1, ArtifactType: "application/vnd.test.ref"})
	return d
}

var refs = []string{"a", "b", ""}

func alphabet(d *DAG, kind string) []Op {
	var ops []Op
	for i := range d.Nodes {
		ops = append(ops, Op{Kind: "push", Node: i})
	}
	ops = append(ops,
		Op{Kind: "tag", Node: 2, Ref: "a"}, Op{Kind: "tag", Node: 3, Ref: "a"}, Op{Kind: "tag", Node: 2, Ref: "b"},
		Op{Kind: "tag", Node: 0, Ref: "b"}, Op{Kind: "tag", Node: 3, Ref: "b", Ann: true}, Op{Kind: "tag", Node: 2, Ref: ""},
		Op{Kind: "tag", Node: 3, Ref: "b"},            // same content as the annotated tag of b: Resolve must return the descriptor tagged last
		Op{Kind: "tag", Node: 3, Ref: "a", Ann: true}) // a second reference tagged with the same annotated descriptor (one shared annotations map)
	if kind == "oci" {
		ops = append(ops, Op{Kind: "untag", Ref: "a"}, Op{Kind: "untag", Ref: "b"}, Op{Kind: "untag", Ref: ""})
		for i := range d.Nodes {
			ops = append(ops, Op{Kind: "delete", Node: i})
		}
	}
	return ops
}

func jobs(tier string) []driver.Job {
	var out []driver.Job
	th := tier == "thorough"
	d := universe()
	type cfg struct {
		kind     string
		autosave bool
		depth    int
	}
	cfgs := []cfg{{"memory", true, 5}, {"oci", true, 4}, {"oci", false, 4}}
	if th {
		cfgs = []cfg{{"memory", true, 6}, {"oci", true, 5}, {"oci", false, 5}}
	}
	for _, cf := range cfgs {
		ops := alphabet(d, cf.kind)
		nsh := 32
		for sh := 0; sh < nsh; sh++ {
			sh, cf := sh, cf
			name := fmt.Sprintf("seq/%s/autosave=%v/depth=%d/shard%d.%d", cf.kind, cf.autosave, cf.depth, sh, nsh)
			out = append(out, driver.Job{Name: name, Run: func(c *driver.Ctx) {
				c.Explore(driver.Scenario{
					Name: name, Sequential: true, Shard: sh, NShard: nsh,
					Make: func() (func(), func(*vs.Result) *driver.Fail) {
						return seqRun(c, d, ops, cf.kind, cf.autosave, cf.depth)
					},
				})
			}})
		}
	}
	out = append(out, concJobs(d, th)...)
	out = append(out, fileJobs(th)...)
	out = append(out, fileConcJobs(th)...)
	return out
}

type store interface {
	Store
}

func newStore(kind string, autosave bool) (Store, *oci.Store, string) {
	if kind == "memory" {
		return memory.New(), nil, ""
	}
	dir := Scratch("c06oci")
	st, err := oci.New(dir)
	if err != nil {
		panic(err)
	}
	st.AutoSaveIndex = autosave
	st.AutoGC = false
	return st, st, dir
}

func apply(st Store, ost *oci.Store, d *DAG, op Op) error {
	if ost != nil {
		return ApplyOCI(ost, d, op)
	}
	ctx := context.Background()
	switch op.Kind {
	case "push":
		return st.Push(ctx, d.Nodes[op.Node].Desc, bytes.NewReader(d.Nodes[op.Node].Bytes))
	case "tag":
		return st.Tag(ctx, TagDesc(d, op.Node, op.Ann), op.Ref)
	}
	panic("op not offered: " + op.Kind)
}

func seqRun(c *driver.Ctx, d *DAG, ops []Op, kind string, autosave bool, depth int) (func(), func(*vs.Result) *driver.Fail) {
	var fail *driver.Fail
	var hist []string
	nontrivial := false
	body := func() {
		st, ost, dir := newStore(kind, autosave)
		if dir != "" {
			defer os.RemoveAll(dir)
		}
		m := NewModel(d)
		m.EmptyRefOK = kind == "memory"
		for step := 0; step < depth; step++ {
			op := ops[vs.Choose(len(ops), vs.KInput, "op")]
			hist = append(hist, op.Str(d))
			if op.Kind == "tag" {
				if v, ok := m.Tags[op.Ref]; ok && v.Node != op.Node {
					nontrivial = true
				}
			}
			want := m.Apply(op)
			got := ErrClass(apply(st, ost, d, op))
			if want != "ok" {
				nontrivial = true
			}
			if got != want {
				fail = &driver.Fail{Sig: fmt.Sprintf("%s: %s returned %s, model says %s", kind, op.Kind, strip(got), want), Detail: strings.Join(hist, " ; ") + "\n got " + got}
				return
			}
			obs, exp := Observe(st, d, refs, false), m.Expect(refs)
			if kind == "memory" {
				exp = exp[:strings.LastIndex(exp, "tags=")]
			}
			if obs != exp {
				fail = &driver.Fail{Sig: fmt.Sprintf("%s: observation differs from the content-map/tag-map model after %s", kind, op.Kind), Detail: strings.Join(hist, " ; ") + "\n--- store\n" + obs + "--- model\n" + exp}
				return
			}
		}
	}
	check := func(res *vs.Result) *driver.Fail {
		if f := driver.StdFail(res); f != nil {
			f.Detail = strings.Join(hist, " ; ") + "\n" + f.Detail
			return f
		}
		if nontrivial {
			c.Nontriv(driver.Hash(kind, fmt.Sprint(autosave), strings.Join(hist, ";")))
		}
		c.Outcome(driver.Hash(strings.Join(hist[:1], "")))
		return fail
	}
	return body, check
}

func strip(s string) string {
	if strings.HasPrefix(s, "other:") {
		return "other"
	}
	return s
}

// ---- concurrent part

type conc struct {
	name string
	kind string
	pre  []Op   // sequential prefix
	gs   [][]Op // one op list per goroutine
}

func concJobs(d *DAG, th bool) []driver.Job {
	push := func(n int) Op { return Op{Kind: "push", Node: n} }
	tag := func(n int, r string) Op { return Op{Kind: "tag", Node: n, Ref: r} }
	del := func(n int) Op { return Op{Kind: "delete", Node: n} }
	var cs []conc
	for _, kind := range []string{"memory", "oci"} {
		cs = append(cs,
			conc{"same-blob-twice", kind, nil, [][]Op{{push(1)}, {push(1)}}},
			conc{"same-manifest-thrice", kind, []Op{push(0), push(1)}, [][]Op{{push(2)}, {push(2)}, {push(2), tag(2, "a")}}},
			conc{"tag-races-push", kind, []Op{push(0), push(1)}, [][]Op{{push(2)}, {tag(2, "a")}}},
			conc{"two-tags-one-ref", kind, []Op{push(0), push(1), push(2), push(3)}, [][]Op{{tag(2, "a")}, {tag(3, "a")}, {tag(2, "b")}}},
			conc{"parent-child-sibling", kind, []Op{push(0)}, [][]Op{{push(2)}, {push(1)}, {push(3)}}},
		)
	}
	cs = append(cs,
		conc{"delete-races-push", "oci", []Op{push(0), push(1), push(2)}, [][]Op{{del(2)}, {push(3)}}},
		conc{"delete-races-tag", "oci", []Op{push(0), push(1), push(2)}, [][]Op{{del(2)}, {tag(2, "a")}}},
		conc{"delete-races-delete", "oci", []Op{push(0), push(1), push(2), tag(2, "a")}, [][]Op{{del(2)}, {del(2)}, {Op{Kind: "untag", Ref: "a"}}}},
		// garbage collection against a push that is then tagged: the tagged manifest's content must be there
		// afterwards, or the tag must have been refused (pushed, collected, then tagged)
		conc{"gc-races-push-tag", "oci", []Op{push(0), push(1), push(2), tag(2, "t")}, [][]Op{{Op{Kind: "gc"}}, {push(3), tag(3, "a")}}},
		conc{"untag-races-retag", "oci", []Op{push(0), push(1), push(2), push(3), tag(2, "a")}, [][]Op{{Op{Kind: "untag", Ref: "a"}}, {tag(3, "a")}}},
	)
	var out []driver.Job
	for _, cc := range cs {
		cc := cc
		b := explore.Bounds{Dev: 2}
		nsh := 2
		if th {
			b = explore.Bounds{Dev: 3}
			nsh = 8
		}
		for sh := 0; sh < nsh; sh++ {
			sh := sh
			name := fmt.Sprintf("conc/%s/%s/%v/shard%d.%d", cc.kind, cc.name, b, sh, nsh)
			out = append(out, driver.Job{Name: name, Run: func(c *driver.Ctx) {
				c.Explore(driver.Scenario{
					Name: name, Bases: []int{0, 1, 2}, Bounds: b, Shard: sh, NShard: nsh,
					Make: func() (func(), func(*vs.Result) *driver.Fail) { return concRun(c, d, cc) },
				})
			}})
		}
	}
	return out
}

// interleavings applies every merge of the goroutines' op lists to the model and returns the set of
// final observations, and of final observations paired with the per-goroutine result classes.
func interleavings(m *Model, gs [][]Op, pos []int, res [][]string, out, outRes map[string]bool) {
	done := true
	for g := range gs {
		if pos[g] < len(gs[g]) {
			done = false
			m2 := m.Clone()
			r := m2.Apply(gs[g][pos[g]])
			pos[g]++
			res[g] = append(res[g], r)
			interleavings(m2, gs, pos, res, out, outRes)
			res[g] = res[g][:len(res[g])-1]
			pos[g]--
		}
	}
	if done {
		e := m.Expect(refs)
		out[e] = true
		outRes[e+"|"+fmt.Sprint(res)] = true
	}
}

func concRun(c *driver.Ctx, d *DAG, cc conc) (func(), func(*vs.Result) *driver.Fail) {
	st, ost, dir := newStore(cc.kind, true)
	m := NewModel(d)
	m.EmptyRefOK = cc.kind == "memory"
	for _, op := range cc.pre {
		m.Apply(op)
		if err := apply(st, ost, d, op); err != nil {
			panic(err)
		}
	}
	var results []string
	perG := make([][]string, len(cc.gs))
	body := func() {
		var wg = make(chan int, len(cc.gs))
		for gi, ops := range cc.gs {
			gi, ops := gi, ops
			vs.Go(func() {
				for _, op := range ops {
					err := apply(st, ost, d, op)
					vs.Atomic(func() {
						results = append(results, fmt.Sprintf("g%d %s=%s", gi, op.Str(d), strip(ErrClass(err))))
						perG[gi] = append(perG[gi], strip(ErrClass(err)))
					})
				}
				vs.Send(wg, gi)
			})
		}
		for range cc.gs {
			vs.Recv(wg)
		}
	}
	check := func(res *vs.Result) *driver.Fail {
		if dir != "" {
			defer os.RemoveAll(dir)
		}
		if f := driver.StdFail(res); f != nil {
			return f
		}
		obs := Observe(st, d, refs, false)
		if strings.Contains(obs, "WRONG-BYTES") {
			return &driver.Fail{Sig: cc.kind + ": fetch returned bytes that do not match the descriptor", Detail: obs}
		}
		exp, expRes := map[string]bool{}, map[string]bool{}
		interleavings(m, cc.gs, make([]int, len(cc.gs)), make([][]string, len(cc.gs)), exp, expRes)
		ok := false
		for e := range exp {
			if cc.kind == "memory" {
				e = e[:strings.LastIndex(e, "tags=")]
			}
			if e == obs {
				ok = true
			}
		}
		if ok && cc.kind == "memory" {
			// The memory store decides a push with one atomic load-or-store, so also the answers
			// must be those of some sequential order (e.g. the same content is accepted once).
			// Not demanded of the OCI layout, where two racing identical pushes may both report success.
			okRes := false
			for e := range expRes {
				i := strings.LastIndex(e, "|")
				if eo := e[:i]; eo[:strings.LastIndex(eo, "tags=")] == obs && e[i+1:] == fmt.Sprint(perG) {
					okRes = true
				}
			}
			if !okRes {
				return &driver.Fail{Sig: fmt.Sprintf("memory: the operations' answers match no sequential order (%s)", cc.name), Detail: "results: " + strings.Join(results, ", ") + "\n" + obs}
			}
		}
		c.Outcome(driver.Hash(cc.name, cc.kind, obs, strings.Join(results, ",")))
		if len(res.Trace) > 0 {
			c.Nontriv(driver.Hash(cc.name, cc.kind, fmt.Sprint(res.Choices())))
		}
		if !ok {
			var es []string
			for e := range exp {
				es = append(es, e)
			}
			return &driver.Fail{Sig: fmt.Sprintf("%s: quiescent state matches no sequential order of the operations (%s)", cc.kind, cc.name),
				Detail: "results: " + strings.Join(results, ", ") + "\n--- store\n" + obs + "--- allowed\n" + strings.Join(es, "--- or\n")}
		}
		return nil
	}
	return body, check
}
