package c06

import (
	"bytes"
	"context"
	"encoding/json"
	"errors"
	"fmt"
	"io"
	"os"
	"sort"
	"strings"

	"github.com/opencontainers/go-digest"
	ocispec "github.com/opencontainers/image-spec/specs-go/v1"
	"oras.land/oras-go/v2/content/file"
	"oras.land/oras-go/v2/errdef"
	. "oras.land/oras-go/v2/internal/zzverif/common"
	"verif.local/engine/driver"
	"verif.local/engine/explore"
	"verif.local/engine/vs"
)

// The file store is a virtual CAS over named files with a fallback, so it is
// held to the statement's clauses as invariants over every history instead of
// to a transcribed model.

type fnode struct {
	name  string
	desc  ocispec.Descriptor
	bytes []byte
}

func fileUniverse() []fnode {
	mk := func(name, title, mt, data string) fnode {
		b := []byte(data)
		d := ocispec.Descriptor{MediaType: mt, Digest: digest.FromBytes(b), Size: int64(len(b))}
		if title != "" {
			d.Annotations = map[string]string{ocispec.AnnotationTitle: title}
		}
		return fnode{name, d, b}
	}
	f1 := mk("F1", "f1.txt", MTLayer, "same-bytes")
	f1b := mk("F1b", "sub/g.txt", MTLayer, "same-bytes")
	f2 := mk("F2", "f2.txt", MTLayer, "other")
	f3 := mk("F3", "f1.txt", MTLayer, "other bytes under the first name") // the name f1.txt again, with different content
	u := mk("U", "", MTLayer, "unnamed")
	c := mk("C", "", MTConfig, "{}")
	// manifest referencing the named layers with their titles
	dd := &DAG{}
	ci := dd.Blob("C", MTConfig, "{}")
	_ = ci
	man := ocispec.Manifest{MediaType: ocispec.MediaTypeImageManifest, Config: c.desc, Layers: []ocispec.Descriptor{f1.desc, f1b.desc, u.desc}}
	man.SchemaVersion = 2
	mb, _ := jsonMarshal(man)
	m := fnode{"M", ocispec.Descriptor{MediaType: ocispec.MediaTypeImageManifest, Digest: digest.FromBytes(mb), Size: int64(len(mb))}, mb}
	return []fnode{f1, f1b, f2, u, c, m, f3}
}

type fop struct {
	kind string // push | badpush | tag
	node int
	ref  string
}

func (o fop) str(u []fnode) string {
	if o.kind == "tag" {
		return fmt.Sprintf("tag(%s,%q)", u[o.node].name, o.ref)
	}
	return o.kind + "(" + u[o.node].name + ")"
}

func fileAlphabet(u []fnode) []fop {
	var ops []fop
	for i := range u {
		ops = append(ops, fop{kind: "push", node: i})
	}
	ops = append(ops, fop{kind: "badpush", node: 2}, fop{kind: "badpush", node: 3},
		fop{kind: "badpush", node: 1}, // mismatching bytes under a second name of content that may already be stored under the first
		fop{kind: "tag", node: 5, ref: "a"}, fop{kind: "tag", node: 0, ref: "a"}, fop{kind: "tag", node: 1, ref: "b"}, fop{kind: "tag", node: 5, ref: ""})
	return ops
}

func fileObserve(st *file.Store, u []fnode) string {
	ctx := context.Background()
	var sb strings.Builder
	for _, n := range u {
		ex, _ := st.Exists(ctx, n.desc)
		fetch := "false"
		rc, err := st.Fetch(ctx, n.desc)
		if err == nil {
			b, _ := io.ReadAll(rc)
			rc.Close()
			if bytes.Equal(b, n.bytes) {
				fetch = "true"
			} else {
				fetch = "WRONG-BYTES"
			}
		} else if !errors.Is(err, errdef.ErrNotFound) {
			fetch = "err:" + err.Error()
		}
		ps, _ := st.Predecessors(ctx, n.desc)
		var preds []string
		for _, p := range ps {
			preds = append(preds, p.Digest.Encoded()[:6])
		}
		sort.Strings(preds)
		fmt.Fprintf(&sb, "%s:exists=%v,fetch=%s,preds=%v\n", n.name, ex, fetch, preds)
	}
	for _, r := range []string{"a", "b", ""} {
		d, err := st.Resolve(ctx, r)
		if err != nil {
			fmt.Fprintf(&sb, "ref %q -> err %s\n", r, ErrClass(err))
		} else {
			fmt.Fprintf(&sb, "ref %q -> %s %s\n", r, d.Digest.Encoded()[:6], d.Annotations[ocispec.AnnotationTitle])
		}
	}
	return sb.String()
}

func fileApply(st *file.Store, u []fnode, op fop) error {
	ctx := context.Background()
	switch op.kind {
	case "push":
		return st.Push(ctx, u[op.node].desc, bytes.NewReader(u[op.node].bytes))
	case "badpush":
		return st.Push(ctx, u[op.node].desc, bytes.NewReader([]byte("corrupted-content")))
	default:
		return st.Tag(ctx, u[op.node].desc, op.ref)
	}
}

func fileJobs(th bool) []driver.Job {
	u := fileUniverse()
	ops := fileAlphabet(u)
	depth := 4
	if th {
		depth = 5
	}
	var out []driver.Job
	for _, opt := range []string{"default", "forcecas", "ignorenoname", "disableoverwrite"} {
		nsh := 16
		for sh := 0; sh < nsh; sh++ {
			sh, opt := sh, opt
			name := fmt.Sprintf("seq/file/%s/depth=%d/shard%d.%d", opt, depth, sh, nsh)
			out = append(out, driver.Job{Name: name, Run: func(c *driver.Ctx) {
				c.Explore(driver.Scenario{Name: name, Sequential: true, Shard: sh, NShard: nsh,
					Make: func() (func(), func(*vs.Result) *driver.Fail) { return fileRun(c, u, ops, opt, depth) }})
			}})
		}
	}
	return out
}

func newFile(opt string) (*file.Store, string) {
	dir := Scratch("c06file")
	st, err := file.New(dir)
	if err != nil {
		panic(err)
	}
	switch opt {
	case "forcecas":
		st.ForceCAS = true
	case "ignorenoname":
		st.IgnoreNoName = true
	case "disableoverwrite":
		st.DisableOverwrite = true
	}
	return st, dir
}

func fileRun(c *driver.Ctx, u []fnode, ops []fop, opt string, depth int) (func(), func(*vs.Result) *driver.Fail) {
	var fail *driver.Fail
	var hist []string
	anyRefused := false
	body := func() {
		st, dir := newFile(opt)
		defer func() { st.Close(); os.RemoveAll(dir) }()
		pushed := map[int]bool{}
		nameOwner := map[string]int{} // file name -> the node whose content holds it
		lastTag := map[string]int{}
		var okOps []fop
		failf := func(sig, detail string) {
			fail = &driver.Fail{Sig: "file(" + opt + "): " + sig, Detail: strings.Join(hist, " ; ") + "\n" + detail}
		}
		for step := 0; step < depth; step++ {
			op := ops[vs.Choose(len(ops), vs.KInput, "op")]
			hist = append(hist, op.str(u))
			before := fileObserve(st, u)
			err := fileApply(st, u, op)
			after := fileObserve(st, u)
			if strings.Contains(after, "WRONG-BYTES") {
				failf("fetch returned bytes that do not match the descriptor", after)
				return
			}
			n := u[op.node]
			named := n.desc.Annotations[ocispec.AnnotationTitle] != ""
			switch op.kind {
			case "push":
				title := n.desc.Annotations[ocispec.AnnotationTitle]
				// who holds the name right now (pushed directly, or materialised by a manifest push)
				for i, x := range u {
					if x.desc.Annotations[ocispec.AnnotationTitle] == title && strings.Contains(before, x.name+":exists=true") {
						nameOwner[title] = i
					}
				}
				if o, taken := nameOwner[title]; named && taken && o != op.node {
					// the name is held by other content: duplicate-name, and nothing changes
					if !errors.Is(err, file.ErrDuplicateName) {
						failf("push under a name that other content holds was not refused with duplicate-name", fmt.Sprint(err)+"\n"+after)
						return
					}
					break
				}
				switch {
				case err == nil:
					if !named && opt == "ignorenoname" {
						break // documented: unnamed content is skipped
					}
					if pushed[op.node] {
						failf("pushing content that is already present was not refused", after)
						return
					}
					pushed[op.node] = true
					if named {
						nameOwner[title] = op.node
					}
				case pushed[op.node]:
					if !errors.Is(err, errdef.ErrAlreadyExists) && !errors.Is(err, file.ErrDuplicateName) {
						failf("repeated push refused with an unexpected error", err.Error())
						return
					}
				case errors.Is(err, file.ErrDuplicateName) && named && strings.Contains(before, n.name+":exists=true"):
					// materialised earlier by a manifest push (restoreDuplicates): counts as present
					pushed[op.node] = true
					nameOwner[title] = op.node
				default:
					failf("push of absent, well-formed content failed", err.Error()+"\n"+before)
					return
				}
			case "badpush":
				if err == nil && !(opt == "ignorenoname" && !named) { // IgnoreNoName documents that unnamed content is skipped unread
					failf("push with mismatching content succeeded", after)
					return
				}
			case "tag":
				present := strings.Contains(before, n.name+":exists=true")
				switch {
				case op.ref == "":
					if !errors.Is(err, errdef.ErrMissingReference) {
						failf("tag with empty reference not refused with missing-reference", fmt.Sprint(err))
						return
					}
				case !present:
					if !errors.Is(err, errdef.ErrNotFound) {
						failf("tagging absent content did not report not-found", fmt.Sprint(err))
						return
					}
				case err != nil:
					failf("tagging present content failed", err.Error())
					return
				default:
					lastTag[op.ref] = op.node
				}
			}
			if err != nil {
				anyRefused = true
				if before != after {
					failf("a refused or failed operation changed the observable state", "--- before\n"+before+"--- after\n"+after)
					return
				}
			} else {
				okOps = append(okOps, op)
			}
			// standing invariants
			for id := range pushed {
				if !strings.Contains(after, u[id].name+":exists=true,fetch=true") {
					failf("content pushed earlier is no longer present/fetchable", after)
					return
				}
			}
			for r, id := range lastTag {
				want := fmt.Sprintf("ref %q -> %s %s\n", r, u[id].desc.Digest.Encoded()[:6], u[id].desc.Annotations[ocispec.AnnotationTitle])
				if !strings.Contains(after, want) {
					failf("Resolve does not return the descriptor most recently tagged", "want "+want+after)
					return
				}
			}
		}
		// differential: the same history without its refused operations must reach the same state
		if anyRefused {
			final := fileObserve(st, u)
			st2, dir2 := newFile(opt)
			defer func() { st2.Close(); os.RemoveAll(dir2) }()
			for _, op := range okOps {
				if err := fileApply(st2, u, op); err != nil {
					failf("operation that succeeded after refused ones fails without them", op.str(u)+": "+err.Error())
					return
				}
			}
			if f2 := fileObserve(st2, u); f2 != final {
				failf("state differs from the one reached without the refused operations", "--- with\n"+final+"--- without\n"+f2)
			}
		}
	}
	check := func(res *vs.Result) *driver.Fail {
		if f := driver.StdFail(res); f != nil {
			f.Detail = strings.Join(hist, " ; ") + "\n" + f.Detail
			return f
		}
		if anyRefused {
			c.Nontriv(driver.Hash("file", opt, strings.Join(hist, ";")))
		}
		return fail
	}
	return body, check
}

func jsonMarshal(v any) ([]byte, error) { return json.Marshal(v) }

// ---- concurrent operations on the file store (clause-style oracle, no transcribed model)

type fconc struct {
	name string
	pre  []fop
	gs   [][]fop
}

func fileConcJobs(th bool) []driver.Job {
	u := fileUniverse()
	push := func(n int) fop { return fop{kind: "push", node: n} }
	cs := []fconc{
		{"same-named-blob-twice", nil, [][]fop{{push(0)}, {push(0)}}},
		{"two-names-same-bytes", nil, [][]fop{{push(0)}, {push(1)}, {push(2)}}},
		{"manifest-races-its-layers", []fop{push(3), push(4)}, [][]fop{{push(5)}, {push(0)}, {push(1)}}},
		{"unnamed-twice-and-tag", []fop{push(4), push(0), push(1)}, [][]fop{{push(3)}, {push(3)}, {push(5), {kind: "tag", node: 5, ref: "a"}}}},
		{"bad-races-good", nil, [][]fop{{fop{kind: "badpush", node: 2}}, {push(2)}}},
	}
	D, nsh := 2, 2
	if th {
		D, nsh = 3, 8
	}
	var out []driver.Job
	for _, cc := range cs {
		for _, opt := range []string{"default", "forcecas"} {
			for sh := 0; sh < nsh; sh++ {
				cc, opt, sh := cc, opt, sh
				name := fmt.Sprintf("conc/file/%s/%s/D%d/shard%d.%d", opt, cc.name, D, sh, nsh)
				out = append(out, driver.Job{Name: name, Run: func(c *driver.Ctx) {
					c.Explore(driver.Scenario{Name: name, Bases: []int{0, 1, 2}, Bounds: explore.Bounds{Dev: D}, Shard: sh, NShard: nsh,
						Make: func() (func(), func(*vs.Result) *driver.Fail) { return fileConcRun(c, u, cc, opt) }})
				}})
			}
		}
	}
	return out
}

func fileConcRun(c *driver.Ctx, u []fnode, cc fconc, opt string) (func(), func(*vs.Result) *driver.Fail) {
	st, dir := newFile(opt)
	for _, op := range cc.pre {
		if err := fileApply(st, u, op); err != nil {
			panic(err)
		}
	}
	type res struct {
		op  fop
		err error
	}
	results := make([][]res, len(cc.gs))
	body := func() {
		done := make(chan int, len(cc.gs))
		for gi, ops := range cc.gs {
			gi, ops := gi, ops
			vs.Go(func() {
				for _, op := range ops {
					err := fileApply(st, u, op)
					vs.Atomic(func() { results[gi] = append(results[gi], res{op, err}) })
				}
				vs.Send(done, gi)
			})
		}
		for range cc.gs {
			vs.Recv(done)
		}
	}
	check := func(r *vs.Result) *driver.Fail {
		defer func() { st.Close(); os.RemoveAll(dir) }()
		if f := driver.StdFail(r); f != nil {
			return f
		}
		obs := fileObserve(st, u)
		var rs []string
		okPush := map[int]int{}
		tried := map[int]int{}
		for gi, g := range results {
			for _, x := range g {
				rs = append(rs, fmt.Sprintf("g%d %s=%v", gi, x.op.str(u), x.err))
				switch x.op.kind {
				case "push":
					tried[x.op.node]++
					if x.err == nil {
						okPush[x.op.node]++
					} else if !errors.Is(x.err, errdef.ErrAlreadyExists) && !errors.Is(x.err, file.ErrDuplicateName) {
						return &driver.Fail{Sig: "file(" + opt + "): concurrent push of well-formed content failed with an unexpected error (" + cc.name + ")", Detail: strings.Join(rs, ", ")}
					}
				case "badpush":
					if x.err == nil {
						return &driver.Fail{Sig: "file(" + opt + "): concurrent push of mismatching content succeeded", Detail: strings.Join(rs, ", ")}
					}
				case "tag":
					if x.err != nil {
						return &driver.Fail{Sig: "file(" + opt + "): tag of content pushed by the same goroutine failed", Detail: strings.Join(rs, ", ")}
					}
				}
			}
		}
		d := "results: " + strings.Join(rs, ", ") + "\n" + obs
		if strings.Contains(obs, "WRONG-BYTES") {
			return &driver.Fail{Sig: "file(" + opt + "): fetch returned bytes that do not match the descriptor after concurrent pushes", Detail: d}
		}
		for n, k := range tried {
			// identical pushes: accepted at most once; none at all only when the name was materialised by a
			// manifest push in the meantime (then every push was refused as a duplicate, checked above)
			if okPush[n] > 1 {
				return &driver.Fail{Sig: fmt.Sprintf("file(%s): %d of %d identical concurrent pushes were accepted (%s)", opt, okPush[n], k, cc.name), Detail: d}
			}
			if !strings.Contains(obs, u[n].name+":exists=true,fetch=true") {
				return &driver.Fail{Sig: "file(" + opt + "): content whose push succeeded is not present/fetchable after quiescence (" + cc.name + ")", Detail: d}
			}
		}
		// named content on disk must hold exactly its bytes
		for n := range tried {
			if t := u[n].desc.Annotations[ocispec.AnnotationTitle]; t != "" {
				b, err := os.ReadFile(dir + "/" + t)
				if err != nil || !bytes.Equal(b, u[n].bytes) {
					return &driver.Fail{Sig: "file(" + opt + "): named file on disk differs from the pushed bytes after concurrent pushes", Detail: fmt.Sprintf("%s: %q err %v\n%s", t, b, err, d)}
				}
			}
		}
		if len(r.Trace) > 0 {
			c.Nontriv(driver.Hash("fileconc", opt, cc.name, fmt.Sprint(r.Choices())))
		}
		c.Outcome(driver.Hash("fileconc", cc.name, obs, strings.Join(rs, ",")))
		return nil
	}
	return body, check
}
