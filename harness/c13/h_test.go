package c13

import (
	"bytes"
	"context"
	"errors"
	"fmt"
	"io"
	"sort"
	"strings"
	"testing"

	"github.com/opencontainers/go-digest"
	ocispec "github.com/opencontainers/image-spec/specs-go/v1"
	"oras.land/oras-go/v2/errdef"
	. "oras.land/oras-go/v2/internal/zzverif/common"
	"oras.land/oras-go/v2/registry"
	"oras.land/oras-go/v2/registry/remote"
	"verif.local/engine/driver"
	"verif.local/engine/explore"
	"verif.local/engine/vs"
)

func TestVerif(t *testing.T) {
	driver.Main(t, driver.Harness{
		ID:    "C13",
		Level: "model_checking",
		Rule: "(a) every history of <= 3 (thorough 4) mutating Repository operations {Push blob x2, Push manifest x2 (one with a subject), PushReference, Tag x2, Delete x3, Mount} on a universe of 2 blobs + 2 manifests + 2 tags, " +
			"for every capability profile of an in-process reference registry (Referrers API, digest header always/never/GET-only, Accept-Ranges, mount 201/202, HEAD and GET without Content-Length, OCI-Subject) and three option sets " +
			"(default | PlainHTTP + page sizes 1 | custom ManifestMediaTypes + SkipReferrersGC); after every step a fixed battery of 17 reads (Fetch, FetchReference by tag/digest/tag@digest/fully-qualified, Exists, Resolve, Predecessors, Referrers with filter, Tags, Blobs().Resolve) " +
			"is compared with the registry model's own state, and every request is checked by a validator of distribution-spec MUSTs; " +
			"(b) every sequence of <= 3 (thorough 4) Read(k)/Seek(off,whence) calls on a blob reader over a 4-byte blob, compared with bytes.Reader, for a registry that sends Content-Length (the last byte then arrives together with io.EOF, as net/http delivers it) and one that answers chunked; " +
			"(c) single-field corruption (digest header wrong/malformed, Content-Length +1/-1/absent, Content-Type other/garbage) of every response of every descriptor- or body-returning read: a contradiction with what was requested must produce an error. " +
			"non-trivial = distinct (profile, history) with at least one Delete, re-tag or Mount",
		Assumptions: []string{
			"the registry model implements the distribution-spec endpoints in-process (no sockets); the validator is an allow-list of spec MUSTs only",
			"documented by-design failures are accepted as errors: HEAD/Resolve by tag on a registry that never sends Docker-Content-Digest, and HEAD without Content-Length",
			"corruptions that contradict only the body of a tag request (row 3 of the truth table in repository_test.go) are a documented blind spot and not judged",
		},
		Jobs:           jobs,
		BudgetQuick:    240,
		BudgetThorough: 1500,
	})
}

const host = "reg.example"
const repoName = "ns/app"

func universe() *DAG {
	d := &DAG{Name: "c13"}
	b1 := d.Blob("B1", MTConfig, "{}")
	b2 := d.Blob("B2", MTLayer, "abcd")
	m1 := d.Manifest("M1", b1, []int{b2}, ManifestOpt{Subject: -1})
	m2 := d.Manifest("M2", b1, nil, ManifestOpt{Subject: m1, ArtifactType: "application/vnd.test.sig+json", Annotations: map[string]string{"k": "v"}})
	// a second referrer of M1 with another artifact type that sorts BEFORE M2 in the registry's
	// (digest-ordered) listing, so that a client-side filter meets a page without a match first
	for i := 0; ; i++ {
		probe := &DAG{}
		pb := probe.Blob("B1", MTConfig, "{}")
		pm := probe.Manifest("M1", pb, []int{probe.Blob("B2", MTLayer, "abcd")}, ManifestOpt{Subject: -1})
		id := probe.Manifest("M3", pb, nil, ManifestOpt{Subject: pm, ArtifactType: "application/vnd.test.other", Annotations: map[string]string{"k": fmt.Sprint("w", i)}})
		if probe.Nodes[id].Desc.Digest < d.Nodes[m2].Desc.Digest {
			d.Manifest("M3", b1, nil, ManifestOpt{Subject: m1, ArtifactType: "application/vnd.test.other", Annotations: map[string]string{"k": fmt.Sprint("w", i)}})
			break
		}
	}
	return d
}

type mop struct {
	kind string
	node int
	ref  string
}

func (o mop) str(d *DAG) string { return fmt.Sprintf("%s(%s,%s)", o.kind, d.Nodes[o.node].Name, o.ref) }

func mops() []mop {
	return []mop{
		{"push", 0, ""}, {"push", 1, ""}, {"push", 2, ""}, {"push", 3, ""}, {"push", 4, ""}, {"pushref", 2, "t1"},
		{"tag", 2, "t2"}, {"tag", 3, "t1"}, {"delete", 2, ""}, {"delete", 0, ""}, {"delete", 3, ""}, {"mount", 1, "other/src"},
	}
}

type optset struct {
	name string
	set  func(r *remote.Repository)
}

func optsets() []optset {
	return []optset{
		{"default", func(r *remote.Repository) {}},
		{"plainhttp+pages", func(r *remote.Repository) { r.PlainHTTP = true; r.TagListPageSize = 1; r.ReferrerListPageSize = 1 }},
		{"mediatypes+skipgc", func(r *remote.Repository) {
			r.ManifestMediaTypes = []string{ocispec.MediaTypeImageManifest, ocispec.MediaTypeImageIndex}
			r.SkipReferrersGC = true
		}},
	}
}

func profiles(all bool) []Profile {
	var out []Profile
	for api := 0; api < 2; api++ {
		for dh := 0; dh < 3; dh++ {
			if !all {
				out = append(out, Profile{ReferrersAPI: api == 1, DigestHeader: dh, OCISubject: api == 1, PageSize: 1, LinkForm: dh, FilterApplied: dh})
				continue
			}
			for bits := 0; bits < 32; bits++ {
				if bits&16 != 0 && (bits&4 != 0 || dh != 0) {
					// a registry that reports a length on neither GET nor HEAD, or omits both the GET length
					// and the digest header, gives a client no way to build a descriptor: by-design errors only
					continue
				}
				out = append(out, Profile{ReferrersAPI: api == 1, DigestHeader: dh, AcceptRanges: bits&1 != 0, MountFallback: bits&2 != 0,
					NoHeadLength: bits&4 != 0, OCISubject: bits&8 != 0 && api == 1, NoGetLength: bits&16 != 0})
			}
		}
	}
	return out
}

func jobs(tier string) []driver.Job {
	var out []driver.Job
	th := tier == "thorough"
	d := universe()
	depth := 3
	if th {
		depth = 4
	}
	for oi, os := range optsets() {
		for pi, p := range profiles(oi == 0) {
			oi, os, pi, p := oi, os, pi, p
			name := fmt.Sprintf("hist/%s/%s/depth%d", os.name, p, depth)
			out = append(out, driver.Job{Name: name, Run: func(c *driver.Ctx) {
				c.Explore(driver.Scenario{Name: name, Sequential: true,
					Make: func() (func(), func(*vs.Result) *driver.Fail) { return history(c, d, p, os, depth, oi*1000+pi) }})
			}})
		}
	}
	out = append(out, seekJobs(th)...)
	out = append(out, corruptJobs(d)...)
	return out
}

func newRepo(p Profile, os optset) (*remote.Repository, *Registry) {
	g := NewRegistry(host, p)
	r, err := remote.NewRepository(host + "/" + repoName)
	if err != nil {
		panic(err)
	}
	r.Client = g
	os.set(r)
	return r, g
}

func errClass(err error) string {
	switch {
	case err == nil:
		return "ok"
	case errors.Is(err, errdef.ErrNotFound):
		return "notfound"
	}
	return "error"
}

// expected state kept by the harness (independent of the registry model's maps)
type state struct {
	blobs, mans map[int]bool
	tags        map[string]int
}

func history(c *driver.Ctx, d *DAG, p Profile, os optset, depth, salt int) (func(), func(*vs.Result) *driver.Fail) {
	var fail *driver.Fail
	var hist []string
	nontrivial := false
	body := func() {
		repo, g := newRepo(p, os)
		src := g.Repo("other/src")
		src.Blobs[d.Nodes[1].Desc.Digest] = d.Nodes[1].Bytes
		st := state{blobs: map[int]bool{}, mans: map[int]bool{}, tags: map[string]int{}}
		ctx := context.Background()
		ops := mops()
		failf := func(sig, detail string) {
			fail = &driver.Fail{Sig: sig, Detail: fmt.Sprintf("profile %s options %s\nhistory: %s\n%s", p, os.name, strings.Join(hist, " ; "), detail)}
		}
		for step := 0; step < depth; step++ {
			op := ops[vs.Choose(len(ops), vs.KInput, "op")]
			hist = append(hist, op.str(d))
			n := d.Nodes[op.node]
			var err error
			want := "ok"
			switch op.kind {
			case "push":
				err = repo.Push(ctx, n.Desc, bytes.NewReader(n.Bytes))
				if n.Kind.IsManifest() {
					st.mans[op.node] = true
				} else {
					st.blobs[op.node] = true
				}
			case "pushref":
				err = repo.PushReference(ctx, n.Desc, bytes.NewReader(n.Bytes), op.ref)
				st.mans[op.node] = true
				if _, ok := st.tags[op.ref]; ok {
					nontrivial = true
				}
				st.tags[op.ref] = op.node
			case "tag":
				if !st.mans[op.node] {
					want = "notfound"
				} else {
					if old, ok := st.tags[op.ref]; ok && old != op.node {
						nontrivial = true
					}
					st.tags[op.ref] = op.node
				}
				err = repo.Tag(ctx, n.Desc, op.ref)
			case "delete":
				nontrivial = true
				present := st.blobs[op.node] || st.mans[op.node]
				if !present {
					want = "notfound"
				}
				delete(st.blobs, op.node)
				delete(st.mans, op.node)
				for t, id := range st.tags {
					if id == op.node {
						delete(st.tags, t)
					}
				}
				err = repo.Delete(ctx, n.Desc)
			case "mount":
				nontrivial = true
				err = repo.Mount(ctx, n.Desc, op.ref, nil)
				st.blobs[op.node] = true
			}
			if got := errClass(err); got != want {
				failf(fmt.Sprintf("%s answered %s where the registry state implies %s", op.kind, got, want), fmt.Sprint(err))
				return
			}
			if len(g.Rejects) > 0 {
				failf("non-conforming request emitted: "+rejectClass(g.Rejects[0]), strings.Join(g.Rejects, "\n"))
				return
			}
			// registry state must be what the operations imply
			if bad := compareRegistry(d, g.Repo(repoName), st); bad != "" {
				failf("registry state after "+op.kind+" differs from what the operations imply", bad)
				return
			}
			if sig, detail := battery(ctx, d, repo, g, st, p, os); sig != "" {
				failf(sig, detail)
				return
			}
			if len(g.Rejects) > 0 {
				failf("non-conforming request emitted: "+rejectClass(g.Rejects[0]), strings.Join(g.Rejects, "\n"))
				return
			}
		}
	}
	check := func(res *vs.Result) *driver.Fail {
		if f := driver.StdFail(res); f != nil {
			f.Detail = fmt.Sprintf("profile %s options %s history %v\n%s", p, os.name, hist, f.Detail)
			return f
		}
		if nontrivial {
			c.Nontriv(driver.Hash(fmt.Sprint(salt), strings.Join(hist, ";")))
		}
		return fail
	}
	return body, check
}

func rejectClass(r string) string {
	if i := strings.LastIndex(r, ": "); i > 0 {
		r = r[i+2:]
	}
	if len(r) > 60 {
		r = r[:60]
	}
	return r
}

func compareRegistry(d *DAG, rr *RegRepo, st state) string {
	for _, n := range d.Nodes {
		if n.Kind.IsManifest() {
			_, ok := rr.Manifests[n.Desc.Digest]
			if ok != st.mans[n.ID] {
				return fmt.Sprintf("manifest %s present=%v expected %v", n.Name, ok, st.mans[n.ID])
			}
		} else {
			b, ok := rr.Blobs[n.Desc.Digest]
			if ok != st.blobs[n.ID] || ok && !bytes.Equal(b, n.Bytes) {
				return fmt.Sprintf("blob %s present=%v expected %v", n.Name, ok, st.blobs[n.ID])
			}
		}
	}
	for _, t := range []string{"t1", "t2"} {
		dg, ok := rr.Tags[t]
		id, want := st.tags[t]
		if ok != want || ok && dg != d.Nodes[id].Desc.Digest {
			return fmt.Sprintf("tag %s -> %v (present %v), expected present %v", t, dg, ok, want)
		}
	}
	return ""
}

// battery runs the fixed set of reads and compares each answer with the state.
func battery(ctx context.Context, d *DAG, repo *remote.Repository, g *Registry, st state, p Profile, os optset) (string, string) {
	present := func(id int) bool { return st.blobs[id] || st.mans[id] }
	headFails := p.NoHeadLength // HEAD without Content-Length: documented error
	for _, n := range d.Nodes {
		// Fetch
		rc, err := repo.Fetch(ctx, n.Desc)
		if present(n.ID) {
			if err != nil {
				return "Fetch of stored content failed", n.Name + ": " + err.Error()
			}
			b, rerr := io.ReadAll(rc)
			rc.Close()
			if rerr != nil || !bytes.Equal(b, n.Bytes) {
				return "Fetch returned bytes that differ from what was pushed", fmt.Sprintf("%s: %q err %v", n.Name, b, rerr)
			}
		} else {
			if err == nil {
				rc.Close()
				return "Fetch of absent content succeeded", n.Name
			}
			if !errors.Is(err, errdef.ErrNotFound) {
				return "Fetch of absent content did not report not-found", n.Name + ": " + err.Error()
			}
		}
		// Exists
		ex, err := repo.Exists(ctx, n.Desc)
		if err != nil {
			if !headFails {
				return "Exists failed on a fault-free exchange", n.Name + ": " + err.Error()
			}
		} else if ex != present(n.ID) {
			return "Exists does not reflect the registry's state", fmt.Sprintf("%s: %v expected %v", n.Name, ex, present(n.ID))
		}
		// Resolve by digest
		var desc ocispec.Descriptor
		if n.Kind.IsManifest() {
			desc, err = repo.Resolve(ctx, n.Desc.Digest.String())
		} else {
			desc, err = repo.Blobs().Resolve(ctx, n.Desc.Digest.String())
		}
		switch {
		case !present(n.ID):
			if !errors.Is(err, errdef.ErrNotFound) {
				return "Resolve by digest of absent content did not report not-found", fmt.Sprintf("%s: %v %v", n.Name, desc, err)
			}
		case err != nil:
			if !headFails {
				return "Resolve by digest failed on a fault-free exchange", n.Name + ": " + err.Error()
			}
		default:
			if desc.Digest != n.Desc.Digest || desc.Size != n.Desc.Size || n.Kind.IsManifest() && desc.MediaType != n.Desc.MediaType {
				return "Resolve by digest returned a descriptor that differs from the stored content", fmt.Sprintf("%s: %v", n.Name, desc)
			}
		}
	}
	// references
	m1 := d.Nodes[2]
	forms := []struct {
		ref  string
		want int // node id or -1
	}{
		{"t1", tagOr(st, "t1")}, {"t2", tagOr(st, "t2")},
		{m1.Desc.Digest.String(), manOr(st, 2)},
		{"t1@" + m1.Desc.Digest.String(), manOr(st, 2)},
		{host + "/" + repoName + ":t1", tagOr(st, "t1")},
		{host + "/" + repoName + "@" + m1.Desc.Digest.String(), manOr(st, 2)},
	}
	tagHeadFails := p.NoHeadLength || p.DigestHeader != 0 // HEAD by tag needs the digest header
	for _, f := range forms {
		byTag := !strings.Contains(f.ref, "@")
		desc, err := repo.Resolve(ctx, f.ref)
		switch {
		case f.want < 0:
			if !errors.Is(err, errdef.ErrNotFound) {
				return "Resolve of an absent reference did not report not-found", fmt.Sprintf("%s: %v %v", f.ref, desc, err)
			}
		case err != nil:
			if !(byTag && tagHeadFails) && !(!byTag && p.NoHeadLength) {
				return "Resolve failed on a fault-free exchange", f.ref + ": " + err.Error()
			}
		default:
			w := d.Nodes[f.want].Desc
			if desc.Digest != w.Digest || desc.Size != w.Size || desc.MediaType != w.MediaType {
				return "Resolve returned a descriptor that differs from the registry's state", fmt.Sprintf("%s: %v want %v", f.ref, desc, w)
			}
		}
		desc, rc, err := repo.FetchReference(ctx, f.ref)
		switch {
		case f.want < 0:
			if err == nil {
				rc.Close()
			}
			if !errors.Is(err, errdef.ErrNotFound) {
				return "FetchReference of an absent reference did not report not-found", fmt.Sprintf("%s: %v", f.ref, err)
			}
		case err != nil:
			// GET without Content-Length falls back to HEAD, which may fail by design
			if !(p.NoGetLength && (byTag && tagHeadFails || p.NoHeadLength)) {
				return "FetchReference failed on a fault-free exchange", f.ref + ": " + err.Error()
			}
		default:
			b, rerr := io.ReadAll(rc)
			rc.Close()
			w := d.Nodes[f.want]
			if rerr != nil || !bytes.Equal(b, w.Bytes) || desc.Digest != w.Desc.Digest || desc.Size != w.Desc.Size || desc.MediaType != w.Desc.MediaType {
				return "FetchReference returned a descriptor or body that differs from the registry's state", fmt.Sprintf("%s: %v %q", f.ref, desc, b)
			}
		}
	}
	// Predecessors / Referrers of M1: exactly the stored manifests naming it
	var wantRefs, wantSig []string
	if st.mans[3] {
		wantRefs = append(wantRefs, d.Nodes[3].Desc.Digest.String()+"|application/vnd.test.sig+json|v")
		wantSig = append(wantSig, d.Nodes[3].Desc.Digest.String()+"|application/vnd.test.sig+json|v")
	}
	if st.mans[4] {
		wantRefs = append(wantRefs, d.Nodes[4].Desc.Digest.String()+"|application/vnd.test.other|"+d.Nodes[4].Annotations["k"])
	}
	sort.Strings(wantRefs)
	render := func(ds []ocispec.Descriptor) []string {
		var out []string
		for _, x := range ds {
			out = append(out, x.Digest.String()+"|"+x.ArtifactType+"|"+x.Annotations["k"])
		}
		sort.Strings(out)
		return out
	}
	preds, err := repo.Predecessors(ctx, m1.Desc)
	if err != nil {
		return "Predecessors failed on a fault-free exchange", err.Error()
	}
	if fmt.Sprint(render(preds)) != fmt.Sprint(wantRefs) {
		return "Predecessors does not reflect the registry's state", fmt.Sprintf("got %v want %v (registry says %v)", render(preds), wantRefs, render(g.Repo(repoName).ReferrersOf(m1.Desc.Digest)))
	}
	for _, at := range []string{"application/vnd.test.sig+json", "application/vnd.test.none"} {
		var got []ocispec.Descriptor
		err := repo.Referrers(ctx, m1.Desc, at, func(r []ocispec.Descriptor) error { got = append(got, r...); return nil })
		if err != nil {
			return "Referrers failed on a fault-free exchange", err.Error()
		}
		w := wantSig
		if at != "application/vnd.test.sig+json" {
			w = nil
		}
		if fmt.Sprint(render(got)) != fmt.Sprint(w) {
			return "Referrers with an artifact-type filter does not reflect the registry's state", fmt.Sprintf("filter %s: got %v want %v", at, render(got), w)
		}
	}
	// Tags
	var tags []string
	if err := repo.Tags(ctx, "", func(t []string) error { tags = append(tags, t...); return nil }); err != nil {
		return "Tags failed on a fault-free exchange", err.Error()
	}
	var wantTags []string
	for t := range st.tags {
		wantTags = append(wantTags, t)
	}
	sort.Strings(wantTags)
	var userTags []string
	for _, t := range tags {
		if !strings.HasPrefix(t, "sha256-") { // referrers-tag-schema tags are the client's own bookkeeping
			userTags = append(userTags, t)
		}
	}
	if fmt.Sprint(userTags) != fmt.Sprint(wantTags) {
		return "Tags does not reflect the registry's state", fmt.Sprintf("got %v want %v", tags, wantTags)
	}
	return "", ""
}

func tagOr(st state, t string) int {
	if id, ok := st.tags[t]; ok {
		return id
	}
	return -1
}

func manOr(st state, id int) int {
	if st.mans[id] {
		return id
	}
	return -1
}

// ---- (b) Read/Seek sequences on a blob reader

func seekJobs(th bool) []driver.Job {
	depth := 3
	if th {
		depth = 4
	}
	var out []driver.Job
	nsh := 8
	for _, chunked := range []bool{false, true} {
		for sh := 0; sh < nsh; sh++ {
			sh, chunked := sh, chunked
			name := fmt.Sprintf("seek/chunked=%v/depth%d/shard%d.%d", chunked, depth, sh, nsh)
			out = append(out, driver.Job{Name: name, Run: func(c *driver.Ctx) {
				c.Explore(driver.Scenario{Name: name, Sequential: true, Shard: sh, NShard: nsh, Bounds: explore.Bounds{Fault: 1},
					Make: func() (func(), func(*vs.Result) *driver.Fail) { return seekRun(c, depth, chunked) }})
			}})
		}
	}
	return out
}

func seekRun(c *driver.Ctx, depth int, chunked bool) (func(), func(*vs.Result) *driver.Fail) {
	var fail *driver.Fail
	var hist []string
	body := func() {
		data := []byte("abcd")
		desc := ocispec.Descriptor{MediaType: MTLayer, Digest: digest.FromBytes(data), Size: 4}
		// chunked: GET answers carry no Content-Length; otherwise the last byte of a body arrives together with io.EOF
		repo, g := newRepo(Profile{AcceptRanges: true, NoGetLength: chunked}, optsets()[0])
		g.Repo(repoName).Blobs[desc.Digest] = data
		rc, err := repo.Fetch(context.Background(), desc)
		if err != nil {
			fail = &driver.Fail{Sig: "Fetch failed", Detail: err.Error()}
			return
		}
		defer rc.Close()
		rs, ok := rc.(io.ReadSeeker)
		if !ok {
			fail = &driver.Fail{Sig: "blob reader of a range-capable registry is not seekable", Detail: ""}
			return
		}
		ref := bytes.NewReader(data)
		sizes := []int{0, 1, 2, 5}
		// at most one range request of the sequence is answered 503 (fault bound F<=1): a Seek that
		// failed must leave the reader where it was, like a failed Seek on any io.Seeker
		faulted := false
		g.Hook = func(rec *ReqRecord) (int, bool) {
			if rec.Header.Get("Range") == "" || faulted {
				return 0, false
			}
			if vs.Choose(2, vs.KFault, "range-request") == 1 {
				faulted = true
				return 503, true
			}
			return 0, false
		}
		for step := 0; step < depth; step++ {
			k := vs.Choose(len(sizes)+21, vs.KInput, "rs")
			if k < len(sizes) {
				p1, p2 := make([]byte, sizes[k]), make([]byte, sizes[k])
				n1, e1 := rs.Read(p1)
				n2, e2 := ref.Read(p2)
				hist = append(hist, fmt.Sprintf("Read(%d)=%d,%q,%v", sizes[k], n1, p1[:n1], e1))
				if e1 == io.EOF && e2 == nil && n1 > 0 && ref.Len() == 0 {
					e1 = nil // io.Reader allows the end to be reported together with the last bytes
				}
				if n1 != n2 || !bytes.Equal(p1[:n1], p2[:n2]) || (e1 == nil) != (e2 == nil) || e1 != nil && e1 != e2 {
					fail = &driver.Fail{Sig: "Read on a seekable blob reader differs from bytes.Reader", Detail: fmt.Sprintf("%v\nreference: %d,%q,%v", hist, n2, p2[:n2], e2)}
					return
				}
				continue
			}
			k -= len(sizes)
			off, whence := int64(k%7-1), k/7
			was := faulted
			o1, e1 := rs.Seek(off, whence)
			if faulted && !was {
				// this Seek's range request was refused: it must report an error and not move
				hist = append(hist, fmt.Sprintf("Seek(%d,%d)=%d,%v [range request answered 503]", off, whence, o1, e1))
				if e1 == nil {
					fail = &driver.Fail{Sig: "Seek reported success although its range request failed", Detail: fmt.Sprint(hist)}
					return
				}
				continue
			}
			o2, e2 := ref.Seek(off, whence)
			hist = append(hist, fmt.Sprintf("Seek(%d,%d)=%d,%v", off, whence, o1, e1))
			if (e1 == nil) != (e2 == nil) || e1 == nil && o1 != o2 {
				fail = &driver.Fail{Sig: "Seek on a blob reader differs from bytes.Reader", Detail: fmt.Sprintf("%v\nreference: %d,%v", hist, o2, e2)}
				return
			}
		}
		if len(g.Rejects) > 0 {
			fail = &driver.Fail{Sig: "non-conforming request emitted: " + rejectClass(g.Rejects[0]), Detail: strings.Join(g.Rejects, "\n") + "\n" + strings.Join(hist, " ; ")}
		}
	}
	check := func(res *vs.Result) *driver.Fail {
		if f := driver.StdFail(res); f != nil {
			return f
		}
		c.Nontriv(driver.Hash("seek", strings.Join(hist, ";")))
		return fail
	}
	return body, check
}

// ---- (c) single-field corruption of the responses of descriptor/body-returning reads

var corruptKinds = []string{"digest-wrong", "digest-wrong-sha512", "digest-malformed", "length+1", "length-1", "length-zero", "length-absent", "ctype-other", "ctype-garbage"}

func corruptJobs(d *DAG) []driver.Job {
	var out []driver.Job
	reads := []string{"fetch-blob", "fetch-manifest", "fetchref-digest", "fetchref-tag@digest", "resolve-digest", "blobs-resolve", "blobs-fetchref"}
	for _, p := range profiles(true) {
		p := p
		out = append(out, driver.Job{Name: "corrupt/" + p.String(), Run: func(c *driver.Ctx) {
			for _, rd := range reads {
				for at := 0; at < 3; at++ {
					for _, kind := range corruptKinds {
						corruptOne(c, d, p, rd, at, kind)
					}
				}
			}
		}})
	}
	return out
}

func corruptOne(c *driver.Ctx, d *DAG, p Profile, rd string, at int, kind string) {
	if kind == "length-zero" && rd != "fetch-blob" && rd != "fetch-manifest" {
		return // judged only where a descriptor with its size was passed in
	}
	repo, g := newRepo(p, optsets()[0])
	rr := g.Repo(repoName)
	b2, m1 := d.Nodes[1], d.Nodes[2]
	rr.Blobs[b2.Desc.Digest] = b2.Bytes
	rr.Blobs[d.Nodes[0].Desc.Digest] = d.Nodes[0].Bytes
	regPut(rr, m1)
	rr.Tags["t1"] = m1.Desc.Digest
	g.Corrupt = Corruption{At: at, Kind: kind}
	ctx := context.Background()
	var err error
	var desc ocispec.Descriptor
	var body []byte
	var rc io.ReadCloser
	want := m1
	switch rd {
	case "fetch-blob":
		want = b2
		rc, err = repo.Fetch(ctx, b2.Desc)
		desc = b2.Desc
	case "fetch-manifest":
		rc, err = repo.Fetch(ctx, m1.Desc)
		desc = m1.Desc
	case "fetchref-digest":
		desc, rc, err = repo.FetchReference(ctx, m1.Desc.Digest.String())
	case "fetchref-tag@digest":
		desc, rc, err = repo.FetchReference(ctx, "t1@"+m1.Desc.Digest.String())
	case "resolve-digest":
		desc, err = repo.Resolve(ctx, m1.Desc.Digest.String())
	case "blobs-resolve":
		want = b2
		desc, err = repo.Blobs().Resolve(ctx, b2.Desc.Digest.String())
	case "blobs-fetchref":
		want = b2
		desc, rc, err = repo.Blobs().FetchReference(ctx, b2.Desc.Digest.String())
	}
	if err == nil && rc != nil {
		body, _ = io.ReadAll(rc)
		rc.Close()
	}
	c.Evals++
	c.States++
	c.Transitions += int64(len(g.Log))
	c.Traces++
	if g.Applied == "" {
		return // the call issued fewer requests, or the field was not present in that response
	}
	c.Nontriv(driver.Hash(p.String(), rd, fmt.Sprint(at), kind))
	// what was requested: the digest always; size and media type only when a descriptor was passed in
	byDesc := rd == "fetch-blob" || rd == "fetch-manifest"
	contradicts := false
	switch kind {
	case "digest-wrong", "digest-wrong-sha512", "digest-malformed":
		contradicts = true
	case "length+1", "length-1", "length-zero":
		contradicts = byDesc
	case "ctype-other", "ctype-garbage":
		contradicts = rd == "fetch-manifest"
	}
	// the corrupted response must be one that answers the request itself (not an auxiliary exchange)
	detail := fmt.Sprintf("profile %s, %s, response %d corrupted with %s; returned desc %v body %q err %v", p, rd, at, kind, desc, body, err)
	if contradicts && err == nil {
		c.AddViolation(driver.Violation{Tier: c.Tier, Job: c.Job, Scenario: rd, Sig: fmt.Sprintf("%s: response contradicting the request (%s) accepted", rd, kind), Detail: detail})
		return
	}
	if err == nil {
		// never an inconsistent descriptor or body with respect to what was requested
		if desc.Digest != want.Desc.Digest || rc != nil && !bytes.Equal(body, want.Bytes) {
			c.AddViolation(driver.Violation{Tier: c.Tier, Job: c.Job, Scenario: rd, Sig: rd + ": inconsistent descriptor or body returned without error", Detail: detail})
		}
	}
}

func regPut(rr *RegRepo, n *Node) {
	rr.PutManifest(n.Desc.Digest, n.Bytes, n.Desc.MediaType)
}

var _ = registry.Reference{}
