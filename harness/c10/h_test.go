package c10

import (
	"context"
	"fmt"
	"os"
	"path/filepath"
	"strings"
	"testing"

	"oras.land/oras-go/v2/content/oci"
	. "oras.land/oras-go/v2/internal/zzverif/common"
	"verif.local/engine/driver"
	"verif.local/engine/vos"
	"verif.local/engine/vs"
)

func TestVerif(t *testing.T) {
	driver.Main(t, driver.Harness{
		ID:    "C10",
		Level: "fault_enumeration",
		Rule: "every scripted history of length <= 4 (thorough 5) over {Push x5, Tag x6, Untag x2, Delete x4, GC, SaveIndex} on an initialised OCI layout (AutoSaveIndex on, AutoGC on and off); the last operation is the interrupted one: " +
			"for every k from 1 to the number of mutating file-system operations it issues, the disk is frozen before the k-th one (every later operation fails without touching the disk, as after SIGKILL), " +
			"and once more with the process ending right after the call returned; then the directory is reopened and checked: opens, every blob file matches its name, every index entry names an existing blob, tag map = before or after, earlier effects present. " +
			"concurrent: six pairs of non-conflicting operations (tag|tag, tag|push manifest, untag|tag, push|push, tag|SaveIndex, push blob|tag) issued by two goroutines on one open store under every schedule within D<=2 [thorough D<=3] around three base schedulers x every crash point k = 0..16 counted over the mutating file-system operations of both (0: no crash): the directory reopens, blobs and index are valid, and the effect of every operation that returned nil is present. " +
			"the histories of length <= 2 are run once more on a layout whose index.json is a symbolic link to a file outside the layout directory. evaluations = crash points explored; non-trivial = distinct (history, k) with k after the first mutating operation of the interrupted call",
		Assumptions: []string{
			"process-kill model: kernel state = the system calls that completed; torn pages / lost unsynced data (power loss) are outside the property",
			"the vos shim issues the same mutating system-call sequence as the os package (validated against strace by tools/crashconf, see DESIGN.md)",
		},
		Jobs:           jobs,
		BudgetQuick:    200,
		BudgetThorough: 1500,
	})
}

func universe() *DAG { return CrashUniverse() }

var refs = []string{"a", "b", "c"}

func alphabet(d *DAG) []Op { return CrashAlphabet(d) }

func jobs(tier string) []driver.Job {
	var out []driver.Job
	th := tier == "thorough"
	d := universe()
	ops := alphabet(d)
	depth := 4
	if th {
		depth = 5
	}
	for _, autogc := range []bool{true, false} {
		nsh := 64
		for sh := 0; sh < nsh; sh++ {
			sh, autogc := sh, autogc
			name := fmt.Sprintf("autogc=%v/len<=%d/shard%d.%d", autogc, depth, sh, nsh)
			out = append(out, driver.Job{Name: name, Run: func(c *driver.Ctx) {
				c.Explore(driver.Scenario{
					Name: name, Sequential: true, Shard: sh, NShard: nsh,
					Make: func() (func(), func(*vs.Result) *driver.Fail) { return run(c, d, ops, autogc, depth) },
				})
			}})
		}
	}
	// a layout whose index.json is a symbolic link to a file kept elsewhere (a shared volume)
	for sh := 0; sh < 8; sh++ {
		sh := sh
		name := fmt.Sprintf("index.json-is-a-symlink/autogc=true/len<=2/shard%d.8", sh)
		out = append(out, driver.Job{Name: name, Run: func(c *driver.Ctx) {
			c.Explore(driver.Scenario{
				Name: name, Sequential: true, Shard: sh, NShard: 8,
				Make: func() (func(), func(*vs.Result) *driver.Fail) {
					b, ch := run(c, d, ops, true, 2)
					return func() { linkIndex = true; defer func() { linkIndex = false }(); b() }, ch
				},
			})
		}})
	}
	return append(confJobs(th), append(concJobs(th), out...)...)
}

// linkIndex: replay turns index.json of the initialised layout into a symbolic link before the history starts.
var linkIndex bool

func rmLayout(dir string) {
	os.RemoveAll(dir)
	os.RemoveAll(dir + ".shared")
}

// replay runs hist on a fresh initialised layout under plan; it returns the
// directory and the live store (nil when the store could not even be used).
func replay(d *DAG, hist []Op, autogc bool, plan *vos.Plan, upto int) (dir string, st *oci.Store, errs []error) {
	dir = Scratch("c10")
	vos.SetPlan(nil)
	st, err := oci.New(dir) // initialisation is not part of the interrupted history
	if err != nil {
		panic(err)
	}
	if linkIndex {
		if err := os.Mkdir(dir+".shared", 0o755); err != nil {
			panic(err)
		}
		if err := os.Rename(filepath.Join(dir, "index.json"), filepath.Join(dir+".shared", "index.json")); err != nil {
			panic(err)
		}
		if err := os.Symlink(filepath.Join("..", filepath.Base(dir)+".shared", "index.json"), filepath.Join(dir, "index.json")); err != nil {
			panic(err)
		}
		if st, err = oci.New(dir); err != nil {
			panic(err)
		}
	}
	st.AutoGC = autogc
	vos.SetPlan(plan)
	for i, op := range hist {
		if i >= upto {
			break
		}
		plan.ResetBudget()
		func() {
			defer func() {
				if r := recover(); r != nil {
					if _, ok := r.(vos.BudgetExceeded); ok {
						panic(r)
					}
					errs = append(errs, fmt.Errorf("panic: %v", r))
				}
			}()
			errs = append(errs, ApplyOCI(st, d, op))
		}()
	}
	vos.SetPlan(nil)
	return
}

func tagPart(obs string) string {
	var out []string
	for _, l := range strings.Split(obs, "\n") {
		if strings.HasPrefix(l, "ref ") || strings.HasPrefix(l, "tags=") {
			out = append(out, l)
		}
	}
	return strings.Join(out, "\n")
}

func nodeLines(obs string) map[string]string {
	out := map[string]string{}
	for _, l := range strings.Split(obs, "\n") {
		if i := strings.Index(l, ":exists="); i > 0 {
			j := strings.Index(l, ",preds=")
			out[l[:i]] = l[i+1 : j]
		}
	}
	return out
}

func run(c *driver.Ctx, d *DAG, ops []Op, autogc bool, depth int) (func(), func(*vs.Result) *driver.Fail) {
	var fail *driver.Fail
	var hs string
	body := func() {
		// history: length 1..depth; choice 0 at a later position ends it
		var hist []Op
		for i := 0; i < depth; i++ {
			n := len(ops)
			k := 0
			if i == 0 {
				k = vs.Choose(n, vs.KInput, "op")
			} else {
				k = vs.Choose(n+1, vs.KInput, "op") - 1
				if k < 0 {
					break
				}
			}
			hist = append(hist, ops[k])
		}
		var names []string
		for _, o := range hist {
			names = append(names, o.Str(d))
		}
		hs = strings.Join(names, " ; ")
		last := len(hist) - 1
		// clean runs: state before and after the interrupted operation
		planB := &vos.Plan{Budget: 50000}
		dirB, stB, _ := replay(d, hist, autogc, planB, last)
		before := Observe(stB, d, refs, false)
		n0 := planB.NMut
		rmLayout(dirB)
		planA := &vos.Plan{Budget: 50000, KeepLog: true}
		dirA, stA, _ := replay(d, hist, autogc, planA, len(hist))
		after := Observe(stA, d, refs, false)
		n1 := planA.NMut
		rmLayout(dirA)
		c.Count("histories", 1)
		// the process ends right after the last operation returned (no further system call is lost): what is
		// on disk must already be the state after it - also when the operation issued no write at all
		{
			plan := &vos.Plan{Budget: 50000}
			dir, _, _ := replay(d, hist, autogc, plan, len(hist))
			c.Evals++
			c.Count("crash_points", 1)
			desc := fmt.Sprintf("history: %s\nthe process ends after the last call returned (it issued %d mutating file-system operations)", hs, n1-n0)
			f := recoverCheck(d, dir, after, after, desc, "return of the last call")
			rmLayout(dir)
			if f != nil {
				fail = f
				return
			}
		}
		for k := n0 + 1; k <= n1; k++ {
			plan := &vos.Plan{Budget: 50000, CrashAt: k}
			dir, _, _ := replay(d, hist, autogc, plan, len(hist))
			c.Evals++
			c.Count("crash_points", 1)
			if k > n0+1 {
				c.Nontriv(driver.Hash(fmt.Sprint(autogc), hs, fmt.Sprint(k)))
			}
			desc := fmt.Sprintf("history: %s\ncrash before mutating file-system operation %d of the last call (%d..%d); that operation: %s", hs, k-n0, n0+1, n1, opAt(planA, k))
			if f := recoverCheck(d, dir, before, after, desc, opAt(planA, k)); f != nil {
				fail = f
				rmLayout(dir)
				return
			}
			rmLayout(dir)
		}
	}
	check := func(res *vs.Result) *driver.Fail {
		vos.SetPlan(nil)
		for _, p := range res.Panics {
			if strings.Contains(p, "operation budget exceeded") {
				return &driver.Fail{Sig: "operation does not terminate (file-system operation budget exceeded)", Detail: hs}
			}
		}
		if f := driver.StdFail(res); f != nil {
			f.Detail = hs + "\n" + f.Detail
			return f
		}
		return fail
	}
	return body, check
}

func opAt(p *vos.Plan, k int) string {
	n := 0
	for _, o := range p.Log {
		if o.Mutating {
			n++
			if n == k {
				base := filepath.Base(o.Path)
				if len(base) > 20 {
					base = "<blob>"
				}
				return o.Kind + " " + filepath.Base(filepath.Dir(o.Path)) + "/" + base
			}
		}
	}
	return "?"
}

func recoverCheck(d *DAG, dir, before, after, desc, at string) *driver.Fail {
	site := at
	if i := strings.IndexByte(at, ' '); i > 0 {
		site = at[:i] + " " + classifyPath(at[i+1:])
	}
	st, err := oci.New(dir)
	if err != nil {
		return &driver.Fail{Sig: "layout cannot be opened after a crash before " + site, Detail: desc + "\noci.New: " + err.Error()}
	}
	if bad := ValidateBlobsStrict(dir); bad != "" {
		return &driver.Fail{Sig: "incomplete or corrupt blob file after a crash before " + site, Detail: desc + "\n" + bad}
	}
	ents, err := IndexEntries(dir)
	if err != nil {
		return &driver.Fail{Sig: "index.json unreadable after a crash before " + site, Detail: desc + "\n" + err.Error()}
	}
	for _, e := range ents {
		if _, err := os.Stat(filepath.Join(dir, "blobs", e.Digest.Algorithm().String(), e.Digest.Encoded())); err != nil {
			return &driver.Fail{Sig: "index entry names a missing blob after a crash before " + site, Detail: desc + "\nentry " + e.Digest.String()}
		}
	}
	got := Observe(st, d, refs, false)
	if tp := tagPart(got); tp != tagPart(before) && tp != tagPart(after) {
		return &driver.Fail{Sig: "tag mapping is neither the one before nor the one after the interrupted operation (crash before " + site + ")",
			Detail: desc + "\n--- recovered\n" + tp + "\n--- before\n" + tagPart(before) + "\n--- after\n" + tagPart(after)}
	}
	gb, ga, gg := nodeLines(before), nodeLines(after), nodeLines(got)
	for n, b := range gb {
		if b == ga[n] && gg[n] != b {
			return &driver.Fail{Sig: "effect of an earlier operation lost (crash before " + site + ")", Detail: fmt.Sprintf("%s\nnode %s: before=after=%s recovered=%s", desc, n, b, gg[n])}
		}
	}
	_ = context.Background
	return nil
}

func classifyPath(p string) string {
	switch {
	case strings.Contains(p, "index.json"):
		return "index.json"
	case strings.Contains(p, "ingest"):
		return "ingest file"
	case strings.Contains(p, "sha256") || strings.Contains(p, "blob"):
		return "blob file"
	}
	return p
}
