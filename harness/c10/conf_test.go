package c10

import (
	"crypto/sha256"
	"fmt"
	"os"
	"os/exec"
	"path/filepath"
	"regexp"
	"sort"
	"strconv"
	"strings"

	. "oras.land/oras-go/v2/internal/zzverif/common"
	"verif.local/engine/driver"
	"verif.local/engine/vos"
)

// Conformance of the vos shim to the kernel: the same scripted histories are run
// (a) in-process on the instrumented store with the vos operation log kept, and
// (b) by the UNINSTRUMENTED driver binary under strace. The sequences of mutating
// operations on paths under the layout must be equal, operation for operation.
// For a subset every crash point is also produced for real: strace kills the
// driver with SIGKILL at the entry of the k-th mutating system call and the
// surviving directory tree must equal the tree the vos shim froze at the same k.

const straceSet = "mkdirat,mkdir,openat,open,creat,write,pwrite64,writev,fchmodat,fchmod,chmod,renameat,renameat2,rename,unlinkat,unlink,rmdir,linkat,symlinkat,ftruncate,truncate"

var tmpSuffix = regexp.MustCompile(`(ingest/[0-9a-f]{64})_[0-9]+`)

func norm(dir, p string) string {
	p = strings.TrimPrefix(p, strings.TrimSuffix(dir, "/"))
	p = strings.TrimPrefix(p, "/")
	return tmpSuffix.ReplaceAllString(p, "${1}_*")
}

type sysop struct {
	name string // system call
	kind string // vos kind
	path string
	raw  int    // ordinal of this call among the calls of the same name made by the same thread (1-based)
	pid  string // the thread (tracee) that made it
}

var lineRe = regexp.MustCompile(`^(\d+)\s+([a-z0-9_]+)\((.*)$`)
var resumedRe = regexp.MustCompile(`^(\d+)\s+<\.\.\. ([a-z0-9_]+) resumed>(.*)$`)
var quoted = regexp.MustCompile(`"((?:[^"\\]|\\.)*)"`)
var fdPath = regexp.MustCompile(`^\d+<([^>]*)>`)

// parseStrace returns the mutating system calls on paths under dir issued after the MARK file was written.
func parseStrace(log, dir string) ([]sysop, map[string]int, error) {
	b, err := os.ReadFile(log)
	if err != nil {
		return nil, nil, err
	}
	counts := map[string]int{}
	pending := map[string]string{}
	var out []sysop
	marked := false
	for _, line := range strings.Split(string(b), "\n") {
		if m := resumedRe.FindStringSubmatch(line); m != nil {
			line = pending[m[1]] + m[3]
			delete(pending, m[1])
			// the call was already counted and positioned at its start
			continue
		}
		m := lineRe.FindStringSubmatch(line)
		if m == nil {
			continue
		}
		pid, name, rest := m[1], m[2], m[3]
		if strings.Contains(rest, "<unfinished ...>") {
			pending[pid] = line
		}
		counts[pid+" "+name]++
		ord := counts[pid+" "+name]
		qs := quoted.FindAllStringSubmatch(rest, -1)
		first := ""
		if len(qs) > 0 {
			first = qs[0][1]
		}
		if strings.HasSuffix(first, ".MARK") && (name == "openat" || name == "open") {
			marked = true
			continue
		}
		if !marked {
			continue
		}
		switch name {
		case "openat", "open", "creat":
			if !strings.HasPrefix(first, dir) {
				continue
			}
			if !(strings.Contains(rest, "O_CREAT") || strings.Contains(rest, "O_TRUNC") || strings.Contains(rest, "O_WRONLY") || strings.Contains(rest, "O_RDWR")) {
				continue
			}
			out = append(out, sysop{name, "openat", norm(dir, first), ord, pid})
		case "write", "pwrite64", "writev":
			fm := fdPath.FindStringSubmatch(rest)
			if fm == nil || !strings.HasPrefix(fm[1], dir) {
				continue
			}
			out = append(out, sysop{name, "write", norm(dir, fm[1]), ord, pid})
		case "mkdirat", "mkdir":
			if strings.HasPrefix(first, dir) {
				out = append(out, sysop{name, "mkdir", norm(dir, first), ord, pid})
			}
		case "fchmodat", "chmod":
			if strings.HasPrefix(first, dir) {
				out = append(out, sysop{name, "chmod", norm(dir, first), ord, pid})
			}
		case "fchmod":
			fm := fdPath.FindStringSubmatch(rest)
			if fm != nil && strings.HasPrefix(fm[1], dir) {
				out = append(out, sysop{name, "fchmod", norm(dir, fm[1]), ord, pid})
			}
		case "renameat", "renameat2", "rename":
			if len(qs) >= 2 && strings.HasPrefix(first, dir) {
				out = append(out, sysop{name, "rename", norm(dir, first) + " -> " + norm(dir, qs[1][1]), ord, pid})
			}
		case "unlinkat", "unlink", "rmdir":
			if strings.HasPrefix(first, dir) {
				out = append(out, sysop{name, "unlink", norm(dir, first), ord, pid})
			}
		}
	}
	if !marked {
		return nil, nil, fmt.Errorf("MARK not found in strace log")
	}
	return out, counts, nil
}

func vosOps(dir string, log []vos.Op) []string {
	var out []string
	for _, o := range log {
		if !o.Mutating {
			continue
		}
		p := norm(dir, o.Path)
		if o.Kind == "rename" {
			p += " -> " + norm(dir, o.Path2)
		}
		out = append(out, o.Kind+" "+p)
	}
	return out
}

// tree renders the directory tree (normalised names, type, permission bits, size, content hash).
func tree(dir string) string {
	var out []string
	filepath.Walk(dir, func(p string, fi os.FileInfo, err error) error {
		if err != nil || p == dir {
			return nil
		}
		rel := norm(dir, p)
		if fi.IsDir() {
			out = append(out, fmt.Sprintf("%s/ %o", rel, fi.Mode().Perm()))
			return nil
		}
		b, _ := os.ReadFile(p)
		out = append(out, fmt.Sprintf("%s %o %d %x", rel, fi.Mode().Perm(), fi.Size(), sha256.Sum256(b)))
		return nil
	})
	sort.Strings(out)
	return strings.Join(out, "\n")
}

func confJobs(th bool) []driver.Job {
	drv := os.Getenv("VERIF_PLAIN_DRIVER")
	if drv == "" {
		return nil
	}
	d := universe()
	ops := alphabet(d)
	// histories: every single operation, every ordered pair, and a few longer scripted ones
	var hists [][]int
	for i := range ops {
		hists = append(hists, []int{i})
	}
	for i := range ops {
		for j := range ops {
			hists = append(hists, []int{i, j})
		}
	}
	hists = append(hists,
		[]int{0, 1, 2, 5, 11, 7, 14},  // push B1 B2 M1, tag a, untag a, tag b, delete M1
		[]int{0, 1, 2, 3, 5, 17},      // push all, tag, gc
		[]int{0, 2, 3, 9, 14, 17, 18}, // manifests before blobs, annotated tag, delete, gc, save
		[]int{4, 10, 13, 17},          // blob tag, delete blob, gc
	)
	kills := 12
	if th {
		kills = 48
	}
	var out []driver.Job
	nsh := 16
	for sh := 0; sh < nsh; sh++ {
		sh := sh
		out = append(out, driver.Job{Name: fmt.Sprintf("conformance/shard%d.%d", sh, nsh), Run: func(c *driver.Ctx) {
			for hi, h := range hists {
				if hi%nsh != sh {
					continue
				}
				if c.Expired() {
					c.Capped = true
					return
				}
				conform(c, drv, d, ops, h, hi%(len(hists)/kills+1) == 0)
			}
		}})
	}
	return out
}

func runPlain(drv, dir string, h []int, inject string) (string, error) {
	log := dir + ".strace"
	args := []string{"-f", "-y", "-qq", "-s", "0", "-e", "trace=" + straceSet}
	if inject != "" {
		args = append(args, "-e", "inject="+inject)
	}
	args = append(args, "-o", log, drv, dir, "1")
	for _, i := range h {
		args = append(args, strconv.Itoa(i))
	}
	cmd := exec.Command("strace", args...)
	cmd.Env = append(os.Environ(), "GOMAXPROCS=1")
	out, err := cmd.CombinedOutput()
	if err != nil && inject == "" {
		return log, fmt.Errorf("strace/driver failed: %v: %s", err, out)
	}
	return log, nil
}

func conform(c *driver.Ctx, drv string, d *DAG, ops []Op, h []int, kill bool) {
	var hist []Op
	var names []string
	for _, i := range h {
		hist = append(hist, ops[i])
		names = append(names, ops[i].Str(d))
	}
	hs := strings.Join(names, " ; ")
	viol := func(sig, detail string) {
		// a disagreement between the shim and the kernel is a broken assumption of the crash enumeration,
		// not a violation of the property by oras-go: reported as a note (exit code unaffected, exhaustive=false)
		c.Count("conformance_disagreements", 1)
		c.Notes = append(c.Notes, "ASSUMPTION-BROKEN vos shim: "+sig+"\nhistory: "+hs+"\n"+detail)
	}
	// (a) instrumented run
	plan := &vos.Plan{KeepLog: true, Budget: 50000}
	dirV, _, _ := replay(d, hist, true, plan, len(hist))
	want := vosOps(dirV, plan.Log)
	os.RemoveAll(dirV)
	// (b) uninstrumented run under strace
	dirP := Scratch("c10plain")
	os.RemoveAll(dirP)
	defer func() { os.RemoveAll(dirP); os.Remove(dirP + ".MARK"); os.Remove(dirP + ".strace") }()
	log, err := runPlain(drv, dirP, h, "")
	if err != nil {
		c.Count("conformance_skipped_strace_unavailable", 1)
		return
	}
	sys, _, err := parseStrace(log, dirP+"/")
	if err != nil {
		c.Count("conformance_skipped_strace_unavailable", 1)
		return
	}
	var got []string
	for _, s := range sys {
		got = append(got, s.kind+" "+s.path)
	}
	c.Evals++
	c.Count("conformance_histories", 1)
	c.Count("conformance_syscalls_compared", int64(len(got)))
	// the order in which dangling blobs are unlinked follows Go's map iteration order in the real run
	// (canonical order in the instrumented run): compare maximal runs of blob unlinks as multisets
	got, want = sortUnlinkRuns(got), sortUnlinkRuns(want)
	if strings.Join(got, "\n") != strings.Join(want, "\n") {
		viol("mutating operation sequence differs from the system calls of the uninstrumented run", "--- vos\n"+strings.Join(want, "\n")+"\n--- strace\n"+strings.Join(got, "\n"))
		return
	}
	c.Nontriv(driver.Hash("conf", hs))
	if !kill {
		return
	}
	// (c) real SIGKILL at the entry of every mutating system call vs the vos-frozen tree
	for i := 1; i < len(got); i++ {
		if strings.HasPrefix(got[i], "unlink blobs/") && strings.HasPrefix(got[i-1], "unlink blobs/") {
			c.Count("sigkill_skipped_map_order", 1)
			return // which blob is unlinked first depends on map iteration order in the real run
		}
	}
	for _, x := range sys {
		if x.pid != sys[0].pid {
			c.Count("sigkill_skipped_multithreaded", 1)
			return // calls spread over several threads: the per-thread injection counter cannot address them
		}
	}
	for k := 1; k <= len(sys); k++ {
		tgt := sys[k-1]
		os.RemoveAll(dirP)
		os.Remove(dirP + ".MARK")
		if _, err := runPlain(drv, dirP, h, fmt.Sprintf("%s:signal=SIGKILL:when=%d", tgt.name, tgt.raw)); err != nil {
			c.Count("conformance_skipped_strace_unavailable", 1)
			return
		}
		real := tree(dirP)
		pk := &vos.Plan{CrashAt: k, Budget: 50000}
		dirK, _, _ := replay(d, hist, true, pk, len(hist))
		frozen := tree(dirK)
		os.RemoveAll(dirK)
		c.Evals++
		c.Count("sigkill_points", 1)
		for retry := 0; retry < 2 && real != frozen; retry++ {
			// thread placement of the runtime can shift strace's per-thread injection counter: confirm before reporting
			os.RemoveAll(dirP)
			os.Remove(dirP + ".MARK")
			runPlain(drv, dirP, h, fmt.Sprintf("%s:signal=SIGKILL:when=%d", tgt.name, tgt.raw))
			real = tree(dirP)
			c.Count("sigkill_retries", 1)
		}
		if real != frozen {
			viol("directory tree after a real SIGKILL differs from the tree frozen by the shim", fmt.Sprintf("kill at entry of mutating call %d (%s %s)\n--- real\n%s\n--- vos\n%s", k, tgt.name, tgt.path, real, frozen))
			return
		}
	}
}

func sortUnlinkRuns(ops []string) []string {
	out := append([]string{}, ops...)
	for i := 0; i < len(out); {
		j := i
		for j < len(out) && strings.HasPrefix(out[j], "unlink blobs/") {
			j++
		}
		if j > i {
			sort.Strings(out[i:j])
			i = j
		} else {
			i++
		}
	}
	return out
}
