package c10

import (
	"context"
	"fmt"
	"os"
	"strings"

	"oras.land/oras-go/v2/content/oci"
	. "oras.land/oras-go/v2/internal/zzverif/common"
	"verif.local/engine/driver"
	"verif.local/engine/explore"
	"verif.local/engine/vos"
	"verif.local/engine/vs"
)

// Two operations on one open store from two goroutines, under every schedule
// within the bound, crossed with every crash point (the disk is frozen before
// the k-th mutating file-system operation that the two together issue; k = 0:
// no crash, the process simply ends). The pairs are chosen so that the two
// operations do not conflict: whatever one of them reported as done (nil)
// must be found when the directory is opened again, in every order.

type pair struct {
	name string
	pre  []Op // sequential set-up, not interrupted
	a, b Op
}

func pairs(d *DAG) []pair {
	push := func(n int) Op { return Op{Kind: "push", Node: n} }
	tag := func(n int, r string) Op { return Op{Kind: "tag", Node: n, Ref: r} }
	base := []Op{push(0), push(1), push(2)} // B1, B2, M1
	return []pair{
		{"tag(M1,a)|tag(M1,b)", base, tag(2, "a"), tag(2, "b")},
		{"tag(M1,a)|push(M2)", base, tag(2, "a"), push(3)},
		{"untag(t)|tag(M1,a)", append(append([]Op{}, base...), tag(2, "t")), Op{Kind: "untag", Ref: "t"}, tag(2, "a")},
		{"push(M1)|push(M2)", []Op{push(0), push(1)}, push(2), push(3)},
		{"tag(M1,a)|save", base, tag(2, "a"), Op{Kind: "save"}},
		{"push(B3)|tag(M1,a)", base, push(4), tag(2, "a")},
	}
}

func concJobs(th bool) []driver.Job {
	d := universe()
	var out []driver.Job
	b := explore.Bounds{Dev: 2}
	nsh := 2
	if th {
		b = explore.Bounds{Dev: 3}
		nsh = 8
	}
	for _, p := range pairs(d) {
		for sh := 0; sh < nsh; sh++ {
			p, sh := p, sh
			name := fmt.Sprintf("conc/%s/%v/shard%d.%d", p.name, b, sh, nsh)
			out = append(out, driver.Job{Name: name, Run: func(c *driver.Ctx) {
				c.Explore(driver.Scenario{
					Name: name, Bases: []int{0, 1, 2}, Bounds: b, Shard: sh, NShard: nsh,
					Make: func() (func(), func(*vs.Result) *driver.Fail) { return concRun(c, d, p) },
				})
			}})
		}
	}
	return out
}

// maxCrash bounds the crash-point choice: no pair issues more mutating operations than this.
const maxCrash = 16

func concRun(c *driver.Ctx, d *DAG, p pair) (func(), func(*vs.Result) *driver.Fail) {
	dir := Scratch("c10c")
	vos.SetPlan(nil)
	st, err := oci.New(dir)
	if err != nil {
		panic(err)
	}
	for _, op := range p.pre {
		if err := ApplyOCI(st, d, op); err != nil {
			panic(fmt.Sprintf("set-up %s: %v", op.Str(d), err))
		}
	}
	plan := &vos.Plan{Budget: 50000}
	var errA, errB error
	doneA, doneB := false, false
	k := 0
	body := func() {
		k = vs.Choose(maxCrash+1, vs.KCrash, "crash")
		plan.CrashAt = k
		vos.SetPlan(plan)
		fin := make(chan int, 2)
		vs.Go(func() {
			e := ApplyOCI(st, d, p.a)
			vs.Atomic(func() { errA, doneA = e, true })
			vs.Send(fin, 0)
		})
		vs.Go(func() {
			e := ApplyOCI(st, d, p.b)
			vs.Atomic(func() { errB, doneB = e, true })
			vs.Send(fin, 1)
		})
		vs.Recv(fin)
		vs.Recv(fin)
	}
	check := func(res *vs.Result) *driver.Fail {
		crashed := plan.Frozen
		nmut := plan.NMut
		vos.SetPlan(nil)
		defer os.RemoveAll(dir)
		desc := fmt.Sprintf("set-up: %s\nconcurrently: %s -> %v || %s -> %v\ncrash point k=%d (disk frozen: %v; mutating operations issued: %d)",
			opsStr(d, p.pre), p.a.Str(d), errA, p.b.Str(d), errB, k, crashed, nmut)
		for _, pn := range res.Panics {
			if strings.Contains(pn, "operation budget exceeded") {
				return &driver.Fail{Sig: "operation does not terminate (file-system operation budget exceeded)", Detail: desc}
			}
		}
		if f := driver.StdFail(res); f != nil {
			f.Detail = desc + "\n" + f.Detail
			return f
		}
		if !doneA || !doneB {
			return &driver.Fail{Sig: "concurrent operation did not return", Detail: desc}
		}
		if k > nmut && crashed {
			panic("harness: frozen without reaching the crash point")
		}
		if !crashed {
			c.Count("conc_runs_without_crash", 1)
			if errA != nil || errB != nil {
				return &driver.Fail{Sig: "concurrent non-conflicting operation failed without any crash", Detail: desc}
			}
		} else {
			c.Count("conc_crash_points", 1)
		}
		if len(res.Trace) > 0 {
			c.Nontriv(driver.Hash("conc", p.name, fmt.Sprint(res.Choices())))
		}
		// recovery
		ro, err := oci.New(dir)
		if err != nil {
			return &driver.Fail{Sig: "layout cannot be opened after a crash during concurrent operations", Detail: desc + "\noci.New: " + err.Error()}
		}
		if bad := ValidateBlobsStrict(dir); bad != "" {
			return &driver.Fail{Sig: "incomplete or corrupt blob file after a crash during concurrent operations", Detail: desc + "\n" + bad}
		}
		if bad := ValidateLayout(dir); bad != "" {
			return &driver.Fail{Sig: "layout invalid after a crash during concurrent operations", Detail: desc + "\n" + bad}
		}
		ctx := context.Background()
		for _, x := range []struct {
			op  Op
			err error
		}{{p.a, errA}, {p.b, errB}} {
			if x.err != nil {
				continue
			}
			lost := ""
			switch x.op.Kind {
			case "tag":
				got, rerr := ro.Resolve(ctx, x.op.Ref)
				if rerr != nil || got.Digest != d.Nodes[x.op.Node].Desc.Digest {
					lost = fmt.Sprintf("Resolve(%q) after reopening: %v %v", x.op.Ref, got.Digest, rerr)
				}
			case "untag":
				if _, rerr := ro.Resolve(ctx, x.op.Ref); rerr == nil {
					lost = fmt.Sprintf("Resolve(%q) still succeeds after reopening", x.op.Ref)
				}
			case "push":
				n := d.Nodes[x.op.Node]
				if ok, _ := ro.Exists(ctx, n.Desc); !ok {
					lost = n.Name + " does not exist after reopening"
				} else if n.Kind.IsManifest() {
					if _, rerr := ro.Resolve(ctx, n.Desc.Digest.String()); rerr != nil {
						lost = n.Name + " is not in the index after reopening: " + rerr.Error()
					}
				}
			}
			if lost != "" {
				return &driver.Fail{Sig: "effect of an operation that had returned is lost after reopening (concurrent operations, " + x.op.Kind + ")", Detail: desc + "\n" + x.op.Str(d) + " returned nil; " + lost}
			}
		}
		// the set-up survives
		for _, op := range p.pre {
			if op.Kind == "push" {
				if ok, _ := ro.Exists(ctx, d.Nodes[op.Node].Desc); !ok {
					return &driver.Fail{Sig: "effect of an earlier operation lost (concurrent operations)", Detail: desc + "\n" + d.Nodes[op.Node].Name + " missing"}
				}
			}
		}
		return nil
	}
	return body, check
}

func opsStr(d *DAG, ops []Op) string {
	var s []string
	for _, o := range ops {
		s = append(s, o.Str(d))
	}
	return strings.Join(s, " ; ")
}
