// Command c10plain is the UNINSTRUMENTED conformance driver of the crash
// harness: it replays a scripted OCI-layout history with the real os package so
// that strace can record (and SIGKILL can interrupt) the real system calls.
//
//	c10plain <dir> <autogc:0|1> <op index>...
//
// The layout is initialised first; a zero-byte file MARK is written next to the
// layout directory immediately before the history starts.
package main

import (
	_ "crypto/sha256"
	_ "crypto/sha512"
	"fmt"
	"os"
	"runtime"
	"strconv"

	"oras.land/oras-go/v2/content/oci"
	. "oras.land/oras-go/v2/internal/zzverif/common"
)

func main() {
	// keep every system call of the history on the initial thread, so that strace's per-tracee
	// injection counter identifies one call unambiguously
	runtime.LockOSThread()
	dir := os.Args[1]
	autogc := os.Args[2] == "1"
	d := CrashUniverse()
	ops := CrashAlphabet(d)
	st, err := oci.New(dir)
	if err != nil {
		fmt.Fprintln(os.Stderr, "init:", err)
		os.Exit(3)
	}
	st.AutoGC = autogc
	if err := os.WriteFile(dir+".MARK", nil, 0o644); err != nil {
		os.Exit(3)
	}
	for _, a := range os.Args[3:] {
		i, _ := strconv.Atoi(a)
		if err := ApplyOCI(st, d, ops[i]); err != nil {
			fmt.Println("op", i, "error:", err)
		}
	}
}
