package c20

import (
	"bytes"
	"context"
	"crypto/sha256"
	"encoding/hex"
	"fmt"
	"io"
	"net/http"
	"net/url"
	"strings"

	"github.com/opencontainers/go-digest"
	ocispec "github.com/opencontainers/image-spec/specs-go/v1"
	"oras.land/oras-go/v2/registry"
	"oras.land/oras-go/v2/registry/remote"
)

// ---- recording client: a minimal registry that remembers every request URL

type seen struct {
	method string
	u      url.URL
}

type recorder struct {
	fix  *fixture
	reqs []seen
}

type fixture struct {
	manifest []byte
	mdesc    ocispec.Descriptor
	blob     []byte
	bdesc    ocispec.Descriptor
}

func sha(b []byte) digest.Digest {
	s := sha256.Sum256(b)
	return digest.Digest("sha256:" + hex.EncodeToString(s[:]))
}

func newFixture() *fixture {
	f := &fixture{}
	f.blob = []byte("c20-blob")
	f.bdesc = ocispec.Descriptor{MediaType: "application/octet-stream", Digest: sha(f.blob), Size: int64(len(f.blob))}
	f.manifest = []byte(`{"schemaVersion":2,"mediaType":"application/vnd.oci.image.manifest.v1+json","config":{"mediaType":"application/vnd.oci.empty.v1+json","digest":"sha256:44136fa355b3678a1146ad16f7e8649e94fb4fc21fe77e8310c060f61caaff8a","size":2},"layers":[]}`)
	f.mdesc = ocispec.Descriptor{MediaType: ocispec.MediaTypeImageManifest, Digest: sha(f.manifest), Size: int64(len(f.manifest))}
	return f
}

const session = "c20session"

func (rc *recorder) Do(req *http.Request) (*http.Response, error) {
	rc.reqs = append(rc.reqs, seen{req.Method, *req.URL})
	var sent []byte
	if req.Body != nil {
		sent, _ = io.ReadAll(req.Body)
		req.Body.Close()
	}
	mk := func(code int, hdr map[string]string, body []byte) (*http.Response, error) {
		h := http.Header{}
		for k, v := range hdr {
			h.Set(k, v)
		}
		b := body
		if req.Method == http.MethodHead {
			b = nil
		}
		return &http.Response{
			StatusCode: code, Status: fmt.Sprintf("%d %s", code, http.StatusText(code)),
			Proto: "HTTP/1.1", ProtoMajor: 1, ProtoMinor: 1,
			Header: h, Body: io.NopCloser(bytes.NewReader(b)), ContentLength: int64(len(body)), Request: req,
		}, nil
	}
	notFound := func() (*http.Response, error) {
		return mk(http.StatusNotFound, map[string]string{"Content-Type": "application/json"}, []byte(`{"errors":[{"code":"MANIFEST_UNKNOWN","message":"unknown"}]}`))
	}
	p := req.URL.Path
	last := p[strings.LastIndexByte(p, '/')+1:]
	f := rc.fix
	switch {
	case strings.Contains(p, "/blobs/uploads/"):
		switch req.Method {
		case http.MethodPost:
			if req.URL.Query().Get("mount") != "" {
				return mk(http.StatusCreated, map[string]string{"Docker-Content-Digest": req.URL.Query().Get("mount")}, nil)
			}
			return mk(http.StatusAccepted, map[string]string{"Location": p + session}, nil)
		case http.MethodPut:
			return mk(http.StatusCreated, nil, nil)
		}
	case strings.Contains(p, "/manifests/"):
		switch req.Method {
		case http.MethodPut:
			return mk(http.StatusCreated, map[string]string{"Docker-Content-Digest": sha(sent).String()}, nil)
		case http.MethodDelete:
			return mk(http.StatusAccepted, nil, nil)
		case http.MethodGet, http.MethodHead:
			// the manifest is known by its digest and under every tag
			if last == f.mdesc.Digest.String() || !strings.Contains(last, ":") {
				return mk(http.StatusOK, map[string]string{"Content-Type": f.mdesc.MediaType, "Docker-Content-Digest": f.mdesc.Digest.String()}, f.manifest)
			}
		}
	case strings.Contains(p, "/blobs/"):
		switch req.Method {
		case http.MethodDelete:
			return mk(http.StatusAccepted, nil, nil)
		case http.MethodGet, http.MethodHead:
			if last == f.bdesc.Digest.String() {
				return mk(http.StatusOK, map[string]string{"Content-Type": "application/octet-stream", "Docker-Content-Digest": f.bdesc.Digest.String()}, f.blob)
			}
		}
	case strings.Contains(p, "/referrers/"):
		return mk(http.StatusOK, map[string]string{"Content-Type": ocispec.MediaTypeImageIndex},
			[]byte(`{"schemaVersion":2,"mediaType":"application/vnd.oci.image.index.v1+json","manifests":[]}`))
	case strings.HasSuffix(p, "/tags/list"):
		return mk(http.StatusOK, map[string]string{"Content-Type": "application/json"}, []byte(`{"name":"x","tags":["t"]}`))
	}
	return notFound()
}

// ---- URL shape

type env struct {
	scheme, reg, repo string
	allowed           []string // what may stand in the <reference> slot during this operation
	mountQuery        string
	fix               *fixture
}

// shape returns "" when u is one of the documented URL forms for (registry,
// repository) with nothing added, else a defect-level description.
func (e *env) shape(u *url.URL) string {
	if u.Scheme != e.scheme {
		return "scheme"
	}
	host := e.reg
	if host == "docker.io" {
		host = "registry-1.docker.io" // documented: the registry docker.io is reached at registry-1.docker.io
	}
	if u.Host != host || u.User != nil || u.Opaque != "" {
		return "authority is not the registry"
	}
	if u.Fragment != "" || u.RawFragment != "" {
		return "fragment"
	}
	if u.RawPath != "" && u.RawPath != u.Path {
		return "escaped path"
	}
	prefix := "/v2/" + e.repo + "/"
	if !strings.HasPrefix(u.Path, prefix) {
		return "path does not start with /v2/<repository>/"
	}
	rest := u.Path[len(prefix):]
	q := u.RawQuery
	if u.ForceQuery {
		return "query"
	}
	switch rest {
	case "tags/list":
		if q != "" {
			return "query"
		}
		return ""
	case "blobs/uploads/":
		if q != "" && (e.mountQuery == "" || q != e.mountQuery) {
			return "query"
		}
		return ""
	case "blobs/uploads/" + session:
		if q != "digest="+url.QueryEscape(e.fix.bdesc.Digest.String()) {
			return "query"
		}
		return ""
	}
	kind, x, ok := strings.Cut(rest, "/")
	if !ok || x == "" {
		return "missing segment"
	}
	if kind != "manifests" && kind != "blobs" && kind != "referrers" {
		return "segment between repository and kind, or unknown kind"
	}
	if strings.Contains(x, "/") {
		return "extra segment after the reference"
	}
	found := false
	for _, a := range e.allowed {
		if a == x {
			found = true
		}
	}
	if !found {
		return "reference slot holds something else"
	}
	if q != "" && !(kind == "referrers" && q == "artifactType="+url.QueryEscape(artifactType)) {
		return "query"
	}
	return ""
}

const artifactType = "application/vnd.c20.type"
const zeroDigest = "sha256:0000000000000000000000000000000000000000000000000000000000000000"

type want struct{ method, rest, query string }

// ---- Repository.ParseReference forms and URL builders

func (ck *checker) repository(s string, j judged) {
	c := ck.c
	ctx := context.Background()
	same := j.reg + "/" + j.repo
	otherReg := "other.example:5000"
	if j.reg == otherReg {
		otherReg = "other.example"
	}
	bases := []struct{ kind, reg, repo string }{
		{"the same base", j.reg, j.repo},
		{"another registry", otherReg, j.repo},
		{"another repository (name+x)", j.reg, j.repo + "x"},
		{"another repository (name/x)", j.reg, j.repo + "/x"},
	}
	// bases whose repository is a proper string prefix of the reference's repository
	// (a comparison by string prefix instead of by parts would let these through)
	nfixed := len(bases)
	if i := strings.IndexByte(j.repo, '/'); i > 0 {
		bases = append(bases, struct{ kind, reg, repo string }{"another repository (first path component only)", j.reg, j.repo[:i]})
	}
	if len(j.repo) > 1 {
		bases = append(bases, struct{ kind, reg, repo string }{"another repository (name without its last character)", j.reg, j.repo[:len(j.repo)-1]})
	}
	type form struct {
		name, in string
		fq       bool
	}
	var forms []form
	if j.ref != "" {
		switch j.form {
		case 'C':
			forms = append(forms, form{"tag", j.tag, false},
				form{"fully qualified (canonical)", same + ":" + j.tag, true})
		default:
			t := "v1"
			if j.form == 'B' && j.tagOK {
				t = j.tag
			}
			forms = append(forms, form{"digest", j.ref, false}, form{"tag@digest", t + "@" + j.ref, false},
				form{"fully qualified (canonical)", same + "@" + j.ref, true},
				form{"fully qualified (tag@digest)", same + ":" + t + "@" + j.ref, true})
		}
		forms = append(forms, form{"fully qualified (as given)", s, true})
	}
	var sameRepo *remote.Repository
	for bi, b := range bases {
		repo, err := remote.NewRepository(b.reg + "/" + b.repo)
		c.Evals++
		if err != nil && bi >= nfixed {
			continue // the shortened name is not a grammatical repository itself
		}
		if err != nil {
			if bi == 0 {
				ck.violation("NewRepository refuses the registry/repository of a grammatical reference",
					fmt.Sprintf("input %s\nNewRepository(%q): %v", short(s), b.reg+"/"+b.repo, err))
				return
			}
			ck.violation("NewRepository refuses a grammatical base reference",
				fmt.Sprintf("NewRepository(%q): %v", b.reg+"/"+b.repo, err))
			return
		}
		if got := (registry.Reference{Registry: b.reg, Repository: b.repo}); repo.Reference != got {
			ck.violation("NewRepository holds another base than the one given",
				fmt.Sprintf("NewRepository(%q).Reference = %+v", b.reg+"/"+b.repo, repo.Reference))
			return
		}
		if bi == 0 {
			sameRepo = repo
		}
		for _, f := range forms {
			c.Evals++
			c.Count("repository_parse_calls", 1)
			got, err := repo.ParseReference(f.in)
			where := fmt.Sprintf("input %s\nbase %q (%s), %s form %s", short(s), b.reg+"/"+b.repo, b.kind, f.name, short(f.in))
			if f.fq && bi != 0 {
				if err == nil {
					ck.violation("Repository.ParseReference accepts a fully qualified reference to "+b.kind,
						where+fmt.Sprintf("\nreturned %+v", got))
					return
				}
				continue
			}
			if err != nil {
				ck.violation("Repository.ParseReference refuses the "+f.name+" form on "+b.kind,
					where+"\nerror: "+err.Error())
				return
			}
			wantRef := registry.Reference{Registry: b.reg, Repository: b.repo, Reference: j.ref}
			if got != wantRef {
				ck.violation("Repository.ParseReference resolves the "+f.name+" form to another reference",
					where+fmt.Sprintf("\nexpected %+v\nreturned %+v", wantRef, got))
				return
			}
		}
	}
	// a Repository made from the whole accepted reference (tag or digest included) still names the
	// same registry/repository: every form resolves as it does on the plain base
	if j.ref != "" && len(forms) > 0 {
		full, err := remote.NewRepository(s)
		c.Evals++
		if err != nil {
			ck.violation("NewRepository refuses a grammatical reference that carries a tag or digest",
				fmt.Sprintf("NewRepository(%s): %v", short(s), err))
			return
		}
		for _, f := range forms {
			c.Evals++
			c.Count("repository_parse_calls", 1)
			got, err := full.ParseReference(f.in)
			where := fmt.Sprintf("input %s\nRepository made by NewRepository from the input itself (Reference %+v), %s form %s", short(s), full.Reference, f.name, short(f.in))
			if err != nil {
				ck.violation("Repository.ParseReference refuses the "+f.name+" form on a Repository whose own reference carries a tag or digest",
					where+"\nerror: "+err.Error())
				return
			}
			if want := (registry.Reference{Registry: j.reg, Repository: j.repo, Reference: j.ref}); got != want {
				ck.violation("Repository.ParseReference resolves the "+f.name+" form to another reference on a Repository whose own reference carries a tag or digest",
					where+fmt.Sprintf("\nexpected %+v\nreturned %+v", want, got))
				return
			}
		}
	}
	ck.urls(ctx, s, j, sameRepo)
}

// urls runs every request-issuing operation of the Repository whose base is
// the accepted reference and checks the URLs the client saw.
func (ck *checker) urls(ctx context.Context, s string, j judged, repo *remote.Repository) {
	c := ck.c
	f := ck.fix
	rc := &recorder{fix: f}
	repo.Client = rc
	repo.PlainHTTP = len(s)%2 == 0
	e := &env{scheme: "https", reg: j.reg, repo: j.repo, fix: f}
	if repo.PlainHTTP {
		e.scheme = "http"
	}
	md, bd := f.mdesc.Digest.String(), f.bdesc.Digest.String()
	rtag := strings.Replace(md, ":", "-", 1)
	e.allowed = []string{md, bd, zeroDigest, rtag}
	if j.ref != "" {
		e.allowed = append(e.allowed, j.ref)
	}
	run := func(op string, wants []want, call func() error) bool {
		rc.reqs = rc.reqs[:0]
		c.Evals++
		c.Traces++
		err := call()
		c.Count("url_requests_checked", int64(len(rc.reqs)))
		detail := func() string {
			var sb strings.Builder
			fmt.Fprintf(&sb, "input %s\nRepository %q, operation %s (returned error: %v)\nrequests seen:\n", short(s), j.reg+"/"+j.repo, op, err)
			for _, r := range rc.reqs {
				fmt.Fprintf(&sb, "  %s %s\n", r.method, short(r.u.String()))
			}
			return sb.String()
		}
		for i := range rc.reqs {
			if why := e.shape(&rc.reqs[i].u); why != "" {
				ck.violation("request URL for "+urlKind(rc.reqs[i].u.Path)+" leaves the /v2/<repository>/<kind>/<reference> form: "+why, detail())
				return false
			}
		}
		for _, w := range wants {
			ok := false
			for _, r := range rc.reqs {
				if r.method == w.method && r.u.Path == "/v2/"+j.repo+"/"+w.rest && r.u.RawQuery == w.query {
					ok = true
				}
			}
			if !ok {
				ck.violation("operation "+op+" never requests its documented URL "+w.method+" /v2/<repository>/"+wantShape(w),
					detail()+fmt.Sprintf("expected a %s request for %s://%s/v2/%s/%s%s\n", w.method, e.scheme, j.reg, j.repo, short(w.rest), map[bool]string{true: "?" + w.query, false: ""}[w.query != ""]))
				return false
			}
		}
		return true
	}
	closeRC := func(r io.ReadCloser, err error) error {
		if r != nil {
			io.Copy(io.Discard, r)
			r.Close()
		}
		return err
	}
	if j.ref != "" {
		// reference-level operations, short and fully qualified input
		short1 := j.ref
		if j.form == 'B' {
			short1 = "v1@" + j.ref
		}
		for _, in := range []struct{ name, v string }{{"short", short1}, {"fully qualified", s}} {
			in := in
			if !run("Manifests.Resolve("+in.name+")", []want{{"HEAD", "manifests/" + j.ref, ""}}, func() error { _, err := repo.Resolve(ctx, in.v); return err }) {
				return
			}
			if !run("Manifests.FetchReference("+in.name+")", []want{{"GET", "manifests/" + j.ref, ""}}, func() error {
				_, r, err := repo.FetchReference(ctx, in.v)
				return closeRC(r, err)
			}) {
				return
			}
			if !run("Manifests.Tag("+in.name+")", []want{{"PUT", "manifests/" + j.ref, ""}}, func() error { return repo.Tag(ctx, f.mdesc, in.v) }) {
				return
			}
			if !run("Manifests.PushReference("+in.name+")", []want{{"PUT", "manifests/" + j.ref, ""}}, func() error {
				return repo.PushReference(ctx, f.mdesc, bytes.NewReader(f.manifest), in.v)
			}) {
				return
			}
			if j.form != 'C' {
				if !run("Blobs.Resolve("+in.name+")", []want{{"HEAD", "blobs/" + j.ref, ""}}, func() error { _, err := repo.Blobs().Resolve(ctx, in.v); return err }) {
					return
				}
				if !run("Blobs.FetchReference("+in.name+")", []want{{"GET", "blobs/" + j.ref, ""}}, func() error {
					_, r, err := repo.Blobs().FetchReference(ctx, in.v)
					return closeRC(r, err)
				}) {
					return
				}
			}
		}
		return
	}
	// form D: the reference names the repository; descriptor-level operations
	if !run("Blobs.Fetch", []want{{"GET", "blobs/" + bd, ""}}, func() error { return closeRC(repo.Fetch(ctx, f.bdesc)) }) {
		return
	}
	if !run("Blobs.Exists", []want{{"HEAD", "blobs/" + bd, ""}}, func() error { _, err := repo.Exists(ctx, f.bdesc); return err }) {
		return
	}
	if !run("Blobs.Delete", []want{{"DELETE", "blobs/" + bd, ""}}, func() error { return repo.Delete(ctx, f.bdesc) }) {
		return
	}
	if !run("Blobs.Push", []want{{"POST", "blobs/uploads/", ""}, {"PUT", "blobs/uploads/" + session, "digest=" + url.QueryEscape(bd)}}, func() error {
		return repo.Push(ctx, f.bdesc, bytes.NewReader(f.blob))
	}) {
		return
	}
	e.mountQuery = "mount=" + bd + "&from=from/repo"
	if !run("Blobs.Mount", []want{{"POST", "blobs/uploads/", e.mountQuery}}, func() error { return repo.Mount(ctx, f.bdesc, "from/repo", nil) }) {
		return
	}
	e.mountQuery = ""
	if !run("Manifests.Fetch", []want{{"GET", "manifests/" + md, ""}}, func() error { return closeRC(repo.Fetch(ctx, f.mdesc)) }) {
		return
	}
	if !run("Manifests.Exists", []want{{"HEAD", "manifests/" + md, ""}}, func() error { _, err := repo.Exists(ctx, f.mdesc); return err }) {
		return
	}
	if !run("Manifests.Push", []want{{"PUT", "manifests/" + md, ""}}, func() error { return repo.Push(ctx, f.mdesc, bytes.NewReader(f.manifest)) }) {
		return
	}
	if !run("Manifests.Delete", []want{{"DELETE", "manifests/" + md, ""}}, func() error { return repo.Delete(ctx, f.mdesc) }) {
		return
	}
	if !run("Tags", []want{{"GET", "tags/list", ""}}, func() error { return repo.Tags(ctx, "", func([]string) error { return nil }) }) {
		return
	}
	if !run("Referrers", []want{{"GET", "referrers/" + md, ""}}, func() error {
		return repo.Referrers(ctx, f.mdesc, "", func([]ocispec.Descriptor) error { return nil })
	}) {
		return
	}
	if !run("Referrers(artifactType)", []want{{"GET", "referrers/" + md, "artifactType=" + url.QueryEscape(artifactType)}}, func() error {
		return repo.Referrers(ctx, f.mdesc, artifactType, func([]ocispec.Descriptor) error { return nil })
	}) {
		return
	}
	run("Predecessors", []want{{"GET", "referrers/" + md, ""}}, func() error { _, err := repo.Predecessors(ctx, f.mdesc); return err })
}

func wantShape(w want) string {
	kind, _, ok := strings.Cut(w.rest, "/")
	if !ok {
		return w.rest
	}
	switch kind {
	case "manifests", "referrers":
		return kind + "/<reference>"
	case "blobs":
		if strings.HasPrefix(w.rest, "blobs/uploads/") {
			if w.query != "" {
				return "blobs/uploads/ (with its query)"
			}
			return "blobs/uploads/"
		}
		return "blobs/<reference>"
	}
	return w.rest
}

// urlKind names the URL builder a request path came from (for signatures).
func urlKind(p string) string {
	for _, k := range []string{"/blobs/uploads/", "/manifests/", "/blobs/", "/referrers/", "/tags/list"} {
		if strings.Contains(p, k) {
			return strings.Trim(k, "/")
		}
	}
	return "an unknown endpoint"
}
