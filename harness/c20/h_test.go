package c20

import (
	"fmt"
	"strings"
	"testing"

	"oras.land/oras-go/v2/registry"
	"verif.local/engine/driver"
)

func TestVerif(t *testing.T) {
	driver.Main(t, driver.Harness{
		ID:    "C20",
		Level: "exploration",
		Rule:  rule(),
		Assumptions: []string{
			"registered digest algorithms are sha256, sha384 and sha512 (crypto/sha256 and crypto/sha512 linked into the harness binary); no other go-digest algorithm is registered",
			"the URL seen by the Client (http.Request.URL) is the URL the library built; net/http's own parsing of that string is trusted",
			"registry-level URLs (/v2/, /v2/_catalog) carry no repository or reference and are not part of this check",
		},
		Jobs:           jobs,
		BudgetQuick:    240,
		BudgetThorough: 1500,
	})
}

const baseAlphabet = "aA0.-_/:@"

func rule() string {
	return fmt.Sprintf("inputs are strings handed to registry.ParseReference and judged by a hand-written scanner of the documented grammar (accept / reject / not judged). "+
		"(1) chars: EVERY string of length <= 8 (thorough 9) over the 9 characters {a A 0 . - _ / : @}. "+
		"(2) tokens: EVERY concatenation of <= 5 (thorough 6) tokens from the %d tokens {h h:5 [::1]:5 H h_ u@h / r _ . - : @ t TAG128 TAG129 @sha256 @sha384 @sha512 @sha256-63hex @sha256-uppercase @md5 bare-sha256}. "+
		"(3) slots: the full product of %d registries x %d repositories x %d suffixes (valid and invalid variants of every slot, all four forms, every registered digest algorithm, wrong length / upper-case / non-hex / unregistered digests, 128- and 129-character tags). "+
		"(4) edits: EVERY single-character deletion, substitution and insertion over a %d-symbol extended alphabet applied to %d grammatical seed references. Nothing is sampled. "+
		"For every input: acceptance must equal the scanner's verdict (strings ending in ':' or '@', authorities outside the classes plain name[:port] / [ipv6][:port] / user-info / character outside the authority syntax / non-numeric port, and form B with a malformed tag are counted and not judged); if accepted, the returned fields must equal the scanner's split and ParseReference(ref.String()) must return the same reference. "+
		"For every input the scanner accepts: Repository.ParseReference on the bases {same, other registry, repository+x, repository/x} with the forms {tag, digest, tag@digest, fully qualified as given, fully qualified canonical, fully qualified tag@digest} (same base: must give registry/repository/reference of the split; other bases: short forms resolve against that base, fully qualified forms must be refused); then every request-issuing Repository / blob-store / manifest-store operation (reference-taking ones with the short and the fully qualified input; descriptor-taking ones, Push, Mount, Tags, Referrers, Predecessors for references without tag or digest) is run against a recording client: every request URL must be scheme://registry/v2/<repository>/<kind>/<reference> (or the documented tags/list and blobs/uploads/ forms) with no other segment, no fragment and only the documented queries (mount+from, digest, artifactType), and the operation's own documented URL must be among the requests. "+
		"bare references handed to a Repository: every string of length 1..4 [5] over {a,Z,0,_,.,-} and the lengths 127..130 - accepted exactly when a word character is followed by at most 127 word characters, dots or dashes. "+
		"evaluations = inputs judged + NewRepository / Repository.ParseReference calls + operations run against the recording client; non-trivial = distinct grammatical references that went through all of that (hashed: character level those of length <= 7, and at most %d per job; all of them are counted in the 'grammatical' counters)",
		len(tokens()), len(slotRegistries()), len(slotRepositories()), len(slotSuffixes()), len(editAlphabet), len(seedRefs()), nontrivPerJob)
}

func jobs(tier string) []driver.Job {
	th := tier == "thorough"
	var out []driver.Job
	out = append(out, bareJob(th))
	// (1) character level
	maxLen := 8
	if th {
		maxLen = 9
	}
	out = append(out, driver.Job{Name: "chars/len<=1", Run: func(c *driver.Ctx) {
		ck := newChecker(c, "chars")
		ck.nontrivMax = 7
		ck.judge("")
		for i := 0; i < len(baseAlphabet); i++ {
			ck.judge(baseAlphabet[i : i+1])
		}
	}})
	plen := 2
	if th {
		plen = 3
	}
	var prefixes []string
	var gen func(p string)
	gen = func(p string) {
		if len(p) == plen {
			prefixes = append(prefixes, p)
			return
		}
		for i := 0; i < len(baseAlphabet); i++ {
			gen(p + baseAlphabet[i:i+1])
		}
	}
	gen("")
	// shorter strings than the prefix length
	if plen == 3 {
		out = append(out, driver.Job{Name: "chars/len=2", Run: func(c *driver.Ctx) {
			ck := newChecker(c, "chars")
			ck.nontrivMax = 7
			for i := 0; i < len(baseAlphabet); i++ {
				for k := 0; k < len(baseAlphabet); k++ {
					ck.judge(baseAlphabet[i:i+1] + baseAlphabet[k:k+1])
				}
			}
		}})
	}
	for _, p := range prefixes {
		p := p
		out = append(out, driver.Job{Name: fmt.Sprintf("chars/len<=%d/prefix=%q", maxLen, p), Run: func(c *driver.Ctx) {
			ck := newChecker(c, "chars")
			ck.nontrivMax = 7
			buf := make([]byte, maxLen)
			copy(buf, p)
			var rec func(n int) bool
			rec = func(n int) bool {
				ck.judge(string(buf[:n]))
				if n == maxLen {
					return true
				}
				if n <= 5 && c.Expired() {
					c.Capped = true
					return false
				}
				for i := 0; i < len(baseAlphabet); i++ {
					buf[n] = baseAlphabet[i]
					if !rec(n + 1) {
						return false
					}
				}
				return true
			}
			rec(len(p))
		}})
	}
	// (2) token level
	toks := tokens()
	maxTok := 5
	if th {
		maxTok = 6
	}
	out = append(out, driver.Job{Name: "tokens/len<=1", Run: func(c *driver.Ctx) {
		ck := newChecker(c, "tokens")
		for _, t := range toks {
			ck.judge(t)
		}
	}})
	nsplit := 4
	for t0 := range toks {
		for sp := 0; sp < nsplit; sp++ {
			t0, sp := t0, sp
			out = append(out, driver.Job{Name: fmt.Sprintf("tokens/len<=%d/first=%d/second%%%d=%d", maxTok, t0, nsplit, sp), Run: func(c *driver.Ctx) {
				ck := newChecker(c, "tokens")
				var rec func(s string, n int) bool
				rec = func(s string, n int) bool {
					ck.judge(s)
					if n == maxTok {
						return true
					}
					if n <= 3 && c.Expired() {
						c.Capped = true
						return false
					}
					for _, t := range toks {
						if !rec(s+t, n+1) {
							return false
						}
					}
					return true
				}
				for t1 := range toks {
					if t1%nsplit == sp {
						if !rec(toks[t0]+toks[t1], 2) {
							return
						}
					}
				}
			}})
		}
	}
	// (3) slot product
	regs, repos, sufs := slotRegistries(), slotRepositories(), slotSuffixes()
	for ri := range regs {
		ri := ri
		out = append(out, driver.Job{Name: fmt.Sprintf("slots/registry=%d", ri), Run: func(c *driver.Ctx) {
			ck := newChecker(c, "slots")
			for _, rp := range repos {
				for _, sf := range sufs {
					ck.judge(regs[ri] + "/" + rp + sf)
				}
			}
			if ri == 0 {
				c.Sample(ck.describe("h:5/a-b/c__d:" + tag128 + "@" + d512))
				c.Sample(ck.describe("u@h/r:t"))
			}
		}})
	}
	// (4) edits of grammatical seeds
	seeds := seedRefs()
	ngroup := 40
	for g := 0; g < ngroup; g++ {
		g := g
		out = append(out, driver.Job{Name: fmt.Sprintf("edits/group%d.%d", g, ngroup), Run: func(c *driver.Ctx) {
			ck := newChecker(c, "edits")
			for si, sd := range seeds {
				if si%ngroup != g {
					continue
				}
				if c.Expired() {
					c.Capped = true
					return
				}
				ck.judge(sd)
				singleEdits(sd, func(m string) { ck.judge(m) })
				c.Count("edit_seeds", 1)
			}
		}})
	}
	return out
}

// checker judges one input after the other and keeps the per-job state.
type checker struct {
	c          *driver.Ctx
	family     string
	nontrivMax int // 0 = hash every grammatical reference; n = only those of length <= n
	hashed     int
	fix        *fixture
}

// at most this many grammatical references are hashed into distinct_nontrivial
// per job (all of them are counted in the "grammatical" counters)
const nontrivPerJob = 4000

func newChecker(c *driver.Ctx, family string) *checker {
	return &checker{c: c, family: family, fix: newFixture()}
}

func (ck *checker) violation(sig, detail string) {
	ck.c.AddViolation(driver.Violation{Tier: ck.c.Tier, Job: ck.c.Job, Scenario: ck.family, Sig: sig, Detail: detail})
}

func short(s string) string {
	if len(s) > 400 {
		return fmt.Sprintf("%q… (%d bytes)", s[:400], len(s))
	}
	return fmt.Sprintf("%q", s)
}

func formName(f byte) string {
	switch f {
	case 'A':
		return "form A (repository@digest)"
	case 'B':
		return "form B (repository:tag@digest)"
	case 'C':
		return "form C (repository:tag)"
	case 'D':
		return "form D (repository)"
	}
	return "no form"
}

// errClass maps a library error to a coarse label used only inside signatures.
func errClass(err error) string {
	m := err.Error()
	for _, k := range []string{"missing registry or repository", "invalid registry", "invalid repository", "invalid tag", "invalid digest"} {
		if strings.Contains(m, k) {
			return k
		}
	}
	return "other error"
}

func (ck *checker) describe(s string) string {
	j := recognise(s)
	r, err := registry.ParseReference(s)
	v := map[verdict]string{vAccept: "grammatical", vReject: "ungrammatical: " + j.why, vExempt: "not judged: " + j.why}[j.v]
	return fmt.Sprintf("input %s: scanner says %s, %s, split registry=%q repository=%q tag=%s reference=%s; library returned %+v err=%v",
		short(s), v, formName(j.form), j.reg, j.repo, short(j.tag), short(j.ref), r, err)
}

func (ck *checker) judge(s string) {
	c := ck.c
	c.Evals++
	j := recognise(s)
	r, err := registry.ParseReference(s)
	accepted := err == nil
	c.Outcome(driver.Hash(fmt.Sprint(j.v), j.why, string(j.form), fmt.Sprint(accepted)))
	switch j.v {
	case vAccept:
		c.Count("grammatical", 1)
		if !accepted {
			sig := "ParseReference refuses a grammatical reference: " + formName(j.form) + " (" + errClass(err) + ")"
			if errClass(err) == "invalid registry" {
				sig = "ParseReference refuses a grammatical reference: registry of the shape " + j.regClass
			}
			ck.violation(sig,
				fmt.Sprintf("input %s\nscanner split: registry=%q repository=%q tag=%s reference=%s\nlibrary error: %v", short(s), j.reg, j.repo, short(j.tag), short(j.ref), err))
			return
		}
	case vReject:
		c.Count("ungrammatical", 1)
		if j.slash && j.regClass != "" {
			c.Count("ungrammatical_past_registry", 1)
		}
		if accepted {
			ck.violation("ParseReference accepts an ungrammatical string: "+j.why,
				fmt.Sprintf("input %s\nscanner: %s (%s; registry=%q repository=%q tag=%s reference=%s)\nlibrary returned %+v", short(s), j.why, formName(j.form), j.reg, j.repo, short(j.tag), short(j.ref), r))
			return
		}
	default:
		c.Count("not_judged: "+j.why, 1)
		if accepted {
			c.Count("not_judged_and_accepted", 1)
		}
	}
	if !accepted {
		return
	}
	// returned parts (the split is defined whenever there is a '/'; for the
	// lenient trailing class only the round trip is demanded)
	if !j.trailing {
		want := registry.Reference{Registry: j.reg, Repository: j.repo, Reference: j.ref}
		if r != want {
			field := "Reference"
			switch {
			case r.Registry != want.Registry:
				field = "Registry"
			case r.Repository != want.Repository:
				field = "Repository"
			}
			ck.violation("ParseReference returns other parts than the grammar's split: "+formName(j.form)+", field "+field,
				fmt.Sprintf("input %s\nexpected %+v\nreturned %+v", short(s), want, r))
			return
		}
	}
	// format / parse round trip
	txt := r.String()
	r2, err2 := registry.ParseReference(txt)
	if err2 != nil {
		ck.violation("String() of a parsed reference is refused by ParseReference: "+formName(j.form),
			fmt.Sprintf("input %s\nparsed %+v\nString() = %s\nerror: %v", short(s), r, short(txt), err2))
		return
	}
	if r2 != r {
		field := "Reference"
		switch {
		case r2.Registry != r.Registry:
			field = "Registry"
		case r2.Repository != r.Repository:
			field = "Repository"
		}
		ck.violation("ParseReference(ref.String()) differs from ref in field "+field,
			fmt.Sprintf("input %s\nparsed %+v\nString() = %s\nreparsed %+v", short(s), r, short(txt), r2))
		return
	}
	if j.v != vAccept {
		return
	}
	if (ck.nontrivMax == 0 || len(s) <= ck.nontrivMax) && ck.hashed < nontrivPerJob {
		ck.hashed++
		c.Nontriv(driver.Hash(s))
	}
	c.Count("grammatical "+formName(j.form), 1)
	ck.repository(s, j)
}
