package c20

import "strings"

// generator-side material: tokens, slot variants, seeds, edits.

var (
	hex64  = strings.Repeat("0123456789abcdef", 4)
	d256   = "sha256:" + hex64
	d384   = "sha384:" + strings.Repeat("0123456789abcdef", 6)
	d512   = "sha512:" + strings.Repeat("fedcba9876543210", 8)
	d256s  = "sha256:" + hex64[:63]
	d256l  = "sha256:" + hex64 + "0"
	d256u  = "sha256:" + strings.ToUpper(hex64)
	d256g  = "sha256:" + hex64[:63] + "g"
	dmd5   = "md5:" + hex64[:32]
	d512as = "sha512:" + hex64                         // sha512 with a sha256-sized value
	tag128 = "T" + strings.Repeat("a.B-c_9", 18) + "z" // 1 + 126 + 1
	tag129 = tag128 + "0"
)

func tokens() []string {
	return []string{
		"h", "h:5", "[::1]:5", "H", "h_", "u@h",
		"/",
		"r", "_", ".", "-",
		":", "@",
		"t", tag128, tag129,
		"@" + d256, "@" + d384, "@" + d512, "@" + d256s, "@" + d256u, "@" + dmd5,
		d256,
	}
}

func slotRegistries() []string {
	return []string{
		"h", "h:5", "[::1]:5", "[::1]", "[2001:db8::8:1]:443", "H", "h_", "reg.example.com", "1.2.3.4:80", "-", "localhost:5000", "docker.io", "registry-1.docker.io",
		"", "u@h", "u:p@h:5", "h:x", "h x", "h?", "h#f", "h\\",
		// not judged classes
		"h:", ":5", "a:b:5", "h%41", "h+x", "[::1", "[x]",
	}
}

func slotRepositories() []string {
	return []string{
		"r", "a/b", "a-b/c__d/e.f", "0", "a--b", "a_b", "a.b/c",
		"", "R", "a..b", "a___b", "a_.b", "-a", "a-", "a//b", "a/", "/a", "a b", "a\n",
	}
}

func slotSuffixes() []string {
	tags := []string{"t", "T", "_", "0.-", tag128, "v1.0-rc_1"}
	badTags := []string{tag129, "-t", ".t", "t t", "t\n", "é", "t/u", "t:u"}
	digs := []string{d256, d384, d512}
	badDigs := []string{d256s, d256l, d256u, d256g, dmd5, d512as, "sha256:", "sha256", ":" + hex64, "sha256+b64:" + hex64, d256 + "\n", d256 + "@" + d256}
	out := []string{""}
	for _, t := range tags {
		out = append(out, ":"+t)
	}
	for _, t := range badTags {
		out = append(out, ":"+t)
	}
	for _, d := range digs {
		out = append(out, "@"+d)
	}
	for _, d := range badDigs {
		out = append(out, "@"+d)
	}
	for _, t := range []string{"t", tag128, tag129, "-x", "x:y", ""} {
		for _, d := range []string{d256, d384, d512, d256s, dmd5} {
			out = append(out, ":"+t+"@"+d)
		}
	}
	// the lenient trailing class
	out = append(out, ":", "@", ":t@", ":@", "@"+d256+"@", ":t:")
	return out
}

// seedRefs are grammatical references of every form; edits are applied to them.
func seedRefs() []string {
	regs := []string{"h", "h:5", "[::1]:5", "H.x-y_z", "1.2.3.4:80"}
	repos := []string{"r", "a/b", "a-b/c__d/e.f"}
	sufs := []string{"", ":t", ":" + tag128, "@" + d256, "@" + d384, "@" + d512, ":t@" + d256, ":" + tag128 + "@" + d384}
	var out []string
	for _, a := range regs {
		for _, b := range repos {
			for _, c := range sufs {
				out = append(out, a+"/"+b+c)
			}
		}
	}
	return out
}

// extended alphabet for edits: the grammar's characters plus ones that sit
// just outside each class (non-hex letter, upper case, brackets, escapes,
// blanks, URL delimiters, a line break, a non-ASCII letter).
var editAlphabet = []string{
	"a", "A", "0", ".", "-", "_", "/", ":", "@",
	"g", "f", "5", "Z", "[", "]", "%", "~", "+", " ", "?", "#", "\\", "\n", "é",
}

func singleEdits(s string, f func(string)) {
	for i := 0; i < len(s); i++ {
		f(s[:i] + s[i+1:])
		for _, a := range editAlphabet {
			if a != s[i:i+1] {
				f(s[:i] + a + s[i+1:])
			}
		}
	}
	for i := 0; i <= len(s); i++ {
		for _, a := range editAlphabet {
			f(s[:i] + a + s[i:])
		}
	}
}

// fixed pseudo-random generator (splitmix64): the same stream in every run.
type rng struct{ x uint64 }

func newRNG(seed uint64) *rng { return &rng{seed*0x9E3779B97F4A7C15 + 0x1234567} }

func (r *rng) next() uint64 {
	r.x += 0x9E3779B97F4A7C15
	z := r.x
	z = (z ^ (z >> 30)) * 0xBF58476D1CE4E5B9
	z = (z ^ (z >> 27)) * 0x94D049BB133111EB
	return z ^ (z >> 31)
}

func (r *rng) intn(n int) int { return int(r.next() % uint64(n)) }

func randomEdit(s string, r *rng) string {
	a := editAlphabet[r.intn(len(editAlphabet))]
	if len(s) == 0 {
		return a
	}
	// edits near the structural characters are the interesting ones: half of
	// the positions are drawn from the neighbourhood of '/', ':' and '@'
	pos := r.intn(len(s))
	if r.intn(2) == 0 {
		var marks []int
		for i := 0; i < len(s); i++ {
			if s[i] == '/' || s[i] == ':' || s[i] == '@' {
				marks = append(marks, i)
			}
		}
		if len(marks) > 0 {
			pos = marks[r.intn(len(marks))] + r.intn(5) - 2
			if pos < 0 {
				pos = 0
			}
			if pos >= len(s) {
				pos = len(s) - 1
			}
		}
	}
	switch r.intn(3) {
	case 0:
		return s[:pos] + s[pos+1:]
	case 1:
		return s[:pos] + a + s[pos+1:]
	}
	return s[:pos] + a + s[pos:]
}
