package c20

import (
	"crypto"
	_ "crypto/sha256" // registers sha256
	_ "crypto/sha512" // registers sha384 and sha512
)

// Independent recogniser of the documented reference grammar. It is a
// hand-written left-to-right scanner: no regular expression, no net/url, no
// go-digest and nothing from oras-go is used to decide a verdict.
//
//	reference  := registry "/" repository [ ":" tag | "@" digest | ":" tag "@" digest ]
//	registry   := URL authority without user-info (RFC 3986 host [ ":" port ])
//	repository := component *( "/" component )
//	component  := alnum+ *( separator alnum+ )      alnum := [a-z0-9]
//	separator  := "." | "_" | "__" | "-"+
//	tag        := [A-Za-z0-9_] [A-Za-z0-9_.-]{0,127}
//	digest     := algorithm ":" lower-case hex of exactly the algorithm's length,
//	              algorithm one of the registered ones (sha256, sha384, sha512)

type verdict int

const (
	vReject verdict = iota // the grammar does not derive the string: it must be refused
	vAccept                // the grammar derives the string: it must be accepted
	vExempt                // the statement does not judge acceptance of this string
)

type judged struct {
	v        verdict
	why      string // defect-level class: reason for vReject / class for vExempt
	trailing bool   // ends in a bare ':' or '@'
	slash    bool   // has a '/', so the split below is defined
	form     byte   // 'A' @digest, 'B' :tag@digest, 'C' :tag, 'D' none
	reg      string
	repo     string
	tag      string // form B / C
	ref      string // expected Reference field: digest (A, B), tag (C), "" (D)
	tagOK    bool
	regClass string // shape class of a valid registry: name | name:port | ipv6 | ipv6:port
}

func isDigit(b byte) bool      { return b >= '0' && b <= '9' }
func isLowerAlnum(b byte) bool { return (b >= 'a' && b <= 'z') || isDigit(b) }
func isAlnum(b byte) bool      { return isLowerAlnum(b) || (b >= 'A' && b <= 'Z') }
func isHexLower(b byte) bool   { return isDigit(b) || (b >= 'a' && b <= 'f') }
func isHex(b byte) bool        { return isHexLower(b) || (b >= 'A' && b <= 'F') }

// unreserved characters of RFC 3986: the ones a plain registered name is made of.
func isHostChar(b byte) bool { return isAlnum(b) || b == '-' || b == '.' || b == '_' || b == '~' }

func allDigits(s string) bool {
	for i := 0; i < len(s); i++ {
		if !isDigit(s[i]) {
			return false
		}
	}
	return true
}

// ipv6 recognises the plain textual forms of RFC 4291 (hex groups, at most
// one "::"); embedded IPv4 and zones are left to the exempt class.
func ipv6(s string) bool {
	groups := func(p string) (int, bool) {
		if p == "" {
			return 0, true
		}
		n, run := 0, 0
		for i := 0; i < len(p); i++ {
			switch {
			case isHex(p[i]):
				run++
				if run > 4 {
					return 0, false
				}
			case p[i] == ':':
				if run == 0 {
					return 0, false
				}
				n++
				run = 0
			default:
				return 0, false
			}
		}
		if run == 0 {
			return 0, false
		}
		return n + 1, true
	}
	dbl := -1
	for i := 0; i+1 < len(s); i++ {
		if s[i] == ':' && s[i+1] == ':' {
			dbl = i
			break
		}
	}
	if dbl < 0 {
		n, ok := groups(s)
		return ok && n == 8
	}
	l, ok1 := groups(s[:dbl])
	r, ok2 := groups(s[dbl+2:])
	return ok1 && ok2 && l+r <= 7
}

// authority classifies a registry string. The conservative syntactic test of
// the statement: plain names and bracketed IPv6 literals with an optional
// numeric port are valid; user-info, characters outside the authority syntax
// and a non-numeric port are invalid; everything else (empty host or port,
// several unbracketed colons, percent-escapes, sub-delimiters, non-ASCII, odd
// brackets) is adjudicated by net/url only and is not judged.
func authority(a string) (verdict, string) {
	if a == "" {
		return vReject, "registry: empty"
	}
	for i := 0; i < len(a); i++ {
		b := a[i]
		switch {
		case b == '@':
			return vReject, "registry: user-info ('@')"
		case b == ' ' || b == '?' || b == '#' || b == '\\' || b == '/' || b < 0x20 || b == 0x7f:
			return vReject, "registry: character outside the authority syntax"
		}
	}
	for i := 0; i < len(a); i++ {
		if a[i] == '%' {
			return vExempt, "authority: percent-escape"
		}
	}
	port := func(p string) (verdict, string) {
		if p == "" {
			return vExempt, "authority: empty port"
		}
		if allDigits(p) {
			return vAccept, ""
		}
		for i := 0; i < len(p); i++ {
			if !isHostChar(p[i]) {
				return vExempt, "authority: other characters"
			}
		}
		return vReject, "registry: non-numeric port"
	}
	if a[0] == '[' {
		k := -1
		for i := 0; i < len(a); i++ {
			if a[i] == ']' {
				k = i
				break
			}
		}
		if k < 0 || !ipv6(a[1:k]) {
			return vExempt, "authority: bracketed literal"
		}
		rest := a[k+1:]
		if rest == "" {
			return vAccept, "ipv6"
		}
		if rest[0] != ':' {
			return vExempt, "authority: bracketed literal"
		}
		v, why := port(rest[1:])
		if v == vAccept {
			why = "ipv6:port"
		}
		return v, why
	}
	colons, first := 0, -1
	for i := 0; i < len(a); i++ {
		switch {
		case a[i] == ':':
			if colons == 0 {
				first = i
			}
			colons++
		case !isHostChar(a[i]):
			return vExempt, "authority: other characters"
		}
	}
	switch {
	case colons == 0:
		return vAccept, "name"
	case colons > 1:
		return vExempt, "authority: several unbracketed colons"
	case first == 0:
		return vExempt, "authority: empty host"
	}
	v, why := port(a[first+1:])
	if v == vAccept {
		why = "name:port"
	}
	return v, why
}

func validComponent(c string) bool {
	i := 0
	run := func() bool {
		s := i
		for i < len(c) && isLowerAlnum(c[i]) {
			i++
		}
		return i > s
	}
	if !run() {
		return false
	}
	for i < len(c) {
		switch c[i] {
		case '.':
			i++
		case '_':
			i++
			if i < len(c) && c[i] == '_' {
				i++
			}
		case '-':
			for i < len(c) && c[i] == '-' {
				i++
			}
		default:
			return false
		}
		if !run() {
			return false
		}
	}
	return true
}

func validRepository(p string) bool {
	start := 0
	for i := 0; i <= len(p); i++ {
		if i == len(p) || p[i] == '/' {
			if !validComponent(p[start:i]) {
				return false
			}
			start = i + 1
		}
	}
	return true
}

func tagProblem(t string) string {
	if t == "" {
		return "empty"
	}
	for i := 0; i < len(t); i++ {
		b := t[i]
		ok := isAlnum(b) || b == '_' || (i > 0 && (b == '.' || b == '-'))
		if !ok {
			return "character"
		}
	}
	if len(t) > 128 {
		return "longer than 128"
	}
	return ""
}

type algo struct {
	name string
	hex  int
	h    crypto.Hash
}

var algos = []algo{{"sha256", 64, crypto.SHA256}, {"sha384", 96, crypto.SHA384}, {"sha512", 128, crypto.SHA512}}

func digestProblem(d string) string {
	c := -1
	for i := 0; i < len(d); i++ {
		if d[i] == ':' {
			c = i
			break
		}
	}
	if c <= 0 || c == len(d)-1 {
		return "malformed"
	}
	name, enc := d[:c], d[c+1:]
	for _, a := range algos {
		if a.name != name || !a.h.Available() {
			continue
		}
		for i := 0; i < len(enc); i++ {
			if !isHexLower(enc[i]) {
				return "not lower-case hex"
			}
		}
		if len(enc) != a.hex {
			return "wrong length"
		}
		return ""
	}
	return "unregistered algorithm"
}

// recognise scans s once from the left and returns the verdict together with
// the grammar's split of the string.
func recognise(s string) judged {
	var j judged
	if n := len(s); n > 0 && (s[n-1] == ':' || s[n-1] == '@') {
		j.trailing = true
	}
	i := 0
	for i < len(s) && s[i] != '/' {
		i++
	}
	if i == len(s) {
		j.v, j.why = vReject, "no '/'"
		if j.trailing {
			j.v, j.why = vExempt, "trailing bare ':' or '@'"
		}
		return j
	}
	j.slash = true
	j.reg = s[:i]
	path := s[i+1:]
	k := 0
	for k < len(path) && path[k] != ':' && path[k] != '@' {
		k++
	}
	j.repo = path[:k]
	rest := path[k:]
	var bad []string
	exempt := ""
	rv, rwhy := authority(j.reg)
	switch rv {
	case vReject:
		bad = append(bad, rwhy)
	case vExempt:
		exempt = rwhy
	default:
		j.regClass = rwhy
	}
	if !validRepository(j.repo) {
		bad = append(bad, "repository")
	}
	switch {
	case rest == "":
		j.form = 'D'
	case rest[0] == '@':
		j.form = 'A'
		j.ref = rest[1:]
		if p := digestProblem(j.ref); p != "" {
			bad = append(bad, "digest: "+p)
		}
	default: // ':'
		after := rest[1:]
		at := -1
		for x := 0; x < len(after); x++ {
			if after[x] == '@' {
				at = x
				break
			}
		}
		if at < 0 {
			j.form = 'C'
			j.tag, j.ref = after, after
			if p := tagProblem(j.tag); p != "" {
				bad = append(bad, "tag: "+p)
			} else {
				j.tagOK = true
			}
		} else {
			j.form = 'B'
			j.tag, j.ref = after[:at], after[at+1:]
			if p := digestProblem(j.ref); p != "" {
				bad = append(bad, "digest: "+p)
			}
			if tagProblem(j.tag) == "" {
				j.tagOK = true
			} else if exempt == "" {
				// documented: in form B the tag "is dropped without any validation"
				exempt = "form B with a malformed tag"
			}
		}
	}
	switch {
	case j.trailing:
		j.v, j.why = vExempt, "trailing bare ':' or '@'"
	case len(bad) > 0:
		j.v, j.why = vReject, bad[0]
	case exempt != "":
		j.v, j.why = vExempt, exempt
	default:
		j.v = vAccept
	}
	return j
}
