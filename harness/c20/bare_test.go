package c20

import (
	"fmt"
	"strings"

	"oras.land/oras-go/v2/registry"
	"oras.land/oras-go/v2/registry/remote"
	"verif.local/engine/driver"
)

// Bare references handed to a Repository (no registry, no repository): a string without '/', ':' and
// '@' is accepted exactly when it is a tag by the documented rule - a word character followed by at
// most 127 word characters, dots or dashes - and then resolves to <base>:<that tag>.
//
// every string of length 1..4 [thorough 5] over {a, Z, 0, _, ., -}, plus the lengths 127..130 built
// from each of those characters as the first one followed by 'a's, dots or dashes.
func bareJob(th bool) driver.Job {
	return driver.Job{Name: "bare-tags", Run: func(c *driver.Ctx) {
		repo, err := remote.NewRepository("reg.example/ns/app")
		if err != nil {
			panic(err)
		}
		alpha := "aZ0_.-"
		maxLen := 4
		if th {
			maxLen = 5
		}
		isWord := func(b byte) bool {
			return b == '_' || b >= 'a' && b <= 'z' || b >= 'A' && b <= 'Z' || b >= '0' && b <= '9'
		}
		judge := func(s string) bool {
			want := len(s) >= 1 && len(s) <= 128 && isWord(s[0])
			got, perr := repo.ParseReference(s)
			c.Evals++
			if want {
				c.Nontriv(driver.Hash("bare", s))
			}
			short := s
			if len(short) > 40 {
				short = fmt.Sprintf("%s... (%d bytes)", s[:20], len(s))
			}
			switch {
			case want && perr != nil:
				c.AddViolation(driver.Violation{Tier: c.Tier, Job: c.Job, Scenario: "bare-tags", Sig: "Repository.ParseReference refuses a bare tag that is valid by the documented rule",
					Detail: fmt.Sprintf("input %q: %v", short, perr)})
				return false
			case want && got != (registry.Reference{Registry: "reg.example", Repository: "ns/app", Reference: s}):
				c.AddViolation(driver.Violation{Tier: c.Tier, Job: c.Job, Scenario: "bare-tags", Sig: "Repository.ParseReference resolves a bare tag to another reference",
					Detail: fmt.Sprintf("input %q: %+v", short, got)})
				return false
			case !want && perr == nil:
				c.AddViolation(driver.Violation{Tier: c.Tier, Job: c.Job, Scenario: "bare-tags", Sig: "Repository.ParseReference accepts a bare reference that is not a tag by the documented rule",
					Detail: fmt.Sprintf("input %q (first character must be a word character, at most 128 characters): returned %+v", short, got)})
				return false
			}
			return true
		}
		var rec func(p string) bool
		rec = func(p string) bool {
			if len(p) > 0 && !judge(p) {
				return false
			}
			if len(p) == maxLen {
				return true
			}
			for i := 0; i < len(alpha); i++ {
				if !rec(p + alpha[i:i+1]) {
					return false
				}
			}
			return true
		}
		if !rec("") {
			return
		}
		for i := 0; i < len(alpha); i++ {
			for _, fill := range []string{"a", ".", "-"} {
				for n := 127; n <= 130; n++ {
					if !judge(alpha[i:i+1] + strings.Repeat(fill, n-1)) {
						return
					}
				}
			}
		}
	}}
}
