package c18

import (
	"context"
	"fmt"
	"os"
	"strings"

	"oras.land/oras-go/v2/registry/remote/credentials"
	"verif.local/engine/driver"
	"verif.local/engine/explore"
	"verif.local/engine/vs"
)

// concKinds: the i-th occurrence of a Put in a scenario takes the i-th credential,
// so that racing Puts to one key are distinguishable in the file.
var concKinds = []string{"putA", "putB", "delA", "getA"}

var credC3 = cred{Username: "<&>", Password: "ü", RefreshToken: "r"}

func concOps(kinds []string) []op {
	credsA := []cred{credC0, credC1, credC3}
	namesA := []string{"c0", "c1", "c3"}
	credsB := []cred{credC2, credC0, credC1}
	namesB := []string{"c2", "c0", "c1"}
	na, nb := 0, 0
	var out []op
	for _, k := range kinds {
		switch k {
		case "putA":
			out = append(out, op{kind: "put", addr: 0, c: credsA[na], cn: namesA[na]})
			na++
		case "putB":
			out = append(out, op{kind: "put", addr: 1, c: credsB[nb], cn: namesB[nb]})
			nb++
		case "delA":
			out = append(out, op{kind: "del", addr: 0})
		case "getA":
			out = append(out, op{kind: "get", addr: 0})
		}
	}
	return out
}

func concJobs(th bool) []driver.Job {
	var out []driver.Job
	b := explore.Bounds{Dev: 2}
	if th {
		b = explore.Bounds{Dev: 3}
	}
	byName := map[string]*doc{}
	for _, d := range docs() {
		byName[d.name] = d
	}
	type combo struct {
		doc  string
		pair [2]string
	}
	combos := []combo{{"absent", [2]string{"h", "h:5000"}}, {"entries-unknown-fields", [2]string{"h", "h:5000"}}, {"legacy", [2]string{"h", "https://h/v1/"}}}
	if th {
		combos = append(combos, combo{"absent", [2]string{"h", "https://h/v1/"}}, combo{"entries-unknown-fields", [2]string{"h", "https://h/v1/"}}, combo{"legacy", [2]string{"h", "h:5000"}})
	}
	nk := len(concKinds)
	for _, cb := range combos {
		d, pair := byName[cb.doc], cb.pair
		for i := 0; i < nk; i++ {
			for j := i; j < nk; j++ {
				for k := j; k < nk; k++ {
					if concKinds[i] == "getA" { // three Gets: nothing to race with
						continue
					}
					d, pair := d, pair
					kinds := []string{concKinds[i], concKinds[j], concKinds[k]}
					gs := concOps(kinds)
					name := fmt.Sprintf("conc/%s/%s,%s/%s/%v", d.name, pair[0], pair[1], strings.Join(kinds, "+"), b)
					out = append(out, driver.Job{Name: name, Run: func(c *driver.Ctx) {
						c.Explore(driver.Scenario{
							Name: name, Bases: []int{0, 1, 2}, Bounds: b,
							Make: func() (func(), func(*vs.Result) *driver.Fail) { return concRun(c, d, pair, gs, name, false) },
						})
					}})
					if cb.doc != "entries-unknown-fields" {
						// the same through credentials.NewStore (plain-text fallback allowed): one store value, whatever it builds per call
						dname := name + "/via-NewStore"
						out = append(out, driver.Job{Name: dname, Run: func(c *driver.Ctx) {
							c.Explore(driver.Scenario{
								Name: dname, Bases: []int{0, 1, 2}, Bounds: b,
								Make: func() (func(), func(*vs.Result) *driver.Fail) { return concRun(c, d, pair, gs, dname, true) },
							})
						}})
					}
				}
			}
		}
	}
	return out
}

type concRes struct {
	done bool
	c    cred
	err  error
}

func permutations(n int) [][]int {
	if n == 1 {
		return [][]int{{0}}
	}
	var out [][]int
	for _, p := range permutations(n - 1) {
		for pos := 0; pos <= len(p); pos++ {
			q := append([]int{}, p[:pos]...)
			q = append(q, n-1)
			q = append(q, p[pos:]...)
			out = append(out, q)
		}
	}
	return out
}

func concRun(c *driver.Ctx, d *doc, pair [2]string, gs []op, name string, viaNewStore bool) (func(), func(*vs.Result) *driver.Fail) {
	dir, path := place(d)
	var st credentials.Store
	var err error
	if viaNewStore {
		st, err = credentials.NewStore(path, credentials.StoreOptions{AllowPlaintextPut: true})
	} else {
		st, err = credentials.NewFileStore(path)
	}
	m0 := newModel(d)
	s0 := statOf(path)
	results := make([]concRes, len(gs))
	var ns []string
	for gi, o := range gs {
		ns = append(ns, fmt.Sprintf("g%d: %s", gi, o.str(pair)))
	}
	desc := fmt.Sprintf("document %s: %s\n%s", d.name, clip(d.text), strings.Join(ns, "\n"))
	body := func() {
		if err != nil {
			return
		}
		ctx := context.Background()
		done := make(chan int, len(gs))
		for gi, o := range gs {
			gi, o := gi, o
			vs.Go(func() {
				var r concRes
				switch o.kind {
				case "put":
					r.err = st.Put(ctx, pair[o.addr], o.c)
				case "get":
					r.c, r.err = st.Get(ctx, pair[o.addr])
				case "del":
					r.err = st.Delete(ctx, pair[o.addr])
				}
				r.done = true
				vs.Atomic(func() { results[gi] = r })
				vs.Send(done, gi)
			})
		}
		for range gs {
			vs.Recv(done)
		}
	}
	check := func(res *vs.Result) *driver.Fail {
		defer os.RemoveAll(dir)
		if err != nil {
			return &driver.Fail{Sig: "NewFileStore refuses a well-formed config document", Detail: err.Error()}
		}
		if f := driver.StdFail(res); f != nil {
			f.Detail = desc + "\n" + f.Detail
			return f
		}
		var rs []string
		for gi, r := range results {
			if !r.done {
				return &driver.Fail{Sig: "concurrent operation did not complete", Detail: desc}
			}
			s := "ok"
			if gs[gi].kind == "get" {
				s = credStr(r.c)
			}
			if r.err != nil {
				s = "error " + r.err.Error()
			}
			rs = append(rs, fmt.Sprintf("g%d %s = %s", gi, gs[gi].str(pair), s))
			if gs[gi].kind != "get" && r.err != nil {
				return &driver.Fail{Sig: "concurrent " + gs[gi].kind + " fails", Detail: desc + "\n" + strings.Join(rs, "\n")}
			}
		}
		// every sequential order on the model
		fileOK := false
		var mOK *model
		var why []string
		clauses := map[string]bool{}
		getAllowed := make([][]outcome, len(gs))
		for _, perm := range permutations(len(gs)) {
			m := m0.clone()
			for _, gi := range perm {
				o := gs[gi]
				switch o.kind {
				case "put":
					m.put(pair[o.addr], o.c)
				case "del":
					m.del(pair[o.addr])
				case "get":
					al, _ := m.get(pair[o.addr])
					getAllowed[gi] = append(getAllowed[gi], al...)
				}
			}
			if mm := matchFile(m, path, nil); mm == nil {
				fileOK = true
				if mOK == nil {
					mOK = m
				}
			} else {
				why = append(why, fmt.Sprintf("order %v: %s: %s", perm, mm.clause, mm.detail))
				clauses[mm.clause] = true
			}
		}
		b, _ := os.ReadFile(path)
		detail := desc + "\n" + strings.Join(rs, "\n") + "\nfile: " + clip(string(b))
		if !fileOK {
			sig := "concurrent: the file equals no sequential order of the operations"
			if len(clauses) == 1 { // the same clause fails whatever the order: not a matter of ordering
				for cl := range clauses {
					if strings.Contains(cl, "top-level") || strings.Contains(cl, "another registry") || strings.Contains(cl, "not one complete") {
						sig = "concurrent: " + cl
					}
				}
			}
			return &driver.Fail{Sig: sig, Detail: detail + "\n" + strings.Join(why, "\n")}
		}
		for gi, r := range results {
			if gs[gi].kind == "get" && !inAllowed(getAllowed[gi], r.c, r.err) {
				return &driver.Fail{Sig: "concurrent: Get answer that no sequential order allows", Detail: detail + "\nallowed for g" + fmt.Sprint(gi) + ": " + allowedStr(getAllowed[gi])}
			}
		}
		// afterwards, with nothing else running: the store that executed the calls reads back what the file holds
		if f := reopenCheck(path, mOK, []string{pair[0], pair[1]}, st); f != nil {
			f.Sig = "concurrent, afterwards: " + f.Sig
			f.Detail = detail + "\n" + f.Detail
			return f
		}
		hasPut := false
		for _, o := range gs {
			if o.kind == "put" {
				hasPut = true
			}
		}
		if f := modeCheck(s0, statOf(path), hasPut); f != nil {
			f.Sig = "concurrent: " + f.Sig
			f.Detail = detail + "\n" + f.Detail
			return f
		}
		if n := leftovers(path); n > 0 {
			c.Count("leftover_files_after_success", int64(n))
		}
		c.Outcome(driver.Hash(name, string(b), strings.Join(rs, ",")))
		for _, ch := range res.Choices() {
			if ch != 0 {
				c.Nontriv(driver.Hash(name, fmt.Sprint(res.Choices())))
				break
			}
		}
		return nil
	}
	return body, check
}
