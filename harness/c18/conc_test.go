package c18

import (
	"context"
	"fmt"
	"os"
	"strings"

	"oras.land/oras-go/v2/registry/remote/credentials"
	"verif.local/engine/driver"
	"verif.local/engine/explore"
	"verif.local/engine/vs"
)

func concAlphabet() []op {
	return []op{
		{kind: "put", addr: 0, c: credC0, cn: "c0"},
		{kind: "put", addr: 0, c: credC1, cn: "c1"},
		{kind: "put", addr: 1, c: credC2, cn: "c2"},
		{kind: "del", addr: 0},
		{kind: "get", addr: 0},
	}
}

func concJobs(th bool) []driver.Job {
	var out []driver.Job
	ops := concAlphabet()
	b := explore.Bounds{Dev: 2}
	if th {
		b = explore.Bounds{Dev: 3}
	}
	byName := map[string]*doc{}
	for _, d := range docs() {
		byName[d.name] = d
	}
	for _, dn := range []string{"absent", "entries-unknown-fields", "legacy"} {
		d := byName[dn]
		for _, pair := range [][2]string{{"h", "h:5000"}, {"h", "https://h/v1/"}} {
			for i := 0; i < len(ops); i++ {
				for j := i; j < len(ops); j++ {
					for k := j; k < len(ops); k++ {
						if ops[i].kind == "get" { // three Gets: nothing to race with
							continue
						}
						d, pair := d, pair
						gs := []op{ops[i], ops[j], ops[k]}
						var ns []string
						for _, o := range gs {
							ns = append(ns, o.str(pair))
						}
						name := fmt.Sprintf("conc/%s/%s/%v", d.name, strings.Join(ns, " || "), b)
						out = append(out, driver.Job{Name: name, Run: func(c *driver.Ctx) {
							c.Explore(driver.Scenario{
								Name: name, Bases: []int{0, 1, 2}, Bounds: b,
								Make: func() (func(), func(*vs.Result) *driver.Fail) { return concRun(c, d, pair, gs, name) },
							})
						}})
					}
				}
			}
		}
	}
	return out
}

type concRes struct {
	done bool
	c    cred
	err  error
}

func permutations(n int) [][]int {
	if n == 1 {
		return [][]int{{0}}
	}
	var out [][]int
	for _, p := range permutations(n - 1) {
		for pos := 0; pos <= len(p); pos++ {
			q := append([]int{}, p[:pos]...)
			q = append(q, n-1)
			q = append(q, p[pos:]...)
			out = append(out, q)
		}
	}
	return out
}

func concRun(c *driver.Ctx, d *doc, pair [2]string, gs []op, name string) (func(), func(*vs.Result) *driver.Fail) {
	dir, path := place(d)
	st, err := credentials.NewFileStore(path)
	m0 := newModel(d)
	s0 := statOf(path)
	results := make([]concRes, len(gs))
	desc := fmt.Sprintf("document %s: %s\n%s", d.name, clip(d.text), name)
	body := func() {
		if err != nil {
			return
		}
		ctx := context.Background()
		done := make(chan int, len(gs))
		for gi, o := range gs {
			gi, o := gi, o
			vs.Go(func() {
				var r concRes
				switch o.kind {
				case "put":
					r.err = st.Put(ctx, pair[o.addr], o.c)
				case "get":
					r.c, r.err = st.Get(ctx, pair[o.addr])
				case "del":
					r.err = st.Delete(ctx, pair[o.addr])
				}
				r.done = true
				vs.Atomic(func() { results[gi] = r })
				vs.Send(done, gi)
			})
		}
		for range gs {
			vs.Recv(done)
		}
	}
	check := func(res *vs.Result) *driver.Fail {
		defer os.RemoveAll(dir)
		if err != nil {
			return &driver.Fail{Sig: "NewFileStore refuses a well-formed config document", Detail: err.Error()}
		}
		if f := driver.StdFail(res); f != nil {
			f.Detail = desc + "\n" + f.Detail
			return f
		}
		var rs []string
		for gi, r := range results {
			if !r.done {
				return &driver.Fail{Sig: "concurrent operation did not complete", Detail: desc}
			}
			s := "ok"
			if gs[gi].kind == "get" {
				s = credStr(r.c)
			}
			if r.err != nil {
				s = "error " + r.err.Error()
			}
			rs = append(rs, fmt.Sprintf("g%d %s = %s", gi, gs[gi].str(pair), s))
			if gs[gi].kind != "get" && r.err != nil {
				return &driver.Fail{Sig: "concurrent " + gs[gi].kind + " fails", Detail: desc + "\n" + strings.Join(rs, "\n")}
			}
		}
		// every sequential order on the model
		fileOK := false
		var why []string
		getAllowed := make([][]outcome, len(gs))
		for _, perm := range permutations(len(gs)) {
			m := m0.clone()
			for _, gi := range perm {
				o := gs[gi]
				switch o.kind {
				case "put":
					m.put(pair[o.addr], o.c)
				case "del":
					m.del(pair[o.addr])
				case "get":
					al, _ := m.get(pair[o.addr])
					getAllowed[gi] = append(getAllowed[gi], al...)
				}
			}
			if mm := matchFile(m, path, nil); mm == nil {
				fileOK = true
			} else {
				why = append(why, fmt.Sprintf("order %v: %s: %s", perm, mm.clause, mm.detail))
			}
		}
		b, _ := os.ReadFile(path)
		detail := desc + "\n" + strings.Join(rs, "\n") + "\nfile: " + clip(string(b))
		if !fileOK {
			return &driver.Fail{Sig: "concurrent: the file equals no sequential order of the operations", Detail: detail + "\n" + strings.Join(why, "\n")}
		}
		for gi, r := range results {
			if gs[gi].kind == "get" && !inAllowed(getAllowed[gi], r.c, r.err) {
				return &driver.Fail{Sig: "concurrent: Get answer that no sequential order allows", Detail: detail + "\nallowed for g" + fmt.Sprint(gi) + ": " + allowedStr(getAllowed[gi])}
			}
		}
		hasPut := false
		for _, o := range gs {
			if o.kind == "put" {
				hasPut = true
			}
		}
		if f := modeCheck(s0, statOf(path), hasPut); f != nil {
			f.Sig = "concurrent: " + f.Sig
			f.Detail = detail + "\n" + f.Detail
			return f
		}
		if n := leftovers(path); n > 0 {
			c.Count("leftover_files_after_success", int64(n))
		}
		c.Outcome(driver.Hash(name, string(b), strings.Join(rs, ",")))
		if len(res.Trace) > 0 {
			c.Nontriv(driver.Hash(name, fmt.Sprint(res.Choices())))
		}
		return nil
	}
	return body, check
}
