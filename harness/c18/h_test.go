package c18

import (
	"encoding/base64"
	"fmt"
	"os"
	"path/filepath"
	"strings"
	"testing"

	"verif.local/engine/driver"
)

func TestVerif(t *testing.T) {
	driver.Main(t, driver.Harness{
		ID:    "C18",
		Level: "model_checking",
		Rule: "round trip: every credential in {\"\", u, p:q:r, ü, <&>, 64 bytes}^4 (username, password, refresh token, access token; a username with a colon must be refused without touching the file or else round-trip) x 4 address forms " +
			"(h, h:5000, https://h/v1/, http://h) x 14 pre-existing documents (a config path that is a relative symbolic link to the file holding the document, absent, absent in a missing directory, {}, null, unknown top-level keys of every JSON type, auths entries with unknown fields, credsStore/credHelpers, " +
			"legacy username/password entries under URL keys, auth fields that are not base64(user:password), pretty-printed 0644 file, empty credsStore, auths:null, null entry): Put, Get, compare file with model, reload + Get, Delete, compare. " +
			"histories: every history of 1..4 (thorough 1..5) operations over {Put a c0, Put a c1, Put b c0, Put b c2, Get a, Get b, Delete a, Delete b, Put a colon-username} for 4 address pairs x every document; " +
			"every answer is compared with a JSON-document model (Get = what was put / what the docker format says a pre-existing entry means; Delete removes that key only); after the last operation the file must be one complete JSON object equal to the model " +
			"(every other top-level key and every other entry equal as JSON values, numbers exactly), have mode 0600 when it was rewritten, and load into a fresh store that answers like the model. " +
			"After every history the store that executed it and a fresh store loaded from the file are asked Get for both addresses, the bare host name h and an unrelated host: the fresh store must answer like the model, and the two stores must agree wherever at most one entry can be meant. " +
			"crash: the last operation of every such history of length <= 3 (thorough <= 4) is interrupted before each of its mutating file-system operations in turn (mkdir, create-temp, fchmod, write, rename); the file at the config path must be the old or the new complete document (new: mode 0600). " +
			"concurrent (on a FileStore, and for two of the documents also on the store credentials.NewStore returns with the plain-text fallback allowed): 3 goroutines x one operation each, every multiset of {Put a, Put b, Delete a, Get a} except three Gets (repeated Puts carry different credentials) x 3 (thorough 6) document/address-pair combinations, all schedules with at most 2 (thorough 3) deviations from each of 3 default schedulers; " +
			"final file = model after some permutation, every Get answer = what some permutation allows at that point. " +
			"strace-conformance: 5 scripted histories run by an uninstrumented driver under strace - mutating system calls = shim log, and a real SIGKILL at entry of every one of them leaves the tree the shim's freeze leaves. " +
			"non-trivial = distinct (document, addresses, history) with an effective mutation on a document that has something else to preserve, distinct crash point after the first mutating operation, distinct round-trip case with an empty/colon/non-ASCII/markup credential part, distinct non-default schedule",
		Assumptions: []string{
			"process-kill crash model: kernel state = the system calls that completed; power loss / unsynced pages are outside the property",
			"the vos shim issues the same mutating system-call sequence as package os and its freeze equals a kill at that call (checked by job strace-conformance on 5 histories whenever strace, ptrace and the toolchain are available; otherwise counted as strace_conformance_skipped)",
			"a credsStore key whose value is the empty string is treated as equal to an absent key (docker's own omitempty convention); counted, not judged",
			"which entry Get returns when no exact key exists and several legacy URL keys name the host is not specified; any of them, or the empty credential, is accepted",
			"object key order and whitespace of the file are not part of 'preserved'; values are compared as JSON values with numbers compared exactly",
		},
		Jobs:           jobs,
		BudgetQuick:    400,
		BudgetThorough: 1500,
	})
}

// ---- universe

func b64(s string) string { return base64.StdEncoding.EncodeToString([]byte(s)) }

var long64 = strings.Repeat("0123456789abcdef", 4)

var parts = []string{"", "u", "p:q:r", "ü", "<&>", long64, " s p ", "\t"} // incl. leading/trailing blanks and a whitespace-only secret

var addrForms = []string{"h", "h:5000", "https://h/v1/", "http://h"}

// doc is one pre-existing config document.
type doc struct {
	name   string
	absent bool
	subdir bool // the config path lies in a directory that does not exist yet
	text   string
	mode   os.FileMode
	rich   bool // has other keys or entries to preserve
	link   bool // the config path is a relative symbolic link to the file holding the document (a dotfiles manager's layout)
}

func docs() []*doc {
	return []*doc{
		{name: "absent", absent: true},
		{name: "absent-missing-dir", absent: true, subdir: true},
		{name: "empty", text: `{}`, mode: 0600},
		{name: "null", text: `null`, mode: 0600},
		{name: "unknown-top", rich: true, mode: 0600,
			text: `{"zNull":null,"zTrue":true,"zFalse":false,"zNum":1.50e+3,"zBig":123456789012345678901234567890,"zNeg":-0.000001,` +
				`"zStr":"sü <&> \"q\" \\ \n","zArr":[1,{"a":null},"x",[]],"zObj":{"k":{"n":[],"m":{}}},"HttpHeaders":{"User-Agent":"x/1"},` +
				`"kü":"non-ascii key","detachKeys":"ctrl-e,e"}`},
		{name: "entries-unknown-fields", rich: true, mode: 0600,
			text: `{"auths":{"other.io":{"auth":"` + b64("ou:op") + `","email":"x@y.z","extra":{"k":[1,2.0,null]},"serveraddress":"other.io"},` +
				`"h":{"auth":"` + b64("old:pw:with:colons") + `","email":"e"},"h:5000":{"identitytoken":"rt-old","zz":true}},"experimental":"enabled"}`},
		{name: "credsstore", rich: true, mode: 0600,
			text: `{"credsStore":"desktop","credHelpers":{"gcr.io":"gcloud","h":"helper"},"auths":{}}`},
		{name: "legacy", rich: true, mode: 0600,
			text: `{"auths":{"https://h/v1/":{"username":"lu","password":"lp","email":"e"},"http://h":{"auth":"` + b64("hu:hp") + `"},` +
				`"other.io":{"identitytoken":"it","registrytoken":"rt"}}}`},
		{name: "bad-auth", rich: true, mode: 0600,
			text: `{"auths":{"h":{"auth":"` + b64("nocolon") + `"},"h:5000":{"auth":"!!!notbase64"},"other.io":{"auth":"` + b64("a:b") + `"}}}`},
		{name: "pretty-0644", rich: true, mode: 0644,
			text: "{\n  \"auths\": {\n    \"h:5000\": {\n      \"auth\": \"" + b64("pu:pp") + "\"\n    },\n    \"other.io\": {\n      \"auth\": \"" + b64("ou:op") + "\"\n    }\n  },\n  \"experimental\": \"enabled\"\n}\n"},
		{name: "empty-credsstore", rich: true, mode: 0600,
			text: `{"credsStore":"","auths":{"other.io":{"auth":"` + b64("ou:op") + `"}}}`},
		{name: "auths-null", rich: true, mode: 0600, text: `{"auths":null,"psFormat":"table"}`},
		{name: "entry-null", rich: true, mode: 0600, text: `{"auths":{"other.io":null,"x.io":{}}}`},
		{name: "symlinked", rich: true, mode: 0600, link: true,
			text: `{"auths":{"other.io":{"auth":"` + b64("ou:op") + `"},"h":{"auth":"` + b64("old:pw") + `"}},"experimental":"enabled"}`},
	}
}

// place creates a scratch directory holding d and returns (directory to remove, config path).
func place(d *doc) (string, string) {
	dir := scratch()
	p := filepath.Join(dir, "config.json")
	if d.subdir {
		p = filepath.Join(dir, "sub", "dir", "config.json")
	}
	if !d.absent {
		target := p
		if d.link {
			// config.json -> real.json, a relative link; the process's working directory is elsewhere
			target = filepath.Join(dir, "real.json")
			if err := os.Symlink("real.json", p); err != nil {
				panic(err)
			}
		}
		if err := os.WriteFile(target, []byte(d.text), d.mode); err != nil {
			panic(err)
		}
		if err := os.Chmod(target, d.mode); err != nil {
			panic(err)
		}
	}
	return dir, p
}

func scratch() string {
	base := os.Getenv("VERIF_SCRATCH")
	if base == "" {
		base = "/dev/shm"
	}
	d, err := os.MkdirTemp(base, "c18")
	if err != nil {
		panic(err)
	}
	return d
}

func jobs(tier string) []driver.Job {
	th := tier == "thorough"
	var out []driver.Job
	out = append(out, rtJobs(th)...)
	out = append(out, seqJobs(th)...)
	out = append(out, concJobs(th)...)
	out = append(out, straceJob())
	return out
}

func viol(c *driver.Ctx, scenario string, f *driver.Fail) {
	c.AddViolation(driver.Violation{Tier: c.Tier, Job: c.Job, Scenario: scenario, Sig: f.Sig, Detail: f.Detail})
}

func firstLine(s string) string {
	if i := strings.IndexByte(s, '\n'); i >= 0 {
		return s[:i]
	}
	return s
}

var _ = fmt.Sprint
