package c18

import "verif.local/engine/driver"

func straceJob() driver.Job {
	return driver.Job{Name: "strace-conformance", Run: func(c *driver.Ctx) {}}
}
