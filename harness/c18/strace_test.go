package c18

import (
	"context"
	"encoding/json"
	"fmt"
	"os"
	"os/exec"
	"path/filepath"
	"regexp"
	"sort"
	"strings"
	"time"

	"verif.local/engine/driver"
	"verif.local/engine/vos"
)

// Conformance of the vos shim to the kernel for the save path of this property.
// An UNINSTRUMENTED driver (the library as it is in the repository, built here
// with the plain toolchain) replays a few scripted histories under strace:
//  (a) its sequence of mutating system calls below the config directory must
//      equal, call for call, the mutating-operation log of the instrumented run;
//  (b) for every such call k, the driver is killed for real (strace inject,
//      SIGKILL at entry of the call) and the surviving directory tree must equal
//      the tree the shim leaves when it freezes the disk before operation k.
// When strace, ptrace or the toolchain are not available the job only counts
// "strace_conformance_skipped"; a disagreement is an infrastructure error (the
// crash verdicts would not be trustworthy), not a property violation.

const traceSet = "execve,mkdir,mkdirat,open,openat,creat,write,pwrite64,writev,fchmod,fchmodat,chmod,rename,renameat,renameat2,unlink,unlinkat,rmdir,link,linkat,symlink,symlinkat,truncate,ftruncate"

const driverSrc = `package main

import (
	"context"
	"encoding/json"
	"os"
	"runtime"

	"oras.land/oras-go/v2/registry/remote/auth"
	"oras.land/oras-go/v2/registry/remote/credentials"
)

type sop struct{ Kind, Addr, U, P, R, A string }

func init() { runtime.LockOSThread() }

func main() {
	var ops []sop
	if err := json.Unmarshal([]byte(os.Args[2]), &ops); err != nil {
		os.Exit(3)
	}
	st, err := credentials.NewFileStore(os.Args[1])
	if err != nil {
		os.Exit(4)
	}
	ctx := context.Background()
	for _, o := range ops {
		switch o.Kind {
		case "put":
			st.Put(ctx, o.Addr, auth.Credential{Username: o.U, Password: o.P, RefreshToken: o.R, AccessToken: o.A})
		case "get":
			st.Get(ctx, o.Addr)
		case "del":
			st.Delete(ctx, o.Addr)
		}
	}
}
`

type script struct {
	doc  string
	pair [2]string
	hist []op
}

func scripts() []script {
	put := func(a int, c cred, n string) op { return op{kind: "put", addr: a, c: c, cn: n} }
	del := func(a int) op { return op{kind: "del", addr: a} }
	get := func(a int) op { return op{kind: "get", addr: a} }
	return []script{
		{"absent-missing-dir", [2]string{"h", "h:5000"}, []op{put(0, credC0, "c0")}},
		{"absent", [2]string{"h", "h:5000"}, []op{put(0, credC0, "c0"), del(0)}},
		{"entries-unknown-fields", [2]string{"https://h/v1/", "h"}, []op{put(0, credC1, "c1"), del(1), del(0), del(0)}},
		{"pretty-0644", [2]string{"h:5000", "h"}, []op{put(0, credC2, "c2"), put(1, credC0, "c0")}},
		{"legacy", [2]string{"http://h", "h"}, []op{del(0), get(1), put(0, credBad, "colon-username")}},
	}
}

type sysop struct {
	kind  string
	paths []string
	name  string // system call name
	ord   int    // ordinal among the main thread's calls of that name
}

var tempRe = regexp.MustCompile(`oras_credstore_temp_[0-9*]+`)

func normPath(dir, p string) string {
	if r, err := filepath.Rel(dir, p); err == nil {
		p = r
	}
	return tempRe.ReplaceAllString(p, "oras_credstore_temp_*")
}

var quotedRe = regexp.MustCompile(`"((?:[^"\\]|\\.)*)"`)
var fdRe = regexp.MustCompile(`^\w+\(\d+<([^>]*)>`)

// parseStrace returns the mutating calls on paths below dir, in order, and the line of the
// call that was being entered when the process was killed ("" when it ended normally).
func parseStrace(log, dir string) (ops []sysop, killedAt *sysop, err error) {
	lines := strings.Split(log, "\n")
	pending := map[string]string{}
	mainPid := ""
	counts := map[string]int{}
	for _, l := range lines {
		l = strings.TrimSpace(l)
		if l == "" {
			continue
		}
		sp := strings.IndexByte(l, ' ')
		if sp < 0 {
			continue
		}
		pid, rest := l[:sp], strings.TrimSpace(l[sp+1:])
		if strings.HasPrefix(rest, "+++") || strings.HasPrefix(rest, "---") {
			continue
		}
		if strings.HasSuffix(rest, "<unfinished ...>") {
			pending[pid] = strings.TrimSuffix(rest, "<unfinished ...>")
			continue
		}
		if strings.HasPrefix(rest, "<... ") {
			i := strings.Index(rest, "resumed>")
			if i < 0 {
				continue
			}
			rest = pending[pid] + rest[i+len("resumed>"):]
			delete(pending, pid)
		}
		par := strings.IndexByte(rest, '(')
		if par <= 0 {
			continue
		}
		name := rest[:par]
		if mainPid == "" {
			if name != "execve" {
				return nil, nil, fmt.Errorf("strace log does not start with execve: %s", l)
			}
			mainPid = pid
			continue
		}
		if pid == mainPid {
			counts[name]++
		}
		o := sysop{name: name, ord: counts[name]}
		q := quotedRe.FindAllStringSubmatch(rest, -1)
		first := func(n int) []string {
			var out []string
			for i := 0; i < n && i < len(q); i++ {
				out = append(out, q[i][1])
			}
			return out
		}
		switch name {
		case "mkdir", "mkdirat":
			o.kind, o.paths = "mkdir", first(1)
		case "open", "openat", "creat":
			mut := name == "creat"
			for _, f := range []string{"O_CREAT", "O_WRONLY", "O_RDWR", "O_TRUNC", "O_APPEND"} {
				if strings.Contains(rest, f) {
					mut = true
				}
			}
			if !mut {
				continue
			}
			o.kind, o.paths = "openat", first(1)
		case "write", "pwrite64", "writev":
			m := fdRe.FindStringSubmatch(rest)
			if m == nil {
				continue
			}
			o.kind, o.paths = "write", []string{m[1]}
		case "fchmod":
			m := fdRe.FindStringSubmatch(rest)
			if m == nil {
				continue
			}
			o.kind, o.paths = "fchmod", []string{m[1]}
		case "ftruncate":
			m := fdRe.FindStringSubmatch(rest)
			if m == nil {
				continue
			}
			o.kind, o.paths = "ftruncate", []string{m[1]}
		case "fchmodat", "chmod":
			o.kind, o.paths = "chmod", first(1)
		case "rename", "renameat", "renameat2":
			o.kind, o.paths = "rename", first(2)
		case "unlink", "unlinkat", "rmdir":
			o.kind, o.paths = "unlink", first(1)
		case "link", "linkat":
			o.kind, o.paths = "link", first(2)
		case "symlink", "symlinkat":
			o.kind, o.paths = "symlink", first(2)
		case "truncate":
			o.kind, o.paths = "ftruncate", first(1)
		default:
			continue
		}
		under := false
		for _, p := range o.paths {
			if strings.HasPrefix(p, dir+"/") {
				under = true
			}
		}
		if !under {
			continue
		}
		if pid != mainPid {
			return nil, nil, fmt.Errorf("mutating call from a thread other than the main one: %s", l)
		}
		for i := range o.paths {
			o.paths[i] = normPath(dir, o.paths[i])
		}
		if strings.HasSuffix(rest, "= ?") {
			oc := o
			killedAt = &oc
			continue
		}
		ops = append(ops, o)
	}
	if mainPid == "" {
		return nil, nil, fmt.Errorf("empty strace log")
	}
	return ops, killedAt, nil
}

func (o sysop) String() string { return o.kind + " " + strings.Join(o.paths, " -> ") }

func vosMutLog(p *vos.Plan, dir string) []string {
	var out []string
	for _, o := range p.Log {
		if !o.Mutating {
			continue
		}
		s := o.Kind + " " + normPath(dir, o.Path)
		if o.Path2 != "" {
			s += " -> " + normPath(dir, o.Path2)
		}
		out = append(out, s)
	}
	return out
}

// tree describes a directory: normalised relative names, permission bits, contents.
func tree(dir string) string {
	var out []string
	filepath.Walk(dir, func(p string, fi os.FileInfo, err error) error {
		if err != nil || p == dir {
			return nil
		}
		l := normPath(dir, p) + " " + fi.Mode().String()
		if fi.Mode().IsRegular() {
			b, _ := os.ReadFile(p)
			l += fmt.Sprintf(" %q", b)
		}
		out = append(out, l)
		return nil
	})
	sort.Strings(out)
	return strings.Join(out, "\n")
}

func scriptJSON(s script) string {
	type sop struct{ Kind, Addr, U, P, R, A string }
	var ops []sop
	for _, o := range s.hist {
		ops = append(ops, sop{o.kind, s.pair[o.addr], o.c.Username, o.c.Password, o.c.RefreshToken, o.c.AccessToken})
	}
	b, _ := json.Marshal(ops)
	return string(b)
}

func runCmd(timeout time.Duration, dir string, env []string, name string, args ...string) (string, error) {
	ctx, cancel := context.WithTimeout(context.Background(), timeout)
	defer cancel()
	cmd := exec.CommandContext(ctx, name, args...)
	cmd.Dir = dir
	if env != nil {
		cmd.Env = env
	}
	b, err := cmd.CombinedOutput()
	return string(b), err
}

func buildDriver(work string) (string, error) {
	gobin, err := exec.LookPath("go1.26.8")
	if err != nil {
		return "", err
	}
	repo := os.Getenv("VERIF_REPO")
	if repo == "" {
		repo = "/repo"
	}
	repo, _ = filepath.Abs(repo)
	src := filepath.Join(work, "main.go")
	if err := os.WriteFile(src, []byte(driverSrc), 0644); err != nil {
		return "", err
	}
	ov, _ := json.Marshal(map[string]any{"Replace": map[string]string{filepath.Join(repo, "internal", "zzverif", "c18drv", "main.go"): src}})
	ovp := filepath.Join(work, "overlay.json")
	if err := os.WriteFile(ovp, ov, 0644); err != nil {
		return "", err
	}
	bin := filepath.Join(work, "c18drv")
	var env []string
	for _, e := range os.Environ() {
		if !strings.HasPrefix(e, "GOFLAGS=") && !strings.HasPrefix(e, "GOMAXPROCS=") {
			env = append(env, e)
		}
	}
	env = append(env, "GOFLAGS=", "GOPROXY=off", "GOSUMDB=off", "GOTOOLCHAIN=local")
	out, err := runCmd(300*time.Second, repo, env, gobin, "build", "-mod=readonly", "-overlay", ovp, "-o", bin, "./internal/zzverif/c18drv")
	if err != nil {
		return "", fmt.Errorf("%v: %s", err, clip(out))
	}
	return bin, nil
}

func straceJob() driver.Job {
	return driver.Job{Name: "strace-conformance", Run: func(c *driver.Ctx) {
		skip := func(why string) {
			c.Count("strace_conformance_skipped", 1)
			c.Sample("strace conformance skipped: " + why)
		}
		strace, err := exec.LookPath("strace")
		if err != nil {
			skip("no strace")
			return
		}
		work := scratch()
		defer os.RemoveAll(work)
		if out, err := runCmd(20*time.Second, work, nil, strace, "-f", "-o", filepath.Join(work, "probe.log"), "-e", "trace=execve", "/bin/true"); err != nil {
			skip("ptrace not permitted: " + clip(out))
			return
		}
		bin, err := buildDriver(work)
		if err != nil {
			skip("driver build: " + err.Error())
			return
		}
		byName := map[string]*doc{}
		for _, d := range docs() {
			byName[d.name] = d
		}
		infra := func(format string, a ...any) {
			// a disagreement between the shim and the kernel is a broken assumption of the crash
			// enumeration: a note (exhaustive=false), neither a violation nor an infrastructure error
			c.Count("conformance_disagreements", 1)
			c.Notes = append(c.Notes, "ASSUMPTION-BROKEN vos shim (credentials store): "+fmt.Sprintf(format, a...))
		}
		for si, s := range scripts() {
			d := byName[s.doc]
			js := scriptJSON(s)
			var names []string
			for _, o := range s.hist {
				names = append(names, o.str(s.pair))
			}
			what := fmt.Sprintf("script %d (%s: %s)", si, d.name, strings.Join(names, " ; "))
			// instrumented run: the shim's log and final tree
			plan := &vos.Plan{KeepLog: true}
			vdir, _ := runHistory(d, s.pair, s.hist, plan)
			vlog := vosMutLog(plan, vdir)
			vtree := tree(vdir)
			os.RemoveAll(vdir)
			// real run under strace
			rdir, rpath := place(d)
			logp := filepath.Join(work, fmt.Sprintf("s%d.log", si))
			if out, err := runCmd(60*time.Second, work, nil, strace, "-f", "-y", "-qq", "-s", "0", "-o", logp, "-e", "trace="+traceSet, bin, rpath, js); err != nil {
				os.RemoveAll(rdir)
				infra("%s: driver under strace failed: %v %s", what, err, clip(out))
				return
			}
			lb, _ := os.ReadFile(logp)
			ops, _, err := parseStrace(string(lb), rdir)
			rtree := tree(rdir)
			os.RemoveAll(rdir)
			if err != nil {
				infra("%s: %v", what, err)
				return
			}
			var slog []string
			for _, o := range ops {
				slog = append(slog, o.String())
			}
			c.Evals++
			c.Traces++
			c.Count("strace_histories_compared", 1)
			if strings.Join(slog, "\n") != strings.Join(vlog, "\n") {
				infra("%s: mutating system calls differ from the shim's log\n--- strace\n%s\n--- vos\n%s", what, strings.Join(slog, "\n"), strings.Join(vlog, "\n"))
				return
			}
			if rtree != vtree {
				infra("%s: final directory trees differ\n--- real\n%s\n--- vos\n%s", what, rtree, vtree)
				return
			}
			c.Count("strace_mutating_syscalls_matched", int64(len(ops)))
			if si == 0 {
				c.Sample(what + "\nstrace = vos log:\n" + strings.Join(slog, "\n"))
			}
			// every crash point for real
			for k := 1; k <= len(ops); k++ {
				target := ops[k-1]
				kdir, kpath := place(d)
				klog := filepath.Join(work, fmt.Sprintf("s%d.k%d.log", si, k))
				runCmd(60*time.Second, work, nil, strace, "-f", "-y", "-qq", "-s", "0", "-o", klog, "-e", "trace="+traceSet,
					"-e", fmt.Sprintf("inject=%s:signal=SIGKILL:when=%d", target.name, target.ord), bin, kpath, js)
				kb, _ := os.ReadFile(klog)
				kops, killed, err := parseStrace(string(kb), kdir)
				ktree := tree(kdir)
				os.RemoveAll(kdir)
				if err != nil || killed == nil || killed.String() != target.String() || len(kops) != k-1 {
					got := "<none>"
					if killed != nil {
						got = killed.String()
					}
					infra("%s: SIGKILL injection at call %d (%s #%d) did not hit the intended call: killed at %s after %d calls (%v)", what, k, target.name, target.ord, got, len(kops), err)
					return
				}
				cp := &vos.Plan{CrashAt: k}
				fdir, _ := runHistory(d, s.pair, s.hist, cp)
				ftree := tree(fdir)
				os.RemoveAll(fdir)
				c.Evals++
				c.Traces++
				c.Count("sigkill_points_compared", 1)
				if ktree != ftree {
					infra("%s: tree after a real SIGKILL at entry of call %d (%s) differs from the shim's frozen tree\n--- real\n%s\n--- vos\n%s", what, k, target, ktree, ftree)
					return
				}
			}
		}
	}}
}
