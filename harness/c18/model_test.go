package c18

import (
	"bytes"
	"encoding/base64"
	"encoding/json"
	"fmt"
	"math/big"
	"os"
	"sort"
	"strings"

	"oras.land/oras-go/v2/registry/remote/auth"
)

// ---------------------------------------------------------------------------
// Reference model of the docker config file as this property sees it: a set of
// opaque top-level keys, plus the "auths" object whose entries are either
// opaque pre-existing JSON or a credential put through the store (generator-side
// ground truth). Nothing here calls into the credentials packages.
// ---------------------------------------------------------------------------

type cred = auth.Credential

type entry struct {
	put bool
	c   cred            // put == true: what was stored
	raw json.RawMessage // put == false: the pre-existing entry, verbatim
}

type model struct {
	present bool // a file exists at the config path
	top     map[string]json.RawMessage
	auths   map[string]entry
}

func newModel(d *doc) *model {
	m := &model{top: map[string]json.RawMessage{}, auths: map[string]entry{}}
	if d.absent {
		return m
	}
	m.present = true
	var top map[string]json.RawMessage
	if err := json.Unmarshal([]byte(d.text), &top); err != nil {
		panic("harness: document " + d.name + " is not a JSON object: " + err.Error())
	}
	for k, v := range top {
		if k != "auths" {
			m.top[k] = v
			continue
		}
		var a map[string]json.RawMessage
		if err := json.Unmarshal(v, &a); err != nil {
			panic("harness: auths of " + d.name + ": " + err.Error())
		}
		for h, e := range a {
			m.auths[h] = entry{raw: e}
		}
	}
	return m
}

func (m *model) clone() *model {
	n := &model{present: m.present, top: map[string]json.RawMessage{}, auths: map[string]entry{}}
	for k, v := range m.top {
		n.top[k] = v
	}
	for k, v := range m.auths {
		n.auths[k] = v
	}
	return n
}

// outcome of a Get: a credential, or "must fail".
type outcome struct {
	c   cred
	err bool
}

func (o outcome) String() string {
	if o.err {
		return "error"
	}
	return credStr(o.c)
}

func credStr(c cred) string {
	return fmt.Sprintf("{user=%q pass=%q refresh=%q access=%q}", c.Username, c.Password, c.RefreshToken, c.AccessToken)
}

// hostOf is the docker convention for legacy keys: drop an http:// or https://
// scheme and everything from the first slash on.
func hostOf(key string) string {
	for _, p := range []string{"http://", "https://"} {
		if len(key) >= len(p) && key[:len(p)] == p {
			key = key[len(p):]
			break
		}
	}
	for i := 0; i < len(key); i++ {
		if key[i] == '/' {
			return key[:i]
		}
	}
	return key
}

// refDecode reads one auths entry the way the docker config format defines it:
// "auth" = base64(user ":" password) split at the FIRST colon and taking
// precedence over the legacy "username"/"password" fields; "identitytoken" is
// the refresh token and "registrytoken" the access token.
func refDecode(raw json.RawMessage) outcome {
	var obj map[string]json.RawMessage
	if err := json.Unmarshal(raw, &obj); err != nil {
		return outcome{err: true}
	}
	str := func(k string) (string, bool) {
		v, ok := obj[k]
		if !ok {
			return "", true
		}
		var s string
		if err := json.Unmarshal(v, &s); err != nil {
			return "", false
		}
		return s, true
	}
	var o outcome
	var ok [5]bool
	var a string
	a, ok[0] = str("auth")
	o.c.RefreshToken, ok[1] = str("identitytoken")
	o.c.AccessToken, ok[2] = str("registrytoken")
	o.c.Username, ok[3] = str("username")
	o.c.Password, ok[4] = str("password")
	for _, k := range ok {
		if !k {
			return outcome{err: true}
		}
	}
	if a != "" {
		b, err := base64.StdEncoding.DecodeString(a)
		if err != nil {
			return outcome{err: true}
		}
		i := bytes.IndexByte(b, ':')
		if i < 0 {
			return outcome{err: true}
		}
		o.c.Username, o.c.Password = string(b[:i]), string(b[i+1:])
	}
	return o
}

func (e entry) expect() outcome {
	if e.put {
		return outcome{c: e.c}
	}
	return refDecode(e.raw)
}

// get returns the answers the statement allows for Get(addr). An exact key
// decides. Without one, entries stored under a legacy URL key of the same host
// may be returned (which one is not specified when there are several), and so
// may the empty credential - the statement does not demand the legacy lookup.
func (m *model) get(addr string) (allowed []outcome, legacy bool) {
	if e, ok := m.auths[addr]; ok {
		return []outcome{e.expect()}, false
	}
	allowed = []outcome{{}}
	var keys []string
	for k := range m.auths {
		keys = append(keys, k)
	}
	sort.Strings(keys)
	for _, k := range keys {
		if hostOf(k) == addr {
			allowed = append(allowed, m.auths[k].expect())
			legacy = true
		}
	}
	return allowed, legacy
}

func (m *model) put(addr string, c cred) {
	m.auths[addr] = entry{put: true, c: c}
	m.present = true
}

// del reports whether an entry was there.
func (m *model) del(addr string) bool {
	_, ok := m.auths[addr]
	delete(m.auths, addr)
	return ok
}

// ---------------------------------------------------------------------------
// JSON value equality (numbers exactly, as rationals; object key order free).
// ---------------------------------------------------------------------------

func decodeAny(b []byte) (any, error) {
	dec := json.NewDecoder(bytes.NewReader(b))
	dec.UseNumber()
	var v any
	if err := dec.Decode(&v); err != nil {
		return nil, err
	}
	if dec.More() {
		return nil, fmt.Errorf("trailing data")
	}
	return v, nil
}

func anyEqual(a, b any) bool {
	switch x := a.(type) {
	case nil:
		return b == nil
	case bool:
		y, ok := b.(bool)
		return ok && x == y
	case string:
		y, ok := b.(string)
		return ok && x == y
	case json.Number:
		y, ok := b.(json.Number)
		if !ok {
			return false
		}
		if x == y {
			return true
		}
		rx, ok1 := new(big.Rat).SetString(string(x))
		ry, ok2 := new(big.Rat).SetString(string(y))
		return ok1 && ok2 && rx.Cmp(ry) == 0
	case []any:
		y, ok := b.([]any)
		if !ok || len(x) != len(y) {
			return false
		}
		for i := range x {
			if !anyEqual(x[i], y[i]) {
				return false
			}
		}
		return true
	case map[string]any:
		y, ok := b.(map[string]any)
		if !ok || len(x) != len(y) {
			return false
		}
		for k, v := range x {
			w, ok := y[k]
			if !ok || !anyEqual(v, w) {
				return false
			}
		}
		return true
	}
	return false
}

func semEqual(a, b json.RawMessage) bool {
	x, e1 := decodeAny(a)
	y, e2 := decodeAny(b)
	return e1 == nil && e2 == nil && anyEqual(x, y)
}

func compactEq(a, b json.RawMessage) bool {
	var x, y bytes.Buffer
	if json.Compact(&x, a) != nil || json.Compact(&y, b) != nil {
		return false
	}
	return bytes.Equal(x.Bytes(), y.Bytes())
}

// ---------------------------------------------------------------------------
// Comparing the file on disk with the model.
// ---------------------------------------------------------------------------

// mismatch describes why a file is not the model's document.
type mismatch struct {
	clause string // defect-level: which clause of the statement
	detail string
}

type fileStats struct {
	bytesDiffer int // values equal as JSON but not byte-for-byte after Compact
	emptyCS     int // "credsStore":"" treated as absent
}

func emptyCredsStore(k string, v json.RawMessage) bool {
	return k == "credsStore" && strings.TrimSpace(string(v)) == `""`
}

// matchFile returns nil when the file at path holds exactly the model's document.
func matchFile(m *model, path string, fs *fileStats) *mismatch {
	b, err := os.ReadFile(path)
	if err != nil {
		if os.IsNotExist(err) {
			if m.present {
				return &mismatch{"config file missing", "no file at the config path"}
			}
			return nil
		}
		return &mismatch{"config file unreadable", err.Error()}
	}
	return matchBytes(m, b, fs)
}

func matchBytes(m *model, b []byte, fs *fileStats) *mismatch {
	var top map[string]json.RawMessage
	if strings.TrimSpace(string(b)) == "null" {
		top = map[string]json.RawMessage{}
	} else if err := json.Unmarshal(b, &top); err != nil {
		return &mismatch{"config file is not one complete JSON object", fmt.Sprintf("%v\nfile: %q", err, clip(string(b)))}
	}
	for k, v := range top {
		if k == "auths" {
			continue
		}
		if emptyCredsStore(k, v) {
			continue
		}
		w, ok := m.top[k]
		if !ok {
			return &mismatch{"unexpected top-level key in the config file", fmt.Sprintf("key %q = %s", k, clip(string(v)))}
		}
		if !semEqual(v, w) {
			return &mismatch{"top-level key of the config file changed", fmt.Sprintf("key %q: was %s, is %s", k, clip(string(w)), clip(string(v)))}
		}
		if fs != nil && !compactEq(v, w) {
			fs.bytesDiffer++
		}
	}
	for k, w := range m.top {
		if emptyCredsStore(k, w) {
			if fs != nil {
				if _, ok := top[k]; !ok {
					fs.emptyCS++
				}
			}
			continue
		}
		if _, ok := top[k]; !ok {
			return &mismatch{"top-level key of the config file lost", fmt.Sprintf("key %q (was %s)", k, clip(string(w)))}
		}
	}
	auths := map[string]json.RawMessage{}
	if a, ok := top["auths"]; ok && strings.TrimSpace(string(a)) != "null" {
		if err := json.Unmarshal(a, &auths); err != nil {
			return &mismatch{"auths of the config file is not an object", fmt.Sprintf("%v: %s", err, clip(string(a)))}
		}
	}
	var keys []string
	for k := range auths {
		keys = append(keys, k)
	}
	sort.Strings(keys)
	for _, k := range keys {
		if _, ok := m.auths[k]; !ok {
			return &mismatch{"auths entry present that the model does not have (deleted or never stored)", fmt.Sprintf("entry %q = %s", k, clip(string(auths[k])))}
		}
	}
	keys = keys[:0]
	for k := range m.auths {
		keys = append(keys, k)
	}
	sort.Strings(keys)
	for _, k := range keys {
		e := m.auths[k]
		v, ok := auths[k]
		if !ok {
			if e.put {
				return &mismatch{"stored entry missing from the config file", fmt.Sprintf("entry %q", k)}
			}
			return &mismatch{"another registry's entry lost", fmt.Sprintf("entry %q (was %s)", k, clip(string(e.raw)))}
		}
		if e.put {
			if got := refDecode(v); got.err || got.c != e.c {
				return &mismatch{"stored entry does not decode to the credential that was put", fmt.Sprintf("entry %q = %s\n decodes to %v\n put was    %v", k, clip(string(v)), got, credStr(e.c))}
			}
			continue
		}
		if !semEqual(v, e.raw) {
			return &mismatch{"another registry's entry changed", fmt.Sprintf("entry %q: was %s, is %s", k, clip(string(e.raw)), clip(string(v)))}
		}
		if fs != nil && !compactEq(v, e.raw) {
			fs.bytesDiffer++
		}
	}
	return nil
}

func clip(s string) string {
	if len(s) > 400 {
		return s[:400] + "…"
	}
	return s
}

func inAllowed(allowed []outcome, c cred, err error) bool {
	for _, o := range allowed {
		if o.err {
			if err != nil {
				return true
			}
			continue
		}
		if err == nil && o.c == c {
			return true
		}
	}
	return false
}

func allowedStr(allowed []outcome) string {
	var s []string
	for _, o := range allowed {
		s = append(s, o.String())
	}
	return strings.Join(s, " | ")
}
