package c18

import (
	"context"
	"fmt"
	"os"
	"path/filepath"

	"oras.land/oras-go/v2/registry/remote/credentials"
	"verif.local/engine/driver"
)

type op struct {
	kind string // put | get | del
	addr int    // index into the address pair
	c    cred
	cn   string // credential name
}

func (o op) str(pair [2]string) string {
	switch o.kind {
	case "put":
		return fmt.Sprintf("Put(%s, %s=%s)", pair[o.addr], o.cn, credStr(o.c))
	case "get":
		return fmt.Sprintf("Get(%s)", pair[o.addr])
	}
	return fmt.Sprintf("Delete(%s)", pair[o.addr])
}

var (
	credC0  = cred{Username: "u", Password: "p:q:r"}
	credC1  = cred{RefreshToken: "ü-refresh", AccessToken: "<&>"}
	credC2  = cred{Username: "ü", AccessToken: long64}
	credBad = cred{Username: "a:b", Password: "p"}
)

func hasColon(s string) bool {
	for i := 0; i < len(s); i++ {
		if s[i] == ':' {
			return true
		}
	}
	return false
}

// guard runs f and turns a panic into a message.
func guard(f func()) (panicked string) {
	defer func() {
		if r := recover(); r != nil {
			if _, ok := r.(error); ok {
				panicked = fmt.Sprintf("%v", r)
			} else {
				panicked = fmt.Sprint(r)
			}
			if panicked == "" {
				panicked = "panic"
			}
		}
	}()
	f()
	return ""
}

type stepInfo struct {
	mutated  bool // the model says the file had to be rewritten
	rejected bool // colon username refused
	legacy   bool // a Get was answered (or could be) through a legacy URL key
}

// step applies o to the store and to the model and compares the answer.
func step(st *credentials.FileStore, m *model, pair [2]string, o op, info *stepInfo) *driver.Fail {
	ctx := context.Background()
	addr := pair[o.addr]
	switch o.kind {
	case "put":
		var err error
		if p := guard(func() { err = st.Put(ctx, addr, o.c) }); p != "" {
			return &driver.Fail{Sig: "Put panics: " + firstLine(p), Detail: p}
		}
		if hasColon(o.c.Username) {
			if err != nil {
				info.rejected = true
				return nil
			}
			m.put(addr, o.c) // accepted: then it has to round-trip like any other
			info.mutated = true
			return nil
		}
		if err != nil {
			return &driver.Fail{Sig: "Put of a well-formed credential fails", Detail: err.Error()}
		}
		m.put(addr, o.c)
		info.mutated = true
	case "get":
		var got cred
		var err error
		if p := guard(func() { got, err = st.Get(ctx, addr) }); p != "" {
			return &driver.Fail{Sig: "Get panics: " + firstLine(p), Detail: p}
		}
		if f := judgeGet(m, addr, got, err, "", info); f != nil {
			return f
		}
	case "del":
		var err error
		if p := guard(func() { err = st.Delete(ctx, addr) }); p != "" {
			return &driver.Fail{Sig: "Delete panics: " + firstLine(p), Detail: p}
		}
		if err != nil {
			return &driver.Fail{Sig: "Delete fails", Detail: err.Error()}
		}
		if m.del(addr) {
			info.mutated = true
		}
	}
	return nil
}

// judgeGet compares one Get answer with the model.
func judgeGet(m *model, addr string, got cred, err error, who string, info *stepInfo) *driver.Fail {
	allowed, legacy := m.get(addr)
	if legacy && info != nil {
		info.legacy = true
	}
	if inAllowed(allowed, got, err) {
		return nil
	}
	ans := credStr(got)
	if err != nil {
		ans = "error " + err.Error()
	}
	detail := fmt.Sprintf("%sGet(%s) = %s\nallowed: %s", who, addr, ans, allowedStr(allowed))
	e, exact := m.auths[addr]
	switch {
	case exact && e.put:
		return &driver.Fail{Sig: who + "Get does not return the credential that was put", Detail: detail}
	case exact && allowed[0].err:
		return &driver.Fail{Sig: who + "Get accepts a pre-existing entry whose auth field is not base64(user:password)", Detail: detail}
	case exact:
		return &driver.Fail{Sig: who + "Get misreads a pre-existing entry", Detail: detail}
	case legacy:
		return &driver.Fail{Sig: who + "Get without an exact key returns neither a legacy entry of that host nor the empty credential", Detail: detail}
	}
	return &driver.Fail{Sig: who + "Get returns a credential or an error for an address that has no entry", Detail: detail}
}

// observe: a fresh store loaded from the file must answer like the model.
// reopenCheck loads the file into a fresh store, which must answer like the model; live, when given, is
// the store that executed the history: where the model leaves a choice (legacy-key lookup) but at most one
// entry can be meant, the live store and the reloaded one must give the same answer - an operation on one
// entry must not change what is read for another one other than through the file.
func reopenCheck(path string, m *model, addrs []string, live ...credentials.Store) *driver.Fail {
	var st *credentials.FileStore
	var err error
	if p := guard(func() { st, err = credentials.NewFileStore(path) }); p != "" {
		return &driver.Fail{Sig: "NewFileStore panics on a file the store wrote: " + firstLine(p), Detail: p}
	}
	if err != nil {
		return &driver.Fail{Sig: "the saved config file cannot be loaded again", Detail: err.Error()}
	}
	for _, a := range addrs {
		var got cred
		if p := guard(func() { got, err = st.Get(context.Background(), a) }); p != "" {
			return &driver.Fail{Sig: "Get panics: " + firstLine(p), Detail: p}
		}
		if f := judgeGet(m, a, got, err, "after reloading the file: ", nil); f != nil {
			return f
		}
		if allowed, _ := m.get(a); len(live) > 0 && len(allowed) <= 2 {
			var lgot cred
			var lerr error
			if p := guard(func() { lgot, lerr = live[0].Get(context.Background(), a) }); p != "" {
				return &driver.Fail{Sig: "Get panics: " + firstLine(p), Detail: p}
			}
			if (lerr == nil) != (err == nil) || lerr == nil && lgot != got {
				return &driver.Fail{Sig: "Get answers differently from a store that has just loaded the same file (an operation on one entry changed what is read for another)",
					Detail: fmt.Sprintf("Get(%q): the store that executed the history answers %+v, %v; a fresh store on the same file answers %+v, %v", a, lgot, lerr, got, err)}
			}
		}
	}
	return nil
}

// leftovers counts directory entries next to the config file other than the file itself.
func leftovers(path string) int {
	ents, err := os.ReadDir(filepath.Dir(path))
	if err != nil {
		return 0
	}
	n := 0
	for _, e := range ents {
		if e.Name() != filepath.Base(path) && !e.IsDir() {
			n++
		}
	}
	return n
}

type fstat struct {
	exists bool
	mode   os.FileMode
}

// statOf looks at what the config path names (a symbolic link is followed: whether a save replaces
// the link or the file behind it is left to the store).
func statOf(path string) fstat {
	fi, err := os.Stat(path)
	if err != nil {
		return fstat{}
	}
	return fstat{true, fi.Mode()}
}

// modeCheck: a rewritten file has owner-only permissions.
func modeCheck(before, after fstat, mutated bool) *driver.Fail {
	if !after.exists {
		return nil
	}
	if !after.mode.IsRegular() {
		return &driver.Fail{Sig: "config path is not a regular file after a save", Detail: after.mode.String()}
	}
	if after.mode.Perm() == 0600 {
		return nil
	}
	if !mutated && before.exists && before.mode == after.mode {
		return nil // not rewritten
	}
	return &driver.Fail{Sig: "rewritten config file does not have mode 0600", Detail: fmt.Sprintf("mode %v (before: exists=%v mode %v)", after.mode, before.exists, before.mode)}
}
