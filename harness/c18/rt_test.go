package c18

import (
	"context"
	"fmt"
	"os"

	"oras.land/oras-go/v2/registry/remote/credentials"
	"verif.local/engine/driver"
)

// Round trip of every credential over every address form and document.

func rtJobs(th bool) []driver.Job {
	var out []driver.Job
	for _, d := range docs() {
		for _, a := range addrForms {
			d, a := d, a
			name := fmt.Sprintf("roundtrip/%s/%s", d.name, a)
			out = append(out, driver.Job{Name: name, Run: func(c *driver.Ctx) { rtRun(c, d, a, name) }})
		}
	}
	return out
}

func special(s string) bool {
	return s == "" || s == "p:q:r" || s == "ü" || s == "<&>" || s == " s p " || s == "\t"
}

func rtRun(c *driver.Ctx, d *doc, addr string, name string) {
	pair := [2]string{addr, addr}
	n := len(parts)
	for i := 0; i < n*n*n*n; i++ {
		if c.Expired() {
			c.Capped = true
			return
		}
		cr := cred{Username: parts[i%n], Password: parts[i/n%n], RefreshToken: parts[i/n/n%n], AccessToken: parts[i/n/n/n%n]}
		c.Evals++
		c.Traces++
		if special(cr.Username) || special(cr.Password) || special(cr.RefreshToken) || special(cr.AccessToken) {
			c.Nontriv(driver.Hash("rt", d.name, addr, fmt.Sprint(i)))
		}
		desc := fmt.Sprintf("document %s (mode %o): %s\nPut(%s, %s) ; Get ; reload ; Delete", d.name, d.mode, clip(d.text), addr, credStr(cr))
		if f := rtCase(c, d, pair, cr, i == 2*n+1 && d.name == "entries-unknown-fields" && addr == "https://h/v1/", desc); f != nil {
			f.Detail = desc + "\n" + f.Detail
			viol(c, name, f) // one stored per signature; the enumeration goes on
		}
	}
}

func rtCase(c *driver.Ctx, d *doc, pair [2]string, cr cred, sample bool, desc string) *driver.Fail {
	dir, path := place(d)
	defer os.RemoveAll(dir)
	var st *credentials.FileStore
	var err error
	if p := guard(func() { st, err = credentials.NewFileStore(path) }); p != "" {
		return &driver.Fail{Sig: "NewFileStore panics: " + firstLine(p), Detail: p}
	}
	if err != nil {
		return &driver.Fail{Sig: "NewFileStore refuses a well-formed config document", Detail: err.Error()}
	}
	m := newModel(d)
	addr := pair[0]
	obs := []string{addr, "h", "other.io"}
	s0 := statOf(path)
	var info stepInfo
	if f := step(st, m, pair, op{kind: "put", c: cr, cn: "c"}, &info); f != nil {
		return f
	}
	if info.rejected {
		c.Count("colon_username_refused", 1)
	}
	var got cred
	if p := guard(func() { got, err = st.Get(context.Background(), addr) }); p != "" {
		return &driver.Fail{Sig: "Get panics: " + firstLine(p), Detail: p}
	}
	if f := judgeGet(m, addr, got, err, "", nil); f != nil {
		return f
	}
	var fs fileStats
	if mm := matchFile(m, path, &fs); mm != nil {
		return &driver.Fail{Sig: "put: " + mm.clause, Detail: mm.detail}
	}
	c.Count("values_equal_but_not_bytewise", int64(fs.bytesDiffer))
	c.Count("empty_credsStore_dropped", int64(fs.emptyCS))
	s1 := statOf(path)
	if f := modeCheck(s0, s1, info.mutated); f != nil {
		return f
	}
	if f := reopenCheck(path, m, obs); f != nil {
		return f
	}
	if sample {
		b, _ := os.ReadFile(path)
		c.Sample(desc + "\nfile after Put: " + clip(string(b)))
	}
	if b, err := os.ReadFile(path); err == nil {
		c.Outcome(driver.Hash(string(b)))
	}
	// delete: exactly that entry goes
	info = stepInfo{}
	if f := step(st, m, pair, op{kind: "del"}, &info); f != nil {
		return f
	}
	if p := guard(func() { got, err = st.Get(context.Background(), addr) }); p != "" {
		return &driver.Fail{Sig: "Get panics: " + firstLine(p), Detail: p}
	}
	if f := judgeGet(m, addr, got, err, "", nil); f != nil {
		f.Sig = "after Delete: " + f.Sig
		return f
	}
	if mm := matchFile(m, path, nil); mm != nil {
		return &driver.Fail{Sig: "del: " + mm.clause, Detail: mm.detail}
	}
	if f := modeCheck(s1, statOf(path), info.mutated); f != nil {
		return f
	}
	if f := reopenCheck(path, m, obs); f != nil {
		return f
	}
	if n := leftovers(path); n > 0 {
		c.Count("leftover_files_after_success", int64(n))
	}
	return nil
}
