package c18

import (
	"context"
	"fmt"
	"os"
	"strings"

	"oras.land/oras-go/v2/registry/remote/credentials"
	"verif.local/engine/driver"
	"verif.local/engine/vos"
	"verif.local/engine/vs"
)

func alphabet() []op {
	return []op{
		{kind: "put", addr: 0, c: credC0, cn: "c0"},
		{kind: "put", addr: 0, c: credC1, cn: "c1"},
		{kind: "put", addr: 1, c: credC0, cn: "c0"},
		{kind: "put", addr: 1, c: credC2, cn: "c2"},
		{kind: "get", addr: 0},
		{kind: "get", addr: 1},
		{kind: "del", addr: 0},
		{kind: "del", addr: 1},
		{kind: "put", addr: 0, c: credBad, cn: "colon-username"},
	}
}

func pairs(th bool) [][2]string {
	return [][2]string{{"h", "h:5000"}, {"h", "https://h/v1/"}, {"https://h/v1/", "http://h"}, {"h:5000", "http://h"}}
}

func seqJobs(th bool) []driver.Job {
	depth, crashDepth := 4, 3
	if th {
		depth, crashDepth = 5, 4
	}
	var out []driver.Job
	nsh := 4
	if th {
		nsh = 8
	}
	for _, d := range docs() {
		for _, pair := range pairs(th) {
			for sh := 0; sh < nsh; sh++ {
				d, pair, sh := d, pair, sh
				name := fmt.Sprintf("hist/%s/%s,%s/len<=%d/shard%d.%d", d.name, pair[0], pair[1], depth, sh, nsh)
				out = append(out, driver.Job{Name: name, Run: func(c *driver.Ctx) {
					c.Explore(driver.Scenario{
						Name: name, Sequential: true, Shard: sh, NShard: nsh,
						Make: func() (func(), func(*vs.Result) *driver.Fail) { return seqRun(c, d, pair, depth, crashDepth) },
					})
				}})
			}
		}
	}
	return out
}

// runHistory replays hist on a fresh copy of d under plan; answers are not judged.
func runHistory(d *doc, pair [2]string, hist []op, plan *vos.Plan) (dir, path string) {
	dir, path = place(d)
	vos.SetPlan(plan)
	defer vos.SetPlan(nil)
	var st *credentials.FileStore
	var err error
	if p := guard(func() { st, err = credentials.NewFileStore(path) }); p != "" || err != nil {
		return
	}
	ctx := context.Background()
	for _, o := range hist {
		guard(func() {
			switch o.kind {
			case "put":
				st.Put(ctx, pair[o.addr], o.c)
			case "get":
				st.Get(ctx, pair[o.addr])
			case "del":
				st.Delete(ctx, pair[o.addr])
			}
		})
	}
	return
}

func mutKind(p *vos.Plan, k int) string {
	n := 0
	for _, o := range p.Log {
		if o.Mutating {
			n++
			if n == k {
				if o.Kind == "openat" {
					return "create-temp"
				}
				return o.Kind
			}
		}
	}
	return "?"
}

func seqRun(c *driver.Ctx, d *doc, pair [2]string, depth, crashDepth int) (func(), func(*vs.Result) *driver.Fail) {
	var fail *driver.Fail
	var hs string
	ops := alphabet()
	body := func() {
		var hist []op
		for i := 0; i < depth; i++ {
			k := 0
			if i == 0 {
				k = vs.Choose(len(ops), vs.KInput, "op")
			} else {
				k = vs.Choose(len(ops)+1, vs.KInput, "op") - 1
				if k < 0 {
					break
				}
			}
			hist = append(hist, ops[k])
		}
		var names []string
		for _, o := range hist {
			names = append(names, o.str(pair))
		}
		hs = fmt.Sprintf("document %s (mode %o): %s\nhistory: %s", d.name, d.mode, clip(d.text), strings.Join(names, " ; "))
		fail = seqCase(c, d, pair, hist, hs, len(hist) <= crashDepth)
		if fail != nil {
			fail.Detail = hs + "\n" + fail.Detail
		}
	}
	check := func(res *vs.Result) *driver.Fail {
		vos.SetPlan(nil)
		if f := driver.StdFail(res); f != nil {
			f.Detail = hs + "\n" + f.Detail
			return f
		}
		return fail
	}
	return body, check
}

func seqCase(c *driver.Ctx, d *doc, pair [2]string, hist []op, hs string, crash bool) *driver.Fail {
	dir, path := place(d)
	defer os.RemoveAll(dir)
	plan := &vos.Plan{KeepLog: true}
	vos.SetPlan(plan)
	defer vos.SetPlan(nil)

	var st *credentials.FileStore
	var err error
	if p := guard(func() { st, err = credentials.NewFileStore(path) }); p != "" {
		return &driver.Fail{Sig: "NewFileStore panics: " + firstLine(p), Detail: p}
	}
	if err != nil {
		return &driver.Fail{Sig: "NewFileStore refuses a well-formed config document", Detail: err.Error()}
	}
	m := newModel(d)
	var before *model
	var statBefore fstat
	var n0 int
	var last stepInfo
	effective, legacy := false, false
	for i, o := range hist {
		info := stepInfo{}
		if i == len(hist)-1 {
			before = m.clone()
			statBefore = statOf(path)
			n0 = plan.NMut
		}
		if f := step(st, m, pair, o, &info); f != nil {
			f.Detail = fmt.Sprintf("at operation %d: %s\n%s", i+1, o.str(pair), f.Detail)
			return f
		}
		effective = effective || info.mutated
		legacy = legacy || info.legacy
		if info.rejected {
			c.Count("colon_username_refused", 1)
		}
		last = info
	}
	n1 := plan.NMut
	vos.SetPlan(nil)
	lo := hist[len(hist)-1]
	c.Count("histories", 1)
	c.Transitions += int64(len(hist))

	// the file after the last operation
	var fs fileStats
	if mm := matchFile(m, path, &fs); mm != nil {
		return &driver.Fail{Sig: lo.kind + ": " + mm.clause, Detail: mm.detail}
	}
	c.Count("values_equal_but_not_bytewise", int64(fs.bytesDiffer))
	c.Count("empty_credsStore_dropped", int64(fs.emptyCS))
	if f := modeCheck(statBefore, statOf(path), last.mutated); f != nil {
		return f
	}
	if last.mutated && n1 == n0 {
		return &driver.Fail{Sig: lo.kind + ": the file had to change but no file-system operation was issued", Detail: ""}
	}
	if n := leftovers(path); n > 0 {
		c.Count("leftover_files_after_success", int64(n))
	}
	if f := reopenCheck(path, m, []string{pair[0], pair[1], "h", "other.io"}, st); f != nil {
		return f
	}
	if legacy {
		c.Count("histories_with_legacy_key_lookup", 1)
	}
	if b, err := os.ReadFile(path); err == nil {
		c.Outcome(driver.Hash(string(b)))
	} else {
		c.Outcome(driver.Hash("<absent>"))
	}
	key := d.name + "|" + pair[0] + "|" + pair[1] + "|" + hs
	if effective && d.rich {
		c.Nontriv(driver.Hash("hist", key))
	}
	if len(c.Samples) < 2 && len(hist) == 3 && last.mutated && d.rich {
		b, _ := os.ReadFile(path)
		c.Sample(hs + "\nfinal file: " + clip(string(b)))
	}

	// crash points of the last operation
	if !crash {
		return nil
	}
	c.Count("histories_with_crash_enumeration", 1)
	for k := n0 + 1; k <= n1; k++ {
		cp := &vos.Plan{CrashAt: k}
		cdir, cpath := runHistory(d, pair, hist, cp)
		c.Evals++
		c.Count("crash_points", 1)
		at := mutKind(plan, k)
		c.Count("crash_before_"+at, 1)
		if k > n0+1 {
			c.Nontriv(driver.Hash("crash", key, fmt.Sprint(k)))
		}
		f := crashCheck(cpath, before, m)
		if f == nil {
			f = restartCheck(cpath, before, m, pair)
		}
		os.RemoveAll(cdir)
		if f != nil {
			f.Sig = fmt.Sprintf("crash before %s: %s", at, f.Sig)
			f.Detail = fmt.Sprintf("the last operation is killed before its mutating file-system operation %d of %d (%s)\n%s", k-n0, n1-n0, at, f.Detail)
			return f
		}
	}
	return nil
}

// crashCheck: the file at the config path is the old or the new complete document.
func crashCheck(path string, before, after *model) *driver.Fail {
	mb := matchFile(before, path, nil)
	ma := matchFile(after, path, nil)
	if mb != nil && ma != nil {
		b, _ := os.ReadFile(path)
		return &driver.Fail{Sig: "config file is neither the old nor the new complete document",
			Detail: fmt.Sprintf("file: %q\nnot the old document: %s: %s\nnot the new document: %s: %s", clip(string(b)), mb.clause, mb.detail, ma.clause, ma.detail)}
	}
	if mb != nil {
		// the new document is in place: it must already be owner-only
		if st := statOf(path); st.exists && st.mode.Perm() != 0600 {
			return &driver.Fail{Sig: "new config file in place without mode 0600", Detail: st.mode.String()}
		}
	}
	return nil
}

// restartCheck: after the crash the application starts again (a new store on the same path, whatever the
// killed save left lying around) and removes or stores one short credential: the file must then be the
// complete document of the state found plus that one change - nothing of the interrupted save may show.
func restartCheck(path string, before, after *model, pair [2]string) *driver.Fail {
	found := after
	if matchFile(before, path, nil) == nil {
		found = before
	}
	m := found.clone()
	var st *credentials.FileStore
	var err error
	if p := guard(func() { st, err = credentials.NewFileStore(path) }); p != "" || err != nil {
		return &driver.Fail{Sig: "the config file left by the crash cannot be loaded", Detail: fmt.Sprint(p, err)}
	}
	ctx := context.Background()
	// a change that makes the document shorter where possible: delete, then a put of a one-letter credential
	for _, a := range []string{pair[0], pair[1]} {
		if _, ok := m.auths[a]; ok {
			m.del(a)
			if err := st.Delete(ctx, a); err != nil {
				return &driver.Fail{Sig: "after a restart: Delete fails", Detail: err.Error()}
			}
			break
		}
	}
	small := cred{Username: "u", Password: "p"}
	m.put(pair[0], small)
	if err := st.Put(ctx, pair[0], small); err != nil {
		return &driver.Fail{Sig: "after a restart: Put fails", Detail: err.Error()}
	}
	if mm := matchFile(m, path, nil); mm != nil {
		b, _ := os.ReadFile(path)
		return &driver.Fail{Sig: "after a restart: the saved file is not the complete new document (" + mm.clause + ")",
			Detail: fmt.Sprintf("restarted on the files the crash left, Delete of an existing entry and Put(%s, u:p): %s\nfile: %q", pair[0], mm.detail, clip(string(b)))}
	}
	return nil
}
