package c02

import (
	"context"
	"fmt"
	"regexp"
	"strings"
	"testing"

	ocispec "github.com/opencontainers/image-spec/specs-go/v1"
	oras "oras.land/oras-go/v2"
	"oras.land/oras-go/v2/content/memory"
	. "oras.land/oras-go/v2/internal/zzverif/common"
	"verif.local/engine/driver"
	"verif.local/engine/explore"
	"verif.local/engine/vs"
)

func TestVerif(t *testing.T) {
	driver.Main(t, driver.Harness{
		ID:    "C02",
		Level: "model_checking",
		Rule: "scenario = curated DAG shape x Concurrency x API (CopyGraph, Copy, ExtendedCopyGraph; CopyGraph into a destination that can mount (mounted / copied after all is an input choice; candidate lists: two, one twice, one and a blank); for shapes with two or more referrers also ExtendedCopyGraph with FilterAnnotation and with FilterArtifactType, whose manifest reads are fault points too) x pre-population; choice tree = goroutine schedules x fault answers " +
			"(normal | error before effect (a failed source Fetch also matches errdef.ErrNotFound: the source no longer has the content) | cancel context | error after effect (Push)) at every Fetch/Exists/Push/Predecessors/callback invocation, enumerated within " +
			"the bound vector (F faults, D schedule deviations). Monitor: link-closure at every completed destination Push; oracle: faulted or cancelled call returns non-nil, " +
			"no deadlock/livelock, fault-free retry on the same destination with the same options value completes the graph. non-trivial = execution with at least one injected fault",
		Assumptions: []string{
			"faults are placed at the operation kinds the property lists; Tag/Resolve are not fault points",
			"'bounded time' is decided as: no deadlock and within the step horizon; wall-clock is never an oracle",
			"memory stores on both sides so every shared object is a scheduler object",
		},
		Jobs:           jobs,
		BudgetQuick:    360,
		BudgetThorough: 2400,
	})
}

type scen struct {
	d      *DAG
	start  int // root (graph/copy) or start node (ext)
	prepop []int
	conc   int
	api    string
	split  bool // the destination's Push may be slow and end with its context's error (World.SlowPush); faults at dst.Push only
}

func (s scen) name() string {
	n := fmt.Sprintf("%s/start=%s/prep=%v/conc=%d/%s", s.d.Name, s.d.Nodes[s.start].Name, s.prepop, s.conc, s.api)
	if s.split {
		n += "/push-in-flight"
	}
	return n
}

func jobs(tier string) []driver.Job {
	var out []driver.Job
	th := tier == "thorough"
	for _, d := range Curated() {
		root := len(d.Nodes) - 1
		nref := 0
		for _, n := range d.Nodes {
			if n.Subject >= 0 {
				nref++
			}
		}
		apis := []string{"graph", "copy", "ext"}
		if d.Name == "diamond" || d.Name == "dup-layer" {
			// destination with registry.Mounter: MountFrom offers two candidates / one twice / one and a blank
			apis = append(apis, "graph-mount2", "graph-mount3", "graph-mount4")
		}
		if nref >= 2 {
			// predecessor filters read the referrers' manifests from the source: more needed source reads
			apis = append(apis, "ext-fann", "ext-ftype")
		}
		for _, api := range apis {
			start := root
			if strings.HasPrefix(api, "ext") {
				// start from the deepest manifest that has a referrer, else from the first leaf
				start = 0
				for _, n := range d.Nodes {
					if n.Subject >= 0 {
						start = n.Subject
						break
					}
				}
			}
			var preps [][]int
			preps = append(preps, nil)
			if !strings.HasPrefix(api, "ext") {
				for _, ds := range d.DownSets(root) {
					if len(ds) == 1 {
						preps = append(preps, ds)
						break
					}
				}
			}
			for _, prep := range preps {
				for _, conc := range []int{1, 2, 3} {
					if conc == 3 && len(prep) > 0 {
						continue
					}
					if (strings.HasPrefix(api, "ext-") || strings.HasPrefix(api, "graph-mount")) && (conc != 2 || len(prep) > 0) {
						continue
					}
					s := scen{d: d, start: start, prepop: prep, conc: conc, api: api}
					heavy := strings.HasPrefix(api, "ext") && len(d.Nodes) > 6
					if th {
						// one more schedule deviation (and a second fault) for the scenarios in which goroutines
						// really meet: Concurrency 2, empty destination; the others as in the quick tier plus F2.D0
						main := conc == 2 && len(prep) == 0 && !strings.HasPrefix(api, "graph-mount")
						switch {
						case main && len(d.Nodes) <= 5:
							out = append(out, mkJob(s, explore.Bounds{Fault: 1, Dev: 2}, 8)...)
							out = append(out, mkJob(s, explore.Bounds{Fault: 2, Dev: 1}, 8)...)
						case main:
							out = append(out, mkJob(s, explore.Bounds{Fault: 1, Dev: 2}, 16)...)
							out = append(out, mkJob(s, explore.Bounds{Fault: 2, Dev: 0}, 2)...)
						default:
							out = append(out, mkJob(s, explore.Bounds{Fault: 1, Dev: 1}, 2)...)
							out = append(out, mkJob(s, explore.Bounds{Fault: 2, Dev: 0}, 1)...)
						}
					} else {
						nsh := 1
						if heavy {
							nsh = 8
						}
						out = append(out, mkJob(s, explore.Bounds{Fault: 1, Dev: 1}, nsh)...)
						if conc == 2 && len(prep) == 0 {
							out = append(out, mkJob(s, explore.Bounds{Fault: 2, Dev: 0}, 1)...)
						}
					}
				}
			}
		}
	}
	// a push can be in flight (an upload that hangs until its context is cancelled) when the push of a sibling
	// fails: the smallest graph with a leaf shared by two manifests, Concurrency 3, faults at the destination's Push only
	{
		d := Extra("shared-leaf")
		s := scen{d: d, start: len(d.Nodes) - 1, conc: 3, api: "graph", split: true}
		if th {
			out = append(out, mkJob(s, explore.Bounds{Fault: 2, Dev: 3}, 32)...)
		} else {
			out = append(out, mkJob(s, explore.Bounds{Fault: 2, Dev: 2}, 16)...)
		}
	}
	return out
}

// mkJob returns one job per shard of the scenario's choice tree.
func mkJob(s scen, b explore.Bounds, nsh int) []driver.Job {
	var out []driver.Job
	for sh := 0; sh < nsh; sh++ {
		sh := sh
		name := fmt.Sprintf("%s/%v/shard%d.%d", s.name(), b, sh, nsh)
		out = append(out, driver.Job{Name: name, Run: func(c *driver.Ctx) {
			var last *World
			c.Explore(driver.Scenario{
				Name: name, Bounds: b, Shard: sh, NShard: nsh,
				Make: func() (func(), func(*vs.Result) *driver.Fail) { return s.make(&last) },
				Nontrivial: func(res *vs.Result) string {
					if last != nil && len(last.Injected) > 0 {
						return strings.Join(last.Injected, ",") + fmt.Sprint(res.Choices())
					}
					return ""
				},
			})
		}})
	}
	return out
}

// callMemo carries what a caller would naturally reuse when it runs the same call again after a
// failure: the options value (with whatever the library keeps inside it, e.g. the FindPredecessors
// closure a filter installs). w is the world of the call in progress; the callbacks consult it.
type callMemo struct {
	w  *World
	eo *oras.ExtendedCopyGraphOptions
}

func (s scen) call(ctx context.Context, w *World, srcM, dstM *memory.Store, faults bool, memo *callMemo) error {
	d := s.d
	memo.w = w
	src := &SrcTarget{Src: Src{W: w, Inner: srcM}, R: srcM, P: srcM}
	var dst oras.Target = &Dst{W: w, Inner: dstM}
	var mountEvents []string
	mountK := -1
	if strings.HasPrefix(s.api, "graph-mount") {
		mountK = int(s.api[len("graph-mount")] - '0')
		dst = &MountDst{Dst: Dst{W: w, Inner: dstM}, Mounted: map[int]int{}, Events: &mountEvents}
	}
	cb := func(kind string) func(context.Context, ocispec.Descriptor) error {
		return func(_ context.Context, desc ocispec.Descriptor) error {
			nm := "?"
			if id := d.Find(desc); id >= 0 {
				nm = d.Nodes[id].Name
			}
			w := memo.w
			if w.Faults {
				switch vs.ChooseAt(3, vs.KFault, kind+"("+nm+")") {
				case AErrBefore:
					w.Do(func() {
						w.Injected = append(w.Injected, kind+"("+nm+"):err")
						w.NeededFault = true
					})
					return fmt.Errorf("callback %s(%s): %w", kind, nm, ErrInjected)
				case ACancel:
					w.Do(func() {
						w.Injected = append(w.Injected, kind+"("+nm+"):cancel")
						w.Cancelled = true
					})
					w.Cancel(fmt.Errorf("cancel in %s(%s): %w", kind, nm, ErrInjected))
				}
			} else {
				vs.Pt(kind + "(" + nm + ")")
			}
			return nil
		}
	}
	opts := oras.CopyGraphOptions{Concurrency: s.conc, PreCopy: cb("pre"), PostCopy: cb("post"), OnCopySkipped: cb("skip")}
	desc := d.Nodes[s.start].Desc
	if mountK >= 0 {
		opts.MountFrom = func(ctx context.Context, desc ocispec.Descriptor) ([]string, error) {
			return MountCandidates[mountK], nil
		}
		opts.OnMounted = cb("mounted")
		return oras.CopyGraph(ctx, src, dst, desc, opts)
	}
	switch s.api {
	case "graph":
		return oras.CopyGraph(ctx, src, dst, desc, opts)
	case "copy":
		_, err := oras.Copy(ctx, src, "ref", dst, "", oras.CopyOptions{CopyGraphOptions: opts})
		return err
	default:
		if memo.eo == nil {
			eo := oras.ExtendedCopyGraphOptions{CopyGraphOptions: opts}
			switch s.api {
			case "ext-fann":
				eo.FilterAnnotation("verif.key", nil)
			case "ext-ftype":
				eo.FilterArtifactType(regexp.MustCompile("."))
			}
			memo.eo = &eo
		}
		// the retry passes the very same options value
		return oras.ExtendedCopyGraph(ctx, src, dst, desc, *memo.eo)
	}
}

func (s scen) make(last **World) (func(), func(*vs.Result) *driver.Fail) {
	d := s.d
	w := NewWorld(d, 0)
	w.Faults = true
	if s.split {
		w.SlowPush = true
		w.FaultSites = "dst.Push"
	}
	*last = w
	srcM, dstM := memory.New(), memory.New()
	all := make([]int, len(d.Nodes))
	for i := range all {
		all[i] = i
	}
	if err := Populate(srcM, d, all); err != nil {
		panic(err)
	}
	if err := Populate(dstM, d, s.prepop); err != nil {
		panic(err)
	}
	srcM.Tag(context.Background(), d.Nodes[s.start].Desc, "ref")
	var err1, err2 error
	retried := false
	w2 := NewWorld(d, 0)
	body := func() {
		ctx, cancel := context.WithCancelCause(context.Background())
		w.Cancel = cancel
		memo := &callMemo{}
		err1 = s.call(ctx, w, srcM, dstM, true, memo)
		cancel(nil)
		vs.Freeze()
		if err1 != nil {
			retried = true
			err2 = s.call(context.Background(), w2, srcM, dstM, false, memo)
		}
	}
	check := func(res *vs.Result) *driver.Fail {
		if f := driver.StdFail(res); f != nil {
			return f
		}
		inj := strings.Join(w.Injected, ",")
		if len(w.Fails) > 0 {
			return &driver.Fail{Sig: "closure monitor", Detail: strings.Join(w.Fails, "\n") + "\ninjected: " + inj}
		}
		if len(w2.Fails) > 0 {
			return &driver.Fail{Sig: "closure monitor (retry)", Detail: strings.Join(w2.Fails, "\n") + "\ninjected: " + inj}
		}
		if bad := IsClosed(dstM, d); bad != "" {
			return &driver.Fail{Sig: "destination not link-closed after the call", Detail: bad + "\ninjected: " + inj}
		}
		if (w.NeededFault || w.Cancelled) && err1 == nil {
			return &driver.Fail{Sig: "faulted or cancelled call reported success", Detail: "injected: " + inj}
		}
		if len(w.Injected) == 0 && err1 != nil {
			return &driver.Fail{Sig: "fault-free call failed", Detail: err1.Error()}
		}
		if retried && err2 != nil {
			return &driver.Fail{Sig: "fault-free retry failed", Detail: fmt.Sprintf("first: %v\nretry: %v\ninjected: %s", err1, err2, inj)}
		}
		// completeness after success or retry
		var want []int
		if strings.HasPrefix(s.api, "ext-") {
			// which predecessors a filter keeps is C03's subject: only the given node's own graph is demanded here
			want = d.Closure(s.start, true)
		} else if s.api == "ext" {
			seen := map[int]bool{}
			for a := range d.Ancestors(s.start) {
				for _, x := range d.Closure(a, true) {
					seen[x] = true
				}
			}
			for x := range seen {
				want = append(want, x)
			}
		} else {
			want = d.Closure(s.start, true)
		}
		if bad := CheckCopied(dstM, d, want); bad != "" {
			return &driver.Fail{Sig: "graph incomplete after success/retry", Detail: bad + "\ninjected: " + inj}
		}
		return nil
	}
	return body, check
}
