package c17

import (
	"fmt"
	"testing"
	"time"

	"verif.local/engine/driver"
	"verif.local/engine/explore"
	"verif.local/engine/vs"
)

func TestVerif(t *testing.T) {
	driver.Main(t, driver.Harness{
		ID:    "C17",
		Level: "fault_enumeration",
		Rule: "(a) call scenarios on a virtual clock (synctest bubble, no sockets): stack auth.Client -> http.Client -> [send counter] -> retry.Transport -> fake registry/token service. " +
			"Every sequence of server answers, chosen lazily one per attempt that reaches the registry, of length <= MaxRetry+4 (later attempts succeed) over the alphabet " +
			"{503, success, 401 Bearer, 401 Basic, 408, 429 Retry-After:1, 429 Retry-After:100, 429 Retry-After:garbage, timeout error, other transport error, a temporary transport error that is no timeout; thorough adds 429, 500, 404}; " +
			"x body kind {none (GET), PUT *bytes.Reader, PUT one-shot reader, PUT whose GetBody fails, one-shot reader through Repository.Manifests().Push, Repository.Blobs().Push with *bytes.Reader, with a one-shot reader and with a file-like io.ReadSeeker positioned behind a two-byte header (POST then PUT)} " +
			"x body size {0,1,3} x the fake reading the whole body or only j bytes (j < size) before every non-success answer x MaxRetry {0,1,2} x token cache {none, pre-filled with two bearer tokens} " +
			"x policy {default parameters 250ms/2/0.1 in [200ms,3s]; a zero-pause policy 0/2/0.1 in [0,0] (one configuration per body kind); thorough adds 1ms/10/0.5 in [5ms,40ms]}. " +
			"Each execution runs the call undisturbed and then once more per retry pause with the context cancelled at half of that pause (WithCancel+AfterFunc, and WithTimeout), replaying the same answers. " +
			"Checked per call: body bytes received on every attempt = original (prefix when the fake stopped reading), attempts per send <= MaxRetry+1, every gap between attempts of a send within [MinWait,MaxWait], = the pause the policy granted (recorded by a pass-through policy wrapper) and = clamp(Retry-After) after 429 Retry-After:N, " +
			"zero virtual time anywhere else, no attempt after a non-retryable answer, returned response = last answer, cancellation => ctx error at the cancel instant and no later attempt; any panic is a violation. " +
			"Also: the token service answers 503 to the first one or two token requests (the pauses between token requests are cancelled at their half like the others). " +
			"(b) plain sweep of GenericPolicy.Retry + ExponentialBackoff: attempt 0..70 x backoff {1ms,250ms} x factor {1,2,10} x jitter {0,0.1,0.5,1} x (MinWait,MaxWait) {(0,0),(200ms,3s),(3s,200ms),(2s,10s)} x MaxRetry {0,3,71} x 18 answers (incl. seven Retry-After forms). " +
			"non-trivial = (a) distinct (configuration, first three answers) of executions in which a request with a body reached the registry more than once, (b) distinct parameter tuples for which a pause was computed and judged",
		Assumptions: []string{
			"the jitter draw (math/rand/v2 redirected to the engine's vrand) always returns its low extreme 0; the high extreme is not selectable in this engine version, the bounds clause is insensitive to it because of the clamp",
			"apart from the token-request-pause scenario the token service answers 200 with a fresh token at once; only registry answers are enumerated",
			"Retry-After values that are not a positive number of seconds fitting time.Duration (0, negative, text, HTTP-date, on a non-429 answer) are judged for the bounds only; contradictory bounds (MaxWait < MinWait) only for panics and retry grants",
			"the statement does not demand that a retryable failure is retried: declined retries are counted, not judged",
		},
		Jobs:           jobs,
		BudgetQuick:    420,
		BudgetThorough: 1500,
	})
}

var quickAlphabet = []beh{b503, bOK, b401Bearer, b401Basic, b408, b429RA1, b429RAg, bTimeout, bConnErr, b429RA100, bTempErr}
var fullAlphabet = []beh{b503, bOK, b401Bearer, b401Basic, b408, b429RA1, b429RAg, bTimeout, bConnErr, b429RA100, bTempErr, b429, b500, b404}

type combo struct {
	kind, size, partial int
}

func combos(th bool) []combo {
	out := []combo{{kNone, 0, -1}}
	for _, k := range []int{kReader, kOneShot} {
		out = append(out, combo{k, 0, -1}, combo{k, 1, -1}, combo{k, 1, 0}, combo{k, 3, -1}, combo{k, 3, 0}, combo{k, 3, 1})
		if th {
			out = append(out, combo{k, 3, 2})
		}
	}
	out = append(out, combo{kGetBodyErr, 3, -1}, combo{kGetBodyErr, 3, 1})
	out = append(out, combo{kOneShotChunked, 3, -1}, combo{kOneShotChunked, 1, 0}, combo{kGetBodyChunked, 3, -1}, combo{kGetBodyChunked, 3, 1})
	out = append(out, combo{kManifestPush, 0, -1}, combo{kManifestPush, 1, -1}, combo{kManifestPush, 3, -1}, combo{kManifestPush, 3, 1})
	out = append(out, combo{kBlobReader, 3, -1}, combo{kBlobReader, 3, 1}, combo{kBlobOneShot, 3, -1}, combo{kBlobOneShot, 3, 1})
	out = append(out, combo{kBlobSeeker, 3, -1}, combo{kBlobSeeker, 3, 1})
	if th {
		out = append(out, combo{kBlobReader, 0, -1}, combo{kBlobReader, 1, 0}, combo{kBlobOneShot, 0, -1}, combo{kBlobOneShot, 1, 0}, combo{kManifestPush, 1, 0})
	}
	return out
}

func jobs(tier string) []driver.Job {
	th := tier == "thorough"
	var out []driver.Job
	out = append(out, sweepJob())
	out = append(out, exampleJob())
	out = append(out, tokenPauseJob())
	alphabet := quickAlphabet
	npol := 1
	if th {
		alphabet = fullAlphabet
		npol = 2
	}
	polIdx := []int{0, 2} // the default parameters and the zero-pause policy
	if th {
		polIdx = []int{0, 1, 2}
	}
	_ = npol
	for _, pi := range polIdx {
		for _, mr := range []int{2, 1, 0} {
			for _, warm := range []bool{false, true} {
				for _, cb := range combos(th) {
					if pi > 0 && !(cb.size == 3 && cb.partial < 0 || cb.kind == kNone) {
						continue // the second parameter set only changes the pacing: one configuration per body kind
					}
					cf := cfg{kind: cb.kind, size: cb.size, partial: cb.partial, mr: mr, warm: warm, pol: pi}
					nsh := 1
					replay := cb.kind != kOneShot && cb.kind != kGetBodyErr && cb.kind != kOneShotChunked
					if replay && mr == 2 {
						nsh = 8
						if th {
							nsh = 16
						}
					}
					for sh := 0; sh < nsh; sh++ {
						out = append(out, callJob(cf, alphabet, sh, nsh))
					}
				}
			}
		}
	}
	return out
}

// exampleJob runs the one written-out case of the design note (PUT "abc": 401
// Bearer, 503, 503, success) so that it shows up among the evidence samples.
func exampleJob() driver.Job {
	name := "calls/example"
	return driver.Job{Name: name, Run: func(c *driver.Ctx) {
		cf := cfg{kind: kReader, size: 3, partial: -1, mr: 2}
		c.Explore(driver.Scenario{
			Name: name, Bounds: explore.Bounds{},
			Make: func() (func(), func(*vs.Result) *driver.Fail) {
				body, check, f := scenario(c, cf, fullAlphabet)
				f.script = []beh{b401Bearer, b503, b503, bOK}
				f.limit = len(f.script)
				return body, check
			},
		})
	}}
}

func callJob(cf cfg, alphabet []beh, sh, nsh int) driver.Job {
	name := fmt.Sprintf("calls/%s/shard%d.%d", cf, sh, nsh)
	return driver.Job{Name: name, Run: func(c *driver.Ctx) {
		c.Explore(driver.Scenario{
			Name: name, Bounds: explore.Bounds{}, Shard: sh, NShard: nsh,
			Make: func() (func(), func(*vs.Result) *driver.Fail) { b, ch, _ := scenario(c, cf, alphabet); return b, ch },
		})
	}}
}

func scenario(c *driver.Ctx, cf cfg, alphabet []beh) (func(), func(*vs.Result) *driver.Fail, *fake) {
	var fail *driver.Fail
	f := &fake{alphabet: alphabet, limit: cf.mr + 4, partial: cf.partial}
	body := func() {
		base := runCall(cf, f, -1, false)
		script := append([]beh(nil), f.script...)
		f.limit = len(f.script) // replays never choose: answers beyond the recorded ones are successes
		fl, pauses := judge(cf, script, base, -1, 0)
		if fl != nil {
			fail = fl
			return
		}
		c.Count("calls", 1)
		nA, bodySends := 0, 0
		for _, e := range base.events {
			if e.kind == 'A' {
				nA++
				if e.method == "PUT" && cf.kind != kNone {
					bodySends++
				}
			}
		}
		c.Count("registry_attempts", int64(nA))
		c.Count("retry_pauses", int64(len(pauses)))
		if bodySends > 1 {
			c.Count("calls_with_body_sent_again", 1)
			k := script
			if len(k) > 3 {
				k = k[:3]
			}
			c.Nontriv(driver.Hash("call", cf.String(), fmt.Sprint(k)))
			if len(script) == 4 && script[0] == b401Bearer && script[1] == b503 && script[2] == b503 && script[3] == bOK && cf.kind == kReader && cf.size == 3 && cf.partial < 0 && !cf.warm {
				c.Sample(describe(cf, script, base.events, base))
			}
		}
		c.Outcome(driver.Hash("call", fmt.Sprint(base.status, base.err != nil, nA, base.end)))
		// cancellation at half of every pause, replaying the recorded answers
		for _, p := range pauses {
			if p.dur == 0 {
				continue // a pause of zero length has no inside to cancel in (timer and cancellation would tie)
			}
			at := p.start + p.dur/2
			for _, deadline := range []bool{false, true} {
				out := runCall(cf, f, at, deadline)
				c.Count("cancelled_calls", 1)
				if fl, _ := judge(cf, script, out, at, p.after+1); fl != nil {
					fl.Detail = fmt.Sprintf("context %s at t=%v = half of the pause [%v, %v]\n%s",
						map[bool]string{false: "cancelled (WithCancel + time.AfterFunc)", true: "deadline (WithTimeout)"}[deadline], at, p.start, p.start+p.dur, fl.Detail)
					fail = fl
					return
				}
			}
		}
	}
	check := func(res *vs.Result) *driver.Fail {
		if fl := driver.StdFail(res); fl != nil {
			fl.Detail = fmt.Sprintf("%s\nserver answers: %v\n%s", cf, f.script, fl.Detail)
			return fl
		}
		return fail
	}
	return body, check, f
}

var _ = time.Second
