package c17

import (
	"fmt"
	"math"
	"net/http"
	"runtime/debug"
	"strings"
	"time"

	"oras.land/oras-go/v2/registry/remote/retry"
	"verif.local/engine/driver"
)

// Pure policy sweep: GenericPolicy.Retry with ExponentialBackoff over attempt x
// backoff x factor x jitter x bounds x MaxRetry x answer. No server, no clock.

type answer struct {
	name      string
	status    int
	ra        string // Retry-After header ("" = none)
	err       error
	retryable bool          // hand-written: 408 / 429 / 5xx / timeout
	honour    time.Duration // > 0: a 429 whose Retry-After is a positive number of seconds that must be honoured
}

var answers = []answer{
	{name: "200", status: 200},
	{name: "201", status: 201},
	{name: "401", status: 401},
	{name: "404", status: 404},
	{name: "408", status: 408, retryable: true},
	{name: "429", status: 429, retryable: true},
	{name: "429 Retry-After:1", status: 429, ra: "1", retryable: true, honour: 1 * time.Second},
	{name: "429 Retry-After:2", status: 429, ra: "2", retryable: true, honour: 2 * time.Second},
	{name: "429 Retry-After:100", status: 429, ra: "100", retryable: true, honour: 100 * time.Second},
	{name: "429 Retry-After:0", status: 429, ra: "0", retryable: true},
	{name: "429 Retry-After:-5", status: 429, ra: "-5", retryable: true},
	{name: "429 Retry-After:soon", status: 429, ra: "soon", retryable: true},
	{name: "429 Retry-After:<HTTP-date>", status: 429, ra: "Wed, 21 Oct 2015 07:28:00 GMT", retryable: true},
	{name: "500", status: 500, retryable: true},
	{name: "503", status: 503, retryable: true},
	{name: "503 Retry-After:7", status: 503, ra: "7", retryable: true},
	{name: "timeout error", err: timeoutErr{}, retryable: true},
	{name: "other transport error", err: errConn},
}

type wbounds struct{ minW, maxW time.Duration }

var (
	swBackoff = []time.Duration{250 * time.Millisecond, 1 * time.Millisecond}
	swFactor  = []float64{2, 10, 1}
	swJitter  = []float64{0, 0.1, 0.5, 1}
	swBounds  = []wbounds{{200 * time.Millisecond, 3 * time.Second}, {0, 0}, {3 * time.Second, 200 * time.Millisecond}, {2 * time.Second, 10 * time.Second}} // the last: MinWait above a Retry-After of one second
	swMaxRet  = []int{71, 3, 0}
)

const swAttempts = 71 // attempt 0..70

func policyFrames(stack string) string {
	var out []string
	lines := strings.Split(stack, "\n")
	for i, l := range lines {
		if strings.Contains(l, "retry/policy.go") || strings.Contains(l, "vrand") {
			if i > 0 {
				out = append(out, strings.TrimSpace(lines[i-1]))
			}
			out = append(out, "    "+strings.TrimSpace(l))
		}
	}
	return strings.Join(out, "\n")
}

// sweepJob is a single job so that the first reported input per signature is the same in every run.
func sweepJob() driver.Job {
	name := "policy-sweep"
	return driver.Job{Name: name, Run: func(c *driver.Ctx) {
		for _, backoff := range swBackoff {
			for _, factor := range swFactor {
				sweep(c, name, backoff, factor)
			}
		}
	}}
}

func sweep(c *driver.Ctx, name string, backoff time.Duration, factor float64) {
	{
		viol := func(sig, detail string) {
			c.AddViolation(driver.Violation{Tier: c.Tier, Job: c.Job, Scenario: name, Sig: sig, Detail: detail})
		}
		sampled := false
		for _, jitter := range swJitter {
			for _, wb := range swBounds {
				for _, mr := range swMaxRet {
					p := &retry.GenericPolicy{Retryable: retry.DefaultPredicate, Backoff: retry.ExponentialBackoff(backoff, factor, jitter),
						MinWait: wb.minW, MaxWait: wb.maxW, MaxRetry: mr}
					for attempt := 0; attempt < swAttempts; attempt++ {
						for _, a := range answers {
							var resp *http.Response
							if a.err == nil {
								resp = &http.Response{StatusCode: a.status, Header: http.Header{}}
								if a.ra != "" {
									resp.Header.Set("Retry-After", a.ra)
								}
							}
							c.Evals++
							in := fmt.Sprintf("ExponentialBackoff(backoff=%v, factor=%v, jitter=%v), MinWait=%v, MaxWait=%v, MaxRetry=%d; Retry(attempt=%d, answer=%s)",
								backoff, factor, jitter, wb.minW, wb.maxW, mr, attempt, a.name)
							var d time.Duration
							var err error
							var pan any
							var stack string
							func() {
								defer func() {
									if r := recover(); r != nil {
										pan, stack = r, string(debug.Stack())
									}
								}()
								d, err = p.Retry(attempt, resp, a.err)
							}()
							if pan != nil {
								c.Count("sweep_panics", 1)
								temp := float64(backoff) * math.Pow(factor, float64(attempt))
								sig := "panic in the retry policy"
								switch {
								case jitter == 0:
									sig = "panic in ExponentialBackoff: rand.Int64N is called with a non-positive range (jitter = 0)"
								case 2*jitter*temp >= math.Exp2(63):
									sig = "panic in ExponentialBackoff: rand.Int64N is called with a non-positive range (backoff*factor^attempt overflows int64)"
								}
								viol(sig, fmt.Sprintf("%s\npanic: %v\n%s", in, pan, policyFrames(stack)))
								continue
							}
							granted := err == nil && d >= 0
							switch {
							case attempt >= mr:
								if granted {
									viol("the policy grants a retry although attempt >= MaxRetry", fmt.Sprintf("%s\nreturned pause %v", in, d))
								}
							case !a.retryable:
								if granted {
									viol("the policy grants a retry for a non-retryable answer", fmt.Sprintf("%s\nreturned pause %v", in, d))
								}
							case !granted:
								c.Count("sweep_retry_declined_for_retryable_answer(not judged)", 1)
							case wb.maxW < wb.minW:
								c.Count("sweep_bounds_contradictory(pause not judged)", 1)
							default:
								c.Count("sweep_pauses_judged", 1)
								c.Nontriv(driver.Hash("sweep", fmt.Sprint(backoff, factor, jitter, wb, attempt, a.name)))
								c.Outcome(driver.Hash("pause", fmt.Sprint(d)))
								if !sampled && attempt == 2 && a.honour == 0 && jitter > 0 && wb.minW > 0 && backoff > time.Millisecond && factor > 1 {
									sampled = true
									c.Sample(fmt.Sprintf("%s -> pause %v", in, d))
								}
								if d < wb.minW || d > wb.maxW {
									viol("the policy's pause lies outside [MinWait, MaxWait]", fmt.Sprintf("%s\nreturned pause %v", in, d))
								}
								if a.honour > 0 {
									w := a.honour
									if w < wb.minW {
										w = wb.minW
									}
									if w > wb.maxW {
										w = wb.maxW
									}
									if d != w {
										viol("the policy does not honour the Retry-After of a 429 answer within [MinWait, MaxWait]", fmt.Sprintf("%s\nreturned pause %v, expected %v", in, d, w))
									}
								}
							}
						}
					}
				}
			}
		}
	}
}
