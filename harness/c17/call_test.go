package c17

import (
	"bytes"
	"context"
	"errors"
	"fmt"
	"io"
	"net/http"
	"time"

	"github.com/opencontainers/go-digest"
	ocispec "github.com/opencontainers/image-spec/specs-go/v1"
	"oras.land/oras-go/v2/registry/remote"
	"oras.land/oras-go/v2/registry/remote/auth"
	"oras.land/oras-go/v2/registry/remote/retry"
)

// body kinds
const (
	kNone           = iota // GET without a body through auth.Client.Do
	kReader                // PUT with a *bytes.Reader (net/http derives GetBody)
	kOneShot               // PUT with a reader that cannot be replayed (no GetBody)
	kGetBodyErr            // PUT whose GetBody fails: cannot be replayed either
	kManifestPush          // one-shot reader through Repository.Manifests().Push (auth client: buffered by the library)
	kBlobReader            // Repository.Blobs().Push with a *bytes.Reader (POST, then PUT with the body)
	kBlobOneShot           // Repository.Blobs().Push with a one-shot reader
	kOneShotChunked        // PUT with a one-shot reader of unknown length (ContentLength 0 + non-nil Body: sent chunked)
	kGetBodyChunked        // PUT with a reader of unknown length that the caller made replayable with its own GetBody
	kBlobSeeker            // Repository.Blobs().Push with a file-like io.ReadSeeker positioned behind a two-byte header (the blob is the rest)
)

var kindName = [...]string{"none", "bytes.Reader", "one-shot", "GetBody-fails", "one-shot via Manifests().Push", "Blobs().Push bytes.Reader", "Blobs().Push one-shot", "one-shot unknown length", "caller GetBody unknown length", "Blobs().Push file-like ReadSeeker at offset 2"}

// pol is one parameter set of the retry policy used by the scenarios.
type pol struct {
	backoff        time.Duration
	factor, jitter float64
	minW, maxW     time.Duration
}

var pols = []pol{
	{250 * time.Millisecond, 2, 0.1, 200 * time.Millisecond, 3 * time.Second}, // the library's default parameters
	{1 * time.Millisecond, 10, 0.5, 5 * time.Millisecond, 40 * time.Millisecond},
	{0, 2, 0.1, 0, 0}, // every pause is exactly zero: no pacing at all, the attempt bound must still hold
}

type cfg struct {
	kind    int
	size    int
	partial int // -1 = the fake always reads the whole body
	mr      int // MaxRetry
	warm    bool
	pol     int
}

func (c cfg) String() string {
	return fmt.Sprintf("body=%s size=%d fake-reads=%s MaxRetry=%d token-cache=%v policy=%d", kindName[c.kind], c.size,
		map[bool]string{true: "all", false: fmt.Sprintf("<=%d bytes before a failure", c.partial)}[c.partial < 0], c.mr, c.warm, c.pol)
}

func (c cfg) content() []byte { return []byte("abc"[:c.size]) }

type outcome struct {
	status int // response status for the raw kinds (0 with an error)
	err    error
	events []event
	end    time.Duration
	ctxErr error
	// pauses the policy granted, in order (recorded by a pass-through wrapper around the policy)
	computed []time.Duration
}

// recPolicy hands every question on to the policy under test and notes the pauses it grants.
type recPolicy struct {
	inner retry.Policy
	log   *[]time.Duration
}

func (r *recPolicy) Retry(attempt int, resp *http.Response, err error) (time.Duration, error) {
	d, e := r.inner.Retry(attempt, resp, err)
	if e == nil && d >= 0 {
		*r.log = append(*r.log, d)
	}
	return d, e
}

// runCall performs the call under test once against f (which either chooses
// its answers or replays them). cancelAt >= 0 cancels the context at that
// offset of the virtual clock (deadline: through context.WithTimeout instead
// of WithCancel + time.AfterFunc).
func runCall(cf cfg, f *fake, cancelAt time.Duration, deadline bool) outcome {
	p := pols[cf.pol]
	policy := &retry.GenericPolicy{
		Retryable: retry.DefaultPredicate,
		Backoff:   retry.ExponentialBackoff(p.backoff, p.factor, p.jitter),
		MinWait:   p.minW, MaxWait: p.maxW, MaxRetry: cf.mr,
	}
	var computed []time.Duration
	rt := &retry.Transport{Base: f, Policy: func() retry.Policy { return &recPolicy{inner: policy, log: &computed} }}
	ac := &auth.Client{
		Client:     &http.Client{Transport: &sendTap{next: rt, f: f}},
		Credential: auth.StaticCredential(regHost, auth.Credential{Username: "user", Password: "pass"}),
	}
	bg := context.Background()
	if cf.warm {
		// a token cache that already holds bearer tokens for the empty scope and for the repository scope
		ac.Cache = auth.NewCache()
		ac.Cache.Set(bg, regHost, auth.SchemeBearer, "", func(context.Context) (string, error) { return "W0", nil })
		ac.Cache.Set(bg, regHost, auth.SchemeBearer, scopeStr, func(context.Context) (string, error) { return "W1", nil })
	}
	ctx, cancel := context.WithCancel(bg)
	f.reset()
	if cancelAt >= 0 {
		if deadline {
			cancel()
			ctx, cancel = context.WithTimeout(bg, cancelAt)
		} else {
			tm := time.AfterFunc(cancelAt, cancel)
			defer tm.Stop()
		}
	}
	defer cancel()
	content := cf.content()
	var out outcome
	url := "http://" + regHost + "/v2/" + repoName + "/manifests/latest"
	switch cf.kind {
	case kNone, kReader, kOneShot, kGetBodyErr, kOneShotChunked, kGetBodyChunked:
		var req *http.Request
		var err error
		switch cf.kind {
		case kNone:
			req, err = http.NewRequestWithContext(ctx, http.MethodGet, url, nil)
		case kReader:
			req, err = http.NewRequestWithContext(ctx, http.MethodPut, url, bytes.NewReader(content))
		case kOneShot:
			req, err = http.NewRequestWithContext(ctx, http.MethodPut, url, &oneShot{bytes.NewReader(content)})
			req.ContentLength = int64(len(content))
		case kGetBodyErr:
			req, err = http.NewRequestWithContext(ctx, http.MethodPut, url, bytes.NewReader(content))
			req.GetBody = func() (io.ReadCloser, error) { return nil, errors.New("GetBody: source is gone (injected)") }
		case kOneShotChunked:
			req, err = http.NewRequestWithContext(ctx, http.MethodPut, url, &oneShot{bytes.NewReader(content)})
		case kGetBodyChunked:
			req, err = http.NewRequestWithContext(ctx, http.MethodPut, url, &oneShot{bytes.NewReader(content)})
			req.GetBody = func() (io.ReadCloser, error) { return io.NopCloser(&oneShot{bytes.NewReader(content)}), nil }
		}
		if err != nil {
			panic(err)
		}
		resp, err := ac.Do(req)
		out.err = err
		if err == nil {
			out.status = resp.StatusCode
			io.Copy(io.Discard, resp.Body)
			resp.Body.Close()
		}
	default:
		repo, err := remote.NewRepository(regHost + "/" + repoName)
		if err != nil {
			panic(err)
		}
		repo.PlainHTTP = true
		repo.Client = ac
		desc := ocispec.Descriptor{Digest: digest.FromBytes(content), Size: int64(len(content))}
		switch cf.kind {
		case kManifestPush:
			// a manifest media type that is pushed without client-side referrers indexing,
			// so the caller's reader reaches the request unchanged
			desc.MediaType = "application/vnd.docker.distribution.manifest.v2+json"
			out.err = repo.Manifests().Push(ctx, desc, &oneShot{bytes.NewReader(content)})
		case kBlobReader:
			desc.MediaType = "application/octet-stream"
			out.err = repo.Blobs().Push(ctx, desc, bytes.NewReader(content))
		case kBlobOneShot:
			desc.MediaType = "application/octet-stream"
			out.err = repo.Blobs().Push(ctx, desc, &oneShot{bytes.NewReader(content)})
		case kBlobSeeker:
			desc.MediaType = "application/octet-stream"
			src := &fileLike{bytes.NewReader(append([]byte("XY"), content...))}
			src.Seek(2, io.SeekStart)
			out.err = repo.Blobs().Push(ctx, desc, src)
		}
	}
	out.end = time.Since(f.t0)
	out.events = f.events
	out.ctxErr = ctx.Err()
	out.computed = computed
	return out
}
