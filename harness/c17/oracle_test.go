package c17

import (
	"bytes"
	"errors"
	"fmt"
	"net/http"
	"strings"
	"time"

	"verif.local/engine/driver"
)

// The oracle reads only what the environment recorded (bodies, virtual time
// stamps, send ordinals) and the harness's own configuration; the classification
// of answers (retryable or not, Retry-After value) is the hand-written table
// in fake_test.go.

type pause struct {
	after int // index (among registry attempts) of the attempt the pause follows
	start time.Duration
	dur   time.Duration
}

func describe(cf cfg, script []beh, evs []event, out outcome) string {
	var sb strings.Builder
	fmt.Fprintf(&sb, "%s\nserver answers: %v\n", cf, script)
	for _, e := range evs {
		switch e.kind {
		case 'A':
			fmt.Fprintf(&sb, "  t=%v send %d attempt: %s auth=%q body-received=%q (read-to-end=%v) -> %s\n", e.t, e.send, e.method, e.auth, e.got, e.full, e.b)
		case 'T':
			fmt.Fprintf(&sb, "  t=%v send %d token request\n", e.t, e.send)
		}
	}
	fmt.Fprintf(&sb, "  t=%v call returned status=%d err=%v", out.end, out.status, out.err)
	return sb.String()
}

// judge checks one call. cancelAt < 0: undisturbed call. Otherwise the context
// was cancelled at cancelAt, during the pause that follows registry attempt
// number allowed-1, so exactly `allowed` attempts may have been made.
func judge(cf cfg, script []beh, out outcome, cancelAt time.Duration, allowed int) (*driver.Fail, []pause) {
	content := cf.content()
	p := pols[cf.pol]
	detail := func(msg string) string { return msg + "\n" + describe(cf, script, out.events, out) }
	var pauses []pause
	perSend := map[int]int{}
	lastOfSend := map[int]event{}
	var lastT time.Duration
	nAttempt := 0
	bodySends := 0
	var lastA *event
	for i := range out.events {
		e := out.events[i]
		gap := e.t - lastT
		lastT = e.t
		if e.kind != 'A' {
			if gap != 0 && cancelAt >= 0 {
				if e.t == cancelAt {
					continue // the cancelled pause ends at cancelAt
				}
				return &driver.Fail{Sig: "cancellation during a pause does not end the call at once",
					Detail: detail(fmt.Sprintf("context cancelled at t=%v, the send returned at t=%v", cancelAt, e.t))}, nil
			}
			if gap != 0 {
				return &driver.Fail{Sig: "virtual time passes outside a retry pause (an answer is not handed on at once)",
					Detail: detail(fmt.Sprintf("%v elapsed before event %c of send %d", gap, e.kind, e.send))}, nil
			}
			continue
		}
		lastA = &out.events[i]
		// --- the body the registry received
		var want []byte
		if e.method == http.MethodPut {
			want = content
		}
		why := "on the first send"
		if perSend[e.send] > 0 {
			why = "when re-sent after a retryable failure"
		} else if bodySends > 0 {
			why = "when re-sent after an authentication challenge"
		}
		if e.method == http.MethodPut {
			bodySends++
		}
		ok := bytes.Equal(e.got, want)
		if !e.full {
			n := cf.partial
			if n > len(want) {
				n = len(want)
			}
			ok = bytes.Equal(e.got, want[:n])
		}
		if !ok {
			return &driver.Fail{Sig: "registry did not receive the complete original body " + why,
				Detail: detail(fmt.Sprintf("attempt %d (send %d): received %q, original body %q", nAttempt, e.send, e.got, want))}, nil
		}
		// --- pacing and bounds
		if n := perSend[e.send]; n > 0 {
			prev := lastOfSend[e.send]
			if !prev.b.retryable() {
				return &driver.Fail{Sig: "a non-retryable answer was not returned at once: the request was attempted again",
					Detail: detail(fmt.Sprintf("answer %s of attempt %d was followed by another attempt in the same send", prev.b, nAttempt-1))}, nil
			}
			if gap < p.minW || gap > p.maxW {
				return &driver.Fail{Sig: "pause between attempts lies outside [MinWait, MaxWait]",
					Detail: detail(fmt.Sprintf("pause of %v before attempt %d; MinWait=%v MaxWait=%v", gap, nAttempt, p.minW, p.maxW))}, nil
			}
			if ra := prev.b.retryAfter(); ra > 0 {
				w := ra
				if w < p.minW {
					w = p.minW
				}
				if w > p.maxW {
					w = p.maxW
				}
				if gap != w {
					return &driver.Fail{Sig: "Retry-After of a 429 answer is not honoured within [MinWait, MaxWait]",
						Detail: detail(fmt.Sprintf("Retry-After %v, pause %v, expected %v", ra, gap, w))}, nil
				}
			}
			if k := len(pauses); k >= len(out.computed) || out.computed[k] != gap {
				return &driver.Fail{Sig: "the pause on the clock is not the pause the policy computed",
					Detail: detail(fmt.Sprintf("pause of %v before attempt %d; pauses granted by the policy: %v", gap, nAttempt, out.computed))}, nil
			}
			pauses = append(pauses, pause{after: nAttempt - 1, start: prev.t, dur: gap})
		} else if gap != 0 {
			return &driver.Fail{Sig: "virtual time passes outside a retry pause (an answer is not handed on at once)",
				Detail: detail(fmt.Sprintf("%v elapsed before the first attempt of send %d", gap, e.send))}, nil
		}
		perSend[e.send]++
		lastOfSend[e.send] = e
		nAttempt++
		if perSend[e.send] > cf.mr+1 {
			return &driver.Fail{Sig: "more than MaxRetry+1 attempts in one send",
				Detail: detail(fmt.Sprintf("send %d: attempt %d with MaxRetry=%d", e.send, perSend[e.send], cf.mr))}, nil
		}
		if cancelAt >= 0 && nAttempt > allowed {
			return &driver.Fail{Sig: "a further attempt is made after the context was cancelled during a pause",
				Detail: detail(fmt.Sprintf("context cancelled at t=%v during the pause after attempt %d", cancelAt, allowed-1))}, nil
		}
	}
	if cancelAt >= 0 {
		if out.err == nil || out.ctxErr == nil || !errors.Is(out.err, out.ctxErr) {
			return &driver.Fail{Sig: "cancellation during a pause does not end the call with the context's error",
				Detail: detail(fmt.Sprintf("context cancelled at t=%v (ctx.Err()=%v)", cancelAt, out.ctxErr))}, nil
		}
		if out.end != cancelAt {
			return &driver.Fail{Sig: "cancellation during a pause does not end the call at once",
				Detail: detail(fmt.Sprintf("context cancelled at t=%v, call returned at t=%v", cancelAt, out.end))}, nil
		}
		return nil, pauses
	}
	if out.end != lastT {
		return &driver.Fail{Sig: "virtual time passes outside a retry pause (an answer is not handed on at once)",
			Detail: detail(fmt.Sprintf("%v elapsed between the last exchange and the return of the call", out.end-lastT))}, nil
	}
	// --- the call stops with the last response or an error
	if lastA != nil && out.err == nil {
		switch cf.kind {
		case kNone, kReader, kOneShot, kGetBodyErr, kOneShotChunked, kGetBodyChunked:
			if lastA.b.isError() || out.status != lastA.b.status(lastA.method) {
				return &driver.Fail{Sig: "the call returned a response that is not the last answer of the registry",
					Detail: detail(fmt.Sprintf("last answer %s", lastA.b))}, nil
			}
		default:
			if lastA.b != bOK {
				return &driver.Fail{Sig: "push reported success although the last answer of the registry was a failure",
					Detail: detail(fmt.Sprintf("last answer %s", lastA.b))}, nil
			}
		}
	}
	return nil, pauses
}
