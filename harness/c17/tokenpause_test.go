package c17

import (
	"errors"
	"fmt"
	"time"

	"verif.local/engine/driver"
	"verif.local/engine/explore"
	"verif.local/engine/vs"
)

// The pause before a re-sent *token* request is a pause of the same call: the registry answers
// 401 Bearer, the token service answers 503 to the first k token requests (k = 1, 2) and the
// retrying transport under the auth client paces them. The call is run undisturbed, then once more
// per such pause with the context cancelled at half of it (WithCancel and WithTimeout): it must end
// with the context's error at that instant and nothing more may be sent - neither to the token
// service nor to the registry.
func tokenPauseJob() driver.Job {
	name := "calls/token-request-pauses"
	return driver.Job{Name: name, Run: func(c *driver.Ctx) {
		for _, warm := range []bool{false, true} { // without a token cache, and through one (a pre-filled auth.NewCache)
			for k := 1; k <= 2; k++ {
				warm, k := warm, k
				c.Explore(driver.Scenario{
					Name: fmt.Sprintf("%s/token-503s=%d/token-cache=%v", name, k, warm), Bounds: explore.Bounds{},
					Make: func() (func(), func(*vs.Result) *driver.Fail) {
						cf := cfg{kind: kNone, size: 0, partial: -1, mr: 2, warm: warm}
						f := &fake{alphabet: fullAlphabet, partial: -1, tokenFails: k}
						f.script = []beh{b401Bearer, bOK}
						if warm {
							// the cached token for the challenged scope is tried first and refused as well
							f.script = []beh{b401Bearer, b401Bearer, bOK}
						}
						f.limit = len(f.script)
						var fail *driver.Fail
						body := func() {
							base := runCall(cf, f, -1, false)
							var ts []time.Duration
							for _, e := range base.events {
								if e.kind == 'T' {
									ts = append(ts, e.t)
								}
							}
							c.Count("calls", 1)
							if base.err != nil || base.status != 200 || len(ts) != k+1 {
								fail = &driver.Fail{Sig: "token service answered 503 then a token: the call did not end with the registry's answer after the paced token requests",
									Detail: describe(cf, f.script, base.events, base)}
								return
							}
							for i := 0; i+1 < len(ts); i++ {
								gap := ts[i+1] - ts[i]
								if gap <= 0 {
									continue
								}
								at := ts[i] + gap/2
								for _, deadline := range []bool{false, true} {
									out := runCall(cf, f, at, deadline)
									c.Count("cancelled_calls", 1)
									late := 0
									for _, e := range out.events {
										if (e.kind == 'T' || e.kind == 'A') && e.t > at {
											late++
										}
									}
									d := fmt.Sprintf("token service: %d x 503, then a token; context %s at t=%v = half of the pause [%v, %v] between two token requests\n%s",
										k, map[bool]string{false: "cancelled (WithCancel + time.AfterFunc)", true: "deadline (WithTimeout)"}[deadline], at, ts[i], ts[i+1], describe(cf, f.script, out.events, out))
									switch {
									case late > 0:
										fail = &driver.Fail{Sig: "a further attempt is made after the context was cancelled during a pause (token request)", Detail: d}
									case out.err == nil || out.ctxErr == nil || !errors.Is(out.err, out.ctxErr):
										fail = &driver.Fail{Sig: "cancellation during a pause does not end the call with the context's error (token request)", Detail: d}
									case out.end != at:
										fail = &driver.Fail{Sig: "cancellation during a pause does not end the call at once (token request)", Detail: d}
									}
									if fail != nil {
										return
									}
								}
							}
							c.Nontriv(driver.Hash("tokenpause", fmt.Sprint(k, warm)))
						}
						check := func(res *vs.Result) *driver.Fail {
							if fl := driver.StdFail(res); fl != nil {
								return fl
							}
							return fail
						}
						return body, check
					},
				})
			}
		}
	}}
}
