package c17

import (
	"bytes"
	"errors"
	"fmt"
	"io"
	"net/http"
	"strings"
	"time"

	"verif.local/engine/vs"
)

// In-process stand-ins for the registry and the token service. No sockets: the
// fake is the retry.Transport's Base round tripper, so every exchange is a
// function call made by the (single) goroutine of the call under test, inside
// the synctest bubble (virtual clock).

const (
	regHost  = "reg.test"
	authHost = "auth.test"
	repoName = "repo"
	scopeStr = "repository:repo:pull,push"
)

// beh is one server behaviour: the answer of the registry to one attempt.
type beh int

const (
	b503 beh = iota // choice 0: keeps the default execution inside the retry loop
	bOK
	b401Bearer
	b401Basic
	b408
	b429RA1
	b429RAg
	bTimeout
	bConnErr
	b429
	b429RA100
	b500
	b404
	bTempErr // a transport error that calls itself temporary but is no timeout
	nBeh
)

var behName = [...]string{"503", "OK", "401-Bearer", "401-Basic", "408", "429+Retry-After:1", "429+Retry-After:garbage",
	"timeout-error", "transport-error", "429", "429+Retry-After:100", "500", "404", "temporary-non-timeout-error"}

func (b beh) String() string { return behName[b] }

// Ground truth about the behaviours, written down by hand (not taken from the
// library's predicate): which answers are retryable failures per the statement
// (408 / 429 / 5xx / timeouts), and which status they carry.
func (b beh) retryable() bool {
	switch b {
	case b503, b500, b408, b429, b429RA1, b429RA100, b429RAg, bTimeout:
		return true
	}
	return false
}

func (b beh) isError() bool { return b == bTimeout || b == bConnErr || b == bTempErr }

func (b beh) status(method string) int {
	switch b {
	case bOK:
		switch method {
		case http.MethodPost:
			return 202
		case http.MethodPut:
			return 201
		}
		return 200
	case b401Basic, b401Bearer:
		return 401
	case b408:
		return 408
	case b429, b429RA1, b429RA100, b429RAg:
		return 429
	case b500:
		return 500
	case b503:
		return 503
	case b404:
		return 404
	}
	return -1
}

// retryAfter returns the delay in whole seconds announced by the answer (0 = none or not a number).
func (b beh) retryAfter() time.Duration {
	switch b {
	case b429RA1:
		return 1 * time.Second
	case b429RA100:
		return 100 * time.Second
	}
	return 0
}

// tempErr is a net.Error that is temporary without being a timeout (EINTR, a transient resolver
// failure): not among the failures the statement lists as retried (408 / 429 / 5xx / timeouts).
type tempErr struct{}

func (tempErr) Error() string   { return "accept: interrupted system call (injected)" }
func (tempErr) Timeout() bool   { return false }
func (tempErr) Temporary() bool { return true }

type timeoutErr struct{}

func (timeoutErr) Error() string   { return "dial tcp: i/o timeout (injected)" }
func (timeoutErr) Timeout() bool   { return true }
func (timeoutErr) Temporary() bool { return true }

var errConn = errors.New("read: connection reset by peer (injected)")

// event is one thing the environment saw, stamped with the virtual clock.
type event struct {
	kind    byte // 'S' a send starts (entry of the retrying transport), 'E' it returns, 'A' registry attempt, 'T' token request
	send    int  // ordinal of the send (call into the retrying transport) the event belongs to
	t       time.Duration
	method  string
	auth    string
	b       beh
	hadBody bool
	got     []byte // request body bytes the fake consumed
	full    bool   // the fake read until EOF
}

type fake struct {
	alphabet []beh
	limit    int   // scripted answers; later attempts succeed
	script   []beh // answers given so far (chosen lazily on the first run, replayed afterwards)
	pos      int
	partial  int // -1: always read the whole body; j >= 0: read at most j bytes before a non-success answer
	t0       time.Time
	events   []event
	curSend  int
	ntoken   int
	// tokenFails: the token service answers 503 to that many token requests before it hands out tokens
	tokenFails int
	ntreq      int
}

// reset prepares a replay of the recorded script.
func (f *fake) reset() {
	f.pos, f.events, f.curSend, f.ntoken, f.ntreq = 0, nil, 0, 0, 0
	f.t0 = time.Now()
}

func (f *fake) next() beh {
	defer func() { f.pos++ }()
	if f.pos < len(f.script) {
		return f.script[f.pos]
	}
	if f.pos >= f.limit {
		return bOK
	}
	b := f.alphabet[vs.Choose(len(f.alphabet), vs.KInput, "answer")]
	f.script = append(f.script, b)
	return b
}

func (f *fake) response(req *http.Request, status int, hdr http.Header, body string) *http.Response {
	if hdr == nil {
		hdr = http.Header{}
	}
	return &http.Response{
		StatusCode: status, Status: fmt.Sprintf("%d %s", status, http.StatusText(status)),
		Proto: "HTTP/1.1", ProtoMajor: 1, ProtoMinor: 1,
		Header: hdr, Body: io.NopCloser(strings.NewReader(body)), ContentLength: int64(len(body)), Request: req,
	}
}

func (f *fake) RoundTrip(req *http.Request) (*http.Response, error) {
	now := time.Since(f.t0)
	if req.URL.Host == authHost {
		if req.Body != nil {
			io.Copy(io.Discard, req.Body)
			req.Body.Close()
		}
		f.ntreq++
		if f.ntreq <= f.tokenFails {
			f.events = append(f.events, event{kind: 'T', send: f.curSend, t: now, method: req.Method, b: b503})
			return f.response(req, 503, http.Header{}, ""), nil
		}
		f.ntoken++
		f.events = append(f.events, event{kind: 'T', send: f.curSend, t: now, method: req.Method})
		return f.response(req, 200, http.Header{"Content-Type": {"application/json"}}, fmt.Sprintf(`{"token":"T%d"}`, f.ntoken)), nil
	}
	b := f.next()
	e := event{kind: 'A', send: f.curSend, t: now, method: req.Method, auth: req.Header.Get("Authorization"), b: b}
	if req.Body != nil {
		e.hadBody = true
		if b == bOK || f.partial < 0 {
			e.got, _ = io.ReadAll(req.Body)
			e.full = true
		} else {
			buf := make([]byte, f.partial)
			n, _ := io.ReadFull(req.Body, buf)
			e.got = buf[:n]
			e.full = n < f.partial // the body ended before the fake stopped reading
		}
		req.Body.Close()
	} else {
		e.full = true
	}
	f.events = append(f.events, e)
	switch b {
	case bTimeout:
		return nil, timeoutErr{}
	case bConnErr:
		return nil, errConn
	case bTempErr:
		return nil, tempErr{}
	}
	st := b.status(req.Method)
	h := http.Header{}
	body := ""
	switch b {
	case bOK:
		if req.Method == http.MethodPost {
			h.Set("Location", "/v2/"+repoName+"/blobs/uploads/session1")
		}
	case b401Bearer:
		h.Set("Www-Authenticate", `Bearer realm="http://`+authHost+`/token",service="`+regHost+`",scope="`+scopeStr+`"`)
	case b401Basic:
		h.Set("Www-Authenticate", `Basic realm="registry"`)
	case b429RA1:
		h.Set("Retry-After", "1")
	case b429RA100:
		h.Set("Retry-After", "100")
	case b429RAg:
		h.Set("Retry-After", "soon")
	}
	if st >= 400 {
		h.Set("Content-Type", "application/json")
		body = `{"errors":[{"code":"UNKNOWN","message":"injected"}]}`
	}
	return f.response(req, st, h, body), nil
}

// sendTap sits between http.Client and the retrying transport; it is a
// transparent pass-through that numbers the sends (one call into the retrying
// transport = one send) and stamps their begin and end.
type sendTap struct {
	next http.RoundTripper
	f    *fake
}

func (s *sendTap) RoundTrip(req *http.Request) (*http.Response, error) {
	s.f.curSend++
	id := s.f.curSend
	s.f.events = append(s.f.events, event{kind: 'S', send: id, t: time.Since(s.f.t0), method: req.Method})
	resp, err := s.next.RoundTrip(req)
	s.f.events = append(s.f.events, event{kind: 'E', send: id, t: time.Since(s.f.t0), method: req.Method})
	return resp, err
}

// oneShot is a reader http.NewRequest knows nothing about: no GetBody is derived from it.
type oneShot struct{ r io.Reader }

func (o *oneShot) Read(p []byte) (int, error) { return o.r.Read(p) }

// fileLike has the method set of an open file as far as reading goes: Read and Seek, nothing else.
type fileLike struct{ r *bytes.Reader }

func (f *fileLike) Read(p []byte) (int, error)              { return f.r.Read(p) }
func (f *fileLike) Seek(o int64, whence int) (int64, error) { return f.r.Seek(o, whence) }
