package c12

import (
	"archive/tar"
	"bytes"
	"compress/gzip"
	"crypto/sha256"
	"encoding/hex"
	"fmt"
	"io"
	"os"
	"path/filepath"
	"sort"
	"strings"

	"verif.local/engine/driver"
)

// Everything here looks at the disk and at byte strings with the standard
// library only (os, crypto/sha256, compress/gzip, archive/tar); nothing is
// taken from the library under test.

const (
	keyTitle  = "org.opencontainers.image.title"
	keyDigest = "io.deis.oras.content.digest"
	keyUnpack = "io.deis.oras.content.unpack"
)

func sha(b []byte) string {
	s := sha256.Sum256(b)
	return "sha256:" + hex.EncodeToString(s[:])
}

type obs struct {
	kind   byte
	perm   os.FileMode
	data   []byte
	target string
}

// snapshot lists everything below root (root itself excluded).
func snapshot(root string) (map[string]obs, error) {
	out := map[string]obs{}
	var walk func(dir, rel string) error
	walk = func(dir, rel string) error {
		des, err := os.ReadDir(dir)
		if err != nil {
			return err
		}
		for _, de := range des {
			p := filepath.Join(dir, de.Name())
			r := de.Name()
			if rel != "" {
				r = rel + "/" + de.Name()
			}
			fi, err := os.Lstat(p)
			if err != nil {
				return err
			}
			o := obs{perm: fi.Mode().Perm()}
			switch {
			case fi.Mode()&os.ModeSymlink != 0:
				o.kind = 'l'
				if o.target, err = os.Readlink(p); err != nil {
					return err
				}
			case fi.IsDir():
				o.kind = 'd'
			case fi.Mode().IsRegular():
				o.kind = 'f'
				if o.data, err = os.ReadFile(p); err != nil {
					return err
				}
			default:
				o.kind = '?'
			}
			out[r] = o
			if o.kind == 'd' {
				if err := walk(p, r); err != nil {
					return err
				}
			}
		}
		return nil
	}
	return out, walk(root, "")
}

func kindName(k byte) string {
	switch k {
	case 'd':
		return "directory"
	case 'f':
		return "regular file"
	case 'l':
		return "symlink"
	}
	return "other"
}

func fail(sig, format string, a ...any) *driver.Fail {
	return &driver.Fail{Sig: sig, Detail: fmt.Sprintf(format, a...)}
}

// compareTree checks the restored directory at root against the ground truth.
// Modes: exact with preserve, otherwise masked by the process umask; the mode
// of the added directory itself is judged only with preserve.
func compareTree(root string, it item, preserve bool, umask os.FileMode) *driver.Fail {
	fi, err := os.Lstat(root)
	if err != nil {
		return fail("restored directory missing under its name", "%v", err)
	}
	if !fi.IsDir() || fi.Mode()&os.ModeSymlink != 0 {
		return fail("restored directory is not a directory", "%s has mode %v", short(root), fi.Mode())
	}
	if preserve && fi.Mode().Perm() != it.mode {
		return fail("mode of the added directory itself differs with PreservePermissions", "want %04o got %04o", it.mode, fi.Mode().Perm())
	}
	got, err := snapshot(root)
	if err != nil {
		return fail("restored directory cannot be listed", "%v", err)
	}
	want := map[string]ent{}
	for _, e := range it.ents {
		want[e.rel] = e
	}
	var rels []string
	for r := range want {
		rels = append(rels, r)
	}
	sort.Strings(rels)
	for _, r := range rels {
		e := want[r]
		o, ok := got[r]
		if !ok {
			return fail("entry missing after the round trip: "+e.label, "%s", short(r))
		}
		if o.kind != e.kind {
			return fail("entry restored with another type: "+e.label, "%s: want %s got %s", short(r), kindName(e.kind), kindName(o.kind))
		}
		switch e.kind {
		case 'f':
			if !bytes.Equal(o.data, e.data) {
				return fail("file bytes differ after the round trip: "+e.label, "%s: want %d bytes (%s) got %d bytes (%s)", short(r), len(e.data), sha(e.data), len(o.data), sha(o.data))
			}
		case 'l':
			if o.target != e.target {
				return fail("symlink target differs after the round trip: "+e.label, "%s: want %q got %q", short(r), short(e.target), short(o.target))
			}
		}
		if e.kind != 'l' {
			wantMode := e.mode
			if !preserve {
				wantMode = e.mode &^ umask
			}
			if o.perm != wantMode {
				return fail(fmt.Sprintf("mode differs after the round trip (%s, PreservePermissions=%v)", kindName(e.kind), preserve),
					"%s: source %04o, umask %04o, want %04o got %04o", short(r), e.mode, umask, wantMode, o.perm)
			}
		}
	}
	var extra []string
	for r := range got {
		if _, ok := want[r]; !ok {
			extra = append(extra, r)
		}
	}
	if len(extra) > 0 {
		sort.Strings(extra)
		return fail("entry present after the round trip that was not in the source tree", "%s", short(strings.Join(extra, ", ")))
	}
	return nil
}

// checkArchive decodes gz (the blob Add produced for a directory) with the
// standard library and compares it with the ground truth; uncompressed is the
// recorded digest of the tar bytes.
func checkArchive(gz []byte, it item, uncompressed string) *driver.Fail {
	zr, err := gzip.NewReader(bytes.NewReader(gz))
	if err != nil {
		return fail("blob produced for a directory is not gzip", "%v", err)
	}
	tarBytes, err := io.ReadAll(zr)
	if err != nil {
		return fail("blob produced for a directory is not gzip", "%v", err)
	}
	if sha(tarBytes) != uncompressed {
		return fail("recorded uncompressed digest is not the digest of the tar bytes", "annotation %s, tar bytes %s", uncompressed, sha(tarBytes))
	}
	type te struct {
		kind   byte
		perm   os.FileMode
		data   []byte
		target string
	}
	got := map[string]te{}
	tr := tar.NewReader(bytes.NewReader(tarBytes))
	for {
		h, err := tr.Next()
		if err == io.EOF {
			break
		}
		if err != nil {
			return fail("blob produced for a directory is not a readable tar", "%v", err)
		}
		e := te{perm: os.FileMode(h.Mode) & 0o777, target: h.Linkname}
		switch h.Typeflag {
		case tar.TypeDir:
			e.kind = 'd'
		case tar.TypeReg:
			e.kind = 'f'
			if e.data, err = io.ReadAll(tr); err != nil {
				return fail("blob produced for a directory is not a readable tar", "%v", err)
			}
		case tar.TypeSymlink:
			e.kind = 'l'
		default:
			e.kind = '?'
		}
		name := strings.TrimSuffix(h.Name, "/")
		if _, dup := got[name]; dup {
			return fail("archive names an entry twice", "%s", short(name))
		}
		got[name] = e
	}
	want := map[string]ent{it.name: {kind: 'd', mode: it.mode, label: "the added directory"}}
	for _, e := range it.ents {
		want[it.name+"/"+e.rel] = e
	}
	var names []string
	for n := range want {
		names = append(names, n)
	}
	sort.Strings(names)
	for _, n := range names {
		w := want[n]
		g, ok := got[n]
		switch {
		case !ok:
			return fail("archive lacks an entry of the source tree: "+w.label, "%s", short(n))
		case g.kind != w.kind:
			return fail("archive records another type: "+w.label, "%s: want %s got %s", short(n), kindName(w.kind), kindName(g.kind))
		case w.kind == 'f' && !bytes.Equal(g.data, w.data):
			return fail("archive records other file bytes: "+w.label, "%s: want %d bytes got %d", short(n), len(w.data), len(g.data))
		case w.kind == 'l' && g.target != w.target:
			return fail("archive records another link target: "+w.label, "%s: want %q got %q", short(n), short(w.target), short(g.target))
		case w.kind != 'l' && g.perm != w.mode:
			return fail("archive records another mode ("+kindName(w.kind)+")", "%s: want %04o got %04o", short(n), w.mode, g.perm)
		}
	}
	for n := range got {
		if _, ok := want[n]; !ok {
			return fail("archive has an entry that is not in the source tree", "%s", short(n))
		}
	}
	return nil
}
