package c12

import (
	"os"
	"runtime/pprof"
)

func profStart() func() {
	p := os.Getenv("C12_PROF")
	if p == "" {
		return func() {}
	}
	f, _ := os.Create(p)
	pprof.StartCPUProfile(f)
	return func() { pprof.StopCPUProfile(); f.Close() }
}
