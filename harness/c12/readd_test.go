package c12

import (
	"bytes"
	"context"
	"crypto/sha256"
	"fmt"
	"io"
	"os"
	"path/filepath"
	"time"

	"oras.land/oras-go/v2/content/file"
	. "oras.land/oras-go/v2/internal/zzverif/common"
	"verif.local/engine/driver"
)

// The descriptor Add returns describes the bytes the file holds when it is added - also when the
// same path was added before under another name and has been rewritten since, with or without a
// new length and with or without its old modification time (cp -p, rsync -t, reproducible builds).
//
// cases: size {1, 70KiB+1} x rewrite {same length, longer, shorter} x modification time {kept, new}
// x the item {a file, a directory holding the file (TarReproducible on and off)}.
func readdJob() driver.Job {
	return driver.Job{Name: "readd", Run: func(c *driver.Ctx) {
		ctx := context.Background()
		for _, first := range [][]byte{oneByte, bigBytes} {
			for _, how := range []string{"same-length", "longer", "shorter"} {
				for _, keepTime := range []bool{true, false} {
					for _, kind := range []string{"file", "dir", "dir-reproducible"} {
						second := bytes.Repeat([]byte{'Z'}, len(first))
						switch how {
						case "longer":
							second = append(second, 'Z')
						case "shorter":
							second = second[:len(second)-1]
						}
						wd := Scratch("c12r")
						st, err := file.New(wd)
						if err != nil {
							panic(err)
						}
						st.TarReproducible = kind == "dir-reproducible"
						src := filepath.Join(wd, "src")
						fpath := filepath.Join(src, "f")
						must0(os.MkdirAll(src, 0o755))
						must0(os.WriteFile(fpath, first, 0o644))
						stamp := time.Unix(1700000000, 0)
						must0(os.Chtimes(fpath, stamp, stamp))
						must0(os.Chtimes(src, stamp, stamp))
						path := fpath
						if kind != "file" {
							path = src
						}
						_, err1 := st.Add(ctx, "first", "", path)
						must0(os.WriteFile(fpath, second, 0o644))
						if keepTime {
							must0(os.Chtimes(fpath, stamp, stamp))
							must0(os.Chtimes(src, stamp, stamp))
						}
						d2, err2 := st.Add(ctx, "second", "", path)
						c.Evals++
						c.Nontriv(driver.Hash("readd", fmt.Sprint(len(first), how, keepTime, kind)))
						detail := fmt.Sprintf("%s added as \"first\" holding %d bytes, rewritten (%s, modification time kept: %v), added again as \"second\"\nfirst Add err=%v, second Add err=%v, descriptor %v", kind, len(first), how, keepTime, err1, err2, d2)
						var sig string
						if err1 != nil || err2 != nil {
							sig = "readd: Add failed"
						} else if rc, ferr := st.Fetch(ctx, d2); ferr != nil {
							sig, detail = "readd: the content just added cannot be fetched", detail+"\nFetch: "+ferr.Error()
						} else {
							b, _ := io.ReadAll(rc)
							rc.Close()
							sum := fmt.Sprintf("sha256:%x", sha256.Sum256(b))
							if sum != d2.Digest.String() || int64(len(b)) != d2.Size {
								sig = "readd: the descriptor's digest and size are not those of the stored bytes"
								detail += fmt.Sprintf("\nstored bytes: %d bytes, %s", len(b), sum)
							} else if kind == "file" && !bytes.Equal(b, second) {
								sig = "readd: the stored bytes are not the file's current bytes"
							}
						}
						st.Close()
						os.RemoveAll(wd)
						if sig != "" {
							c.AddViolation(driver.Violation{Tier: c.Tier, Job: c.Job, Scenario: "readd", Sig: sig, Detail: detail})
							return
						}
					}
				}
			}
		}
	}}
}

func must0(err error) {
	if err != nil {
		panic(err)
	}
}
