package c12

import (
	"fmt"
	"os"
	"path/filepath"
	"strings"
	"syscall"
	"time"
	"unsafe"
)

// ---- ground truth: what the harness puts on disk (never read back through the library)

// ent is one entry below an added directory.
type ent struct {
	rel    string      // slash-separated path relative to the added directory
	kind   byte        // 'd' directory, 'f' regular file, 'l' symlink
	mode   os.FileMode // permission bits ('d', 'f')
	data   []byte      // 'f'
	target string      // 'l'
	label  string      // input class used in signatures
}

// item is one thing handed to Store.Add.
type item struct {
	name string      // the name it is added under
	dir  bool        //
	mode os.FileMode // mode of the directory itself / of the file
	data []byte      // file bytes
	ents []ent       // directory entries, parents before children
	// defaultPath: added with an empty path argument (the store then reads <working dir>/<name>)
	defaultPath bool
	// mediaType: the media type handed to Add ("" = the store's default)
	mediaType string
}

func (it item) describe() string {
	var sb strings.Builder
	if !it.dir {
		fmt.Fprintf(&sb, "file %q mode=%04o bytes=%d", short(it.name), it.mode, len(it.data))
		return sb.String()
	}
	fmt.Fprintf(&sb, "dir %q mode=%04o {", short(it.name), it.mode)
	for i, e := range it.ents {
		if i > 0 {
			sb.WriteString("; ")
		}
		switch e.kind {
		case 'd':
			fmt.Fprintf(&sb, "%s/ %04o", short(e.rel), e.mode)
		case 'f':
			fmt.Fprintf(&sb, "%s %04o %dB", short(e.rel), e.mode, len(e.data))
		default:
			fmt.Fprintf(&sb, "%s -> %s", short(e.rel), short(e.target))
		}
	}
	sb.WriteString("}")
	return sb.String()
}

// short abbreviates the 101-byte name components for printing.
func short(s string) string {
	return strings.ReplaceAll(strings.ReplaceAll(s, strings.Repeat("x", 99), "x*99"), strings.Repeat("y", 100), "y*100")
}

// ---- file contents

var (
	oneByte  = []byte{'x'}
	bigBytes = func() []byte {
		// 70 KiB + 1 byte (not a multiple of the 512-byte tar block), a
		// 997-byte pseudo-random block repeated so that gzip stays fast.
		blk := make([]byte, 997)
		x := uint32(2463534242)
		for i := range blk {
			x ^= x << 13
			x ^= x >> 17
			x ^= x << 5
			blk[i] = byte(x)
		}
		out := make([]byte, 0, 70*1024+1)
		for len(out) < 70*1024+1 {
			n := 70*1024 + 1 - len(out)
			if n > len(blk) {
				n = len(blk)
			}
			out = append(out, blk[:n]...)
		}
		return out
	}()
)

// ---- tree generator

const (
	kDir = iota
	kEmpty
	kOne
	kBig
	kLnkSib
	kLnkUp
	kLnkDang
)

var kindLabel = []string{"directory", "empty file", "1-byte file", "70KiB file", "symlink to sibling", "symlink to a file of the parent directory", "dangling symlink"}
var nclsLabel = []string{"ascii name", "101-byte name", "non-ASCII name"}

type gcode struct {
	kind int
	ncls int // 0 ascii, 1 101-byte, 2 non-ASCII
	mode os.FileMode
}

type gent struct {
	parent int // -1 = the added directory itself
	code   int
}

func entName(ncls, i int) string {
	switch ncls {
	case 1:
		return fmt.Sprintf("L%d", i) + strings.Repeat("x", 99) // 101 bytes
	case 2:
		return fmt.Sprintf("ü-日本-%d", i)
	}
	return fmt.Sprintf("e%d", i)
}

// genTrees yields every tree with at most maxN entries over codes in a
// canonical order (parents non-decreasing, sibling codes non-decreasing) so
// that sibling permutations are not repeated. Depth of an entry <= 3.
func genTrees(maxN int, codes []gcode, yield func([]gent)) {
	var cur []gent
	depth := func(i int) int {
		d := 1
		for cur[i].parent >= 0 {
			i = cur[i].parent
			d++
		}
		return d
	}
	var rec func()
	rec = func() {
		if treeValid(cur, codes) {
			yield(cur)
		}
		if len(cur) == maxN {
			return
		}
		minParent := -1
		if len(cur) > 0 {
			minParent = cur[len(cur)-1].parent
		}
		for p := minParent; p < len(cur); p++ {
			if p >= 0 && (codes[cur[p].code].kind != kDir || depth(p) >= 3) {
				continue
			}
			start := 0
			if len(cur) > 0 && p == cur[len(cur)-1].parent {
				start = cur[len(cur)-1].code
			}
			for ci := start; ci < len(codes); ci++ {
				cur = append(cur, gent{parent: p, code: ci})
				rec()
				cur = cur[:len(cur)-1]
			}
		}
	}
	rec()
}

// treeValid: a symlink to a sibling needs a sibling; a symlink to a file of
// the parent directory must not sit directly in the added directory (its
// target would lie outside the added tree).
func treeValid(g []gent, codes []gcode) bool {
	for i, e := range g {
		switch codes[e.code].kind {
		case kLnkSib:
			ok := false
			for j, o := range g {
				if j != i && o.parent == e.parent {
					ok = true
				}
			}
			if !ok {
				return false
			}
		case kLnkUp:
			if e.parent < 0 {
				return false
			}
		}
	}
	return true
}

// buildItem turns a generated tree into ground truth.
func buildItem(name string, topMode os.FileMode, g []gent, codes []gcode) item {
	it := item{name: name, dir: true, mode: topMode}
	names := make([]string, len(g))
	rels := make([]string, len(g))
	for i, e := range g {
		c := codes[e.code]
		names[i] = entName(c.ncls, i)
		if e.parent >= 0 {
			rels[i] = rels[e.parent] + "/" + names[i]
		} else {
			rels[i] = names[i]
		}
	}
	hasChild := make([]bool, len(g))
	for _, e := range g {
		if e.parent >= 0 {
			hasChild[e.parent] = true
		}
	}
	for i, e := range g {
		c := codes[e.code]
		x := ent{rel: rels[i], mode: c.mode, label: kindLabel[c.kind] + ", " + nclsLabel[c.ncls]}
		switch c.kind {
		case kDir:
			x.kind = 'd'
			if !hasChild[i] {
				x.label = "empty " + x.label
			}
		case kEmpty:
			x.kind, x.data = 'f', []byte{}
		case kOne:
			x.kind, x.data = 'f', oneByte
		case kBig:
			x.kind, x.data = 'f', bigBytes
		case kLnkDang:
			x.kind, x.target = 'l', "no-such-entry"
		case kLnkSib:
			x.kind = 'l'
			for j, o := range g {
				if j != i && o.parent == e.parent {
					x.target = names[j]
					break
				}
			}
		case kLnkUp:
			x.kind = 'l'
			gp := g[e.parent].parent
			tgt := names[e.parent] // the directory holding the link always exists there
			for j, o := range g {
				k := codes[o.code].kind
				if o.parent == gp && (k == kEmpty || k == kOne || k == kBig) {
					tgt = names[j]
					break
				}
			}
			x.target = "../" + tgt
		}
		it.ents = append(it.ents, x)
	}
	return it
}

func (it item) key() string {
	var sb strings.Builder
	fmt.Fprintf(&sb, "%s|%v|%o|%d", it.name, it.dir, it.mode, len(it.data))
	for _, e := range it.ents {
		fmt.Fprintf(&sb, "|%s,%c,%o,%d,%s", e.rel, e.kind, e.mode, len(e.data), e.target)
	}
	return sb.String()
}

// ---- putting ground truth on disk

const atSymlinkNoFollow = 0x100

func lutimes(path string, atime, mtime time.Time) error {
	ts := [2]syscall.Timespec{syscall.NsecToTimespec(atime.UnixNano()), syscall.NsecToTimespec(mtime.UnixNano())}
	p, err := syscall.BytePtrFromString(path)
	if err != nil {
		return err
	}
	atFDCWD := -100
	_, _, e := syscall.Syscall6(syscall.SYS_UTIMENSAT, uintptr(atFDCWD), uintptr(unsafe.Pointer(p)), uintptr(unsafe.Pointer(&ts[0])), atSymlinkNoFollow, 0, 0)
	if e != 0 {
		return e
	}
	return nil
}

// materialise writes the item at path; variant selects the timestamps
// (two variants never share an mtime or atime, also not after rounding to seconds).
func materialise(it item, path string, variant int) error {
	base := time.Date(2001, 2, 3, 4, 5, 6, 0, time.UTC)
	step := time.Minute
	if variant == 1 {
		base = time.Date(2015, 6, 7, 8, 9, 10, 500000000, time.UTC)
		step = 7 * time.Minute
	}
	stamp := func(p string, i int) error {
		m := base.Add(time.Duration(i) * step)
		return lutimes(p, m.Add(time.Hour), m)
	}
	if !it.dir {
		if err := os.WriteFile(path, it.data, 0o666); err != nil {
			return err
		}
		if err := os.Chmod(path, it.mode); err != nil {
			return err
		}
		return stamp(path, 0)
	}
	if err := os.Mkdir(path, 0o777); err != nil {
		return err
	}
	for _, e := range it.ents {
		p := filepath.Join(path, filepath.FromSlash(e.rel))
		var err error
		switch e.kind {
		case 'd':
			err = os.Mkdir(p, 0o777)
		case 'f':
			if err = os.WriteFile(p, e.data, 0o666); err == nil {
				err = os.Chmod(p, e.mode)
			}
		default:
			err = os.Symlink(e.target, p)
		}
		if err != nil {
			return err
		}
	}
	for i := len(it.ents) - 1; i >= 0; i-- {
		e := it.ents[i]
		p := filepath.Join(path, filepath.FromSlash(e.rel))
		if e.kind == 'd' {
			if err := os.Chmod(p, e.mode); err != nil {
				return err
			}
		}
		if err := stamp(p, i+1); err != nil {
			return err
		}
	}
	if err := os.Chmod(path, it.mode); err != nil {
		return err
	}
	return stamp(path, 0)
}

// ---- the three families

var topNames = []string{"top", "nest/top", "ü-日本-top", "T" + strings.Repeat("y", 100)}

// family "names": every kind x every name class, fixed modes
func codesNames() []gcode {
	var out []gcode
	for k := kDir; k <= kLnkDang; k++ {
		for n := 0; n < 3; n++ {
			m := os.FileMode(0o644)
			if k == kDir {
				m = 0o755
			}
			out = append(out, gcode{k, n, m})
		}
	}
	return out
}

var dirModes = []os.FileMode{0o755, 0o700, 0o777}
var fileModes = []os.FileMode{0o644, 0o600, 0o755, 0o700, 0o444, 0o666}

// family "modes": directories and 1-byte files with every mode, ascii names
func codesModes() []gcode {
	var out []gcode
	for _, m := range dirModes {
		out = append(out, gcode{kDir, 0, m})
	}
	for _, m := range fileModes {
		out = append(out, gcode{kOne, 0, m})
	}
	return out
}

// family "blobs": the things that can be added side by side
func blobItems() []item {
	same := []byte("same-bytes\n")
	small := func(name string) item {
		codes := []gcode{{kOne, 0, 0o644}, {kDir, 0, 0o755}, {kLnkSib, 0, 0o644}}
		return buildItem(name, 0o755, []gent{{-1, 0}, {-1, 1}, {-1, 2}, {1, 0}}, codes)
	}
	return []item{
		{name: "a.txt", mode: 0o644, data: same, defaultPath: true},
		{name: "b.txt", mode: 0o600, data: same},
		{name: "sub/c.txt", mode: 0o644, data: same},
		{name: "d.bin", mode: 0o644, data: bigBytes},
		{name: "L" + strings.Repeat("x", 99) + "0", mode: 0o755, data: bigBytes},
		{name: "ü-日本.txt", mode: 0o644, data: []byte{}},
		{name: "empty2", mode: 0o444, data: []byte{}},
		func() item { it := small("dirg"); it.defaultPath = true; return it }(),
		small("dirh"),
		// a directory added under a media type of the caller's own: still packed, marked for unpacking and restored as a tree
		func() item { it := small("dirm"); it.mediaType = "application/vnd.acme.bundle.v1"; return it }(),
	}
}
