package c12

import (
	"bytes"
	"context"
	"fmt"
	"io"
	"os"
	"path/filepath"
	"reflect"
	"regexp"
	"sort"
	"strings"
	"syscall"
	"testing"

	ocispec "github.com/opencontainers/image-spec/specs-go/v1"
	oras "oras.land/oras-go/v2"
	"oras.land/oras-go/v2/content/file"
	"oras.land/oras-go/v2/content/memory"
	"oras.land/oras-go/v2/content/oci"
	. "oras.land/oras-go/v2/internal/zzverif/common"
	"oras.land/oras-go/v2/registry/remote"
	"verif.local/engine/driver"
)

func TestVerif(t *testing.T) {
	driver.Main(t, driver.Harness{
		ID:    "C12",
		Level: "exploration",
		Rule: "plain enumeration of four input families, each case run under all 2 x 4 x 16 = 128 configurations: TarReproducible {off,on} on the source file store x intermediate store {memory, OCI layout on tmpfs, remote repository over the in-process registry model, file store} x {PreservePermissions, SkipUnpack, ForceCAS, IgnoreNoName} (all 16) on the second file store. " +
			"Pipeline: harness writes the tree (explicit chmod, explicit atime/mtime incl. on symlinks) -> Store.Add(name, path != name; in family BLOBS a.txt and dirg with the empty default path) -> PackManifest v1.1 -> Tag -> Copy to the intermediate -> Copy (CopyGraph when IgnoreNoName, whose Tag step cannot succeed) into a file store on a fresh directory. " +
			"Family NAMES: every directory tree below the added directory with nesting depth <= 3, siblings up to permutation, entry kinds {directory (hence empty directory), empty file, 1-byte file, 70KiB+1 file, symlink to a sibling, symlink ../x to an entry of the parent directory, dangling symlink} x name class {ascii, 101-byte, non-ASCII} chosen per entry (files 0644, directories 0755): quick <= 2 entries under each name of the added directory {top, nest/top, non-ASCII, 101-byte} and 3 entries under top; thorough <= 3 entries under each of the four names, 4 entries with one name class for the whole tree under top, 5 entries with ascii names under top. " +
			"Family MODES: every tree with <= 3 entries over {directory 0755|0700|0777, 1-byte file 0644|0600|0755|0700|0444|0666} x (mode of the added directory {0755,0700,0777} under the inherited umask, 0755 under umask 0077 set for the case); thorough adds the 4-entry trees with 0755 under both umasks. " +
			"Family ODD: every subset of <= 3 [thorough 4] out of ten odd entries below the added directory: names beginning with dots that are neither '.' nor '..' (..hidden, a directory '...', .../..x, .dot) and symbolic links whose targets are not in shortest form (./x, a trailing slash, a doubled slash, missing/../x, a target starting with two dots). " +
			"Family BLOBS: every ordered selection of <= 3 [thorough 4] distinct items out of 10 added side by side (one of them a directory added under a media type of the caller's own): three files with the same bytes (one under a nested name, different modes), two 70KiB files with the same bytes (one under a 101-byte name), two empty files (one non-ASCII name), two directories with the same content under different names. " +
			"Oracle (os, crypto/sha256, compress/gzip, archive/tar only): Add's descriptor carries the name, digest/size = sha256/length of the bytes the source store serves, the recorded uncompressed digest = sha256 of the gunzipped bytes, the archive decoded with archive/tar lists exactly the source entries (type, bytes, link target, mode); the restored tree is compared recursively below the added name (paths, types, bytes, link targets, modes masked with the process umask or exact with PreservePermissions; the added directory's own mode only with PreservePermissions; single files' modes and timestamps never); with SkipUnpack the stored file must be the descriptor's bytes; " +
			"every name must materialise, names sharing bytes included, except that under ForceCAS one name per group of equal bytes suffices; per tree and TarReproducible setting a second copy of the tree with different atime/mtime everywhere is added to a second store: with TarReproducible the descriptors must be deeply equal; " +
			"for every directory, TarReproducible setting and PreservePermissions setting a direct Push of the true blob with a well-formed but wrong uncompressed digest (digest of the empty string; the digest of the compressed bytes) must fail. " +
			"Separately (readd): one path added twice under two names and rewritten in between (same length / longer / shorter, old modification time kept or not; a file, or a directory holding it): the second descriptor names the bytes stored for it. " +
			"evaluations = (case, configuration) pairs judged; non-trivial = distinct cases with at least one entry below the added directory or at least two items",
		Assumptions: []string{
			"the process runs as uid 0: permission failures a non-root user would see are unreachable; setuid/setgid/sticky bits are outside the alphabet",
			"Copy runs with Concurrency 1 so that every case is deterministic; interleavings of Copy are the subject of C01/C04",
			"TarReproducible is set on the adding store, the other four options on the receiving store (IgnoreNoName on the adding store would discard the packed manifest itself)",
			"a malformed (unparseable) uncompressed-digest annotation is not judged: the statement only speaks of a recorded digest being verified",
			"the mode of a single added file is not transported by the format and is not judged",
			"the remote intermediate is the in-process registry model (E5), no sockets",
		},
		Jobs:           jobs,
		BudgetQuick:    400,
		BudgetThorough: 1200,
	})
}

// ---- configurations

type dstOpt struct{ preserve, skip, cas, ign bool }

func (o dstOpt) String() string {
	return fmt.Sprintf("PreservePermissions=%v SkipUnpack=%v ForceCAS=%v IgnoreNoName=%v", o.preserve, o.skip, o.cas, o.ign)
}

func allDstOpts() []dstOpt {
	var out []dstOpt
	for i := 0; i < 16; i++ {
		out = append(out, dstOpt{i&1 != 0, i&2 != 0, i&4 != 0, i&8 != 0})
	}
	return out
}

var mids = []string{"memory", "oci", "remote", "file"}

func newMid(kind string) (oras.Target, *Registry, func()) {
	switch kind {
	case "memory":
		return memory.New(), nil, func() {}
	case "oci":
		dir := Scratch("c12oci")
		s, err := oci.New(dir)
		if err != nil {
			panic(err)
		}
		return s, nil, func() { os.RemoveAll(dir) }
	case "file":
		dir := Scratch("c12mid")
		s, err := file.New(dir)
		if err != nil {
			panic(err)
		}
		return s, nil, func() { s.Close(); os.RemoveAll(dir) }
	case "remote":
		g := NewRegistry("reg.example", Profile{ReferrersAPI: true})
		repo, err := remote.NewRepository("reg.example/c12/repo")
		if err != nil {
			panic(err)
		}
		repo.Client = g
		repo.SetReferrersCapability(true)
		return repo, g, func() {}
	}
	panic("unknown intermediate " + kind)
}

// ---- cases

type caseSpec struct {
	family string
	items  []item
	umask  int // -1: the umask the process inherited; otherwise set for the duration of the case
}

func (cs caseSpec) describe() string {
	var parts []string
	for _, it := range cs.items {
		parts = append(parts, it.describe())
	}
	u := ""
	if cs.umask >= 0 {
		u = fmt.Sprintf(" [umask set to %04o]", cs.umask)
	}
	return cs.family + u + ": " + strings.Join(parts, " + ")
}

func (cs caseSpec) key() string {
	var parts []string
	for _, it := range cs.items {
		parts = append(parts, it.key())
	}
	return fmt.Sprintf("%s#%d#", cs.family, cs.umask) + strings.Join(parts, "#")
}

func (cs caseSpec) nontrivial() bool {
	if len(cs.items) >= 2 {
		return true
	}
	return len(cs.items) == 1 && cs.items[0].dir && len(cs.items[0].ents) > 0
}

// enumerate calls yield for every case of the family, in a fixed order.
func enumerate(family string, th bool, yield func(idx int, cs func() caseSpec)) {
	idx := 0
	switch family {
	case "names":
		// quick: <= 2 entries under all four names, 3 entries under "top";
		// thorough: <= 3 entries under all four names, plus 4 entries with one
		// name class for all entries, plus 5 entries with ascii names, under "top"
		codes := codesNames()
		full, n := 2, 3
		if th {
			full = 3
		}
		emit := func(g []gent, codes []gcode, tops []string) {
			for _, top := range tops {
				top := top
				yield(idx, func() caseSpec { return caseSpec{family, []item{buildItem(top, 0o755, g, codes)}, -1} })
				idx++
			}
		}
		genTrees(n, codes, func(g []gent) {
			if len(g) <= full {
				emit(g, codes, topNames)
			} else {
				emit(g, codes, topNames[:1])
			}
		})
		if th {
			genTrees(4, codes, func(g []gent) {
				if len(g) != 4 {
					return
				}
				for _, e := range g {
					if codes[e.code].ncls != codes[g[0].code].ncls {
						return
					}
				}
				emit(g, codes, topNames[:1])
			})
			var ascii []gcode
			for _, c := range codes {
				if c.ncls == 0 {
					ascii = append(ascii, c)
				}
			}
			genTrees(5, ascii, func(g []gent) {
				if len(g) == 5 {
					emit(g, ascii, topNames[:1])
				}
			})
		}
	case "odd":
		// every non-empty subset of <= 3 [thorough 4] out of ten odd entries: names that begin with dots
		// without being "." or "..", and symbolic links whose targets are not in shortest form (kept verbatim
		// by tar and by the file system, so they must come back verbatim)
		odd := []ent{
			{rel: "..hidden", kind: 'f', mode: 0o644, data: oneByte, label: "file whose name starts with two dots"},
			{rel: "...", kind: 'd', mode: 0o755, label: "directory named '...'"},
			{rel: ".../..x", kind: 'f', mode: 0o644, data: oneByte, label: "file starting with two dots inside '...'"},
			{rel: ".dot", kind: 'f', mode: 0o644, data: []byte{}, label: "file whose name starts with one dot"},
			{rel: "x", kind: 'f', mode: 0o644, data: oneByte, label: "1-byte file"},
			{rel: "l1", kind: 'l', target: "./x", label: "symlink with target ./x"},
			{rel: "l2", kind: 'l', target: ".../", label: "symlink with a trailing slash in its target"},
			{rel: "l3", kind: 'l', target: "...//..x", label: "symlink with a doubled slash in its target"},
			{rel: "l4", kind: 'l', target: "missing/../x", label: "symlink through a missing directory and back"},
			{rel: "l5", kind: 'l', target: "..hidden", label: "symlink to a name starting with two dots"},
		}
		max := 3
		if th {
			max = 4
		}
		var rec func(from int, cur []ent)
		rec = func(from int, cur []ent) {
			if len(cur) > 0 {
				ents := append([]ent(nil), cur...)
				yield(idx, func() caseSpec {
					// a child needs its directory: '...' is added when '.../..x' is chosen without it
					has := false
					for _, e := range ents {
						has = has || e.rel == "..."
					}
					out := ents
					for _, e := range ents {
						if e.rel == ".../..x" && !has {
							out = append([]ent{odd[1]}, ents...)
						}
					}
					return caseSpec{family, []item{{name: "top", dir: true, mode: 0o755, ents: out}}, -1}
				})
				idx++
			}
			if len(cur) == max {
				return
			}
			for i := from; i < len(odd); i++ {
				rec(i+1, append(cur, odd[i]))
			}
		}
		rec(0, nil)
	case "modes":
		// top-directory mode x umask: all three modes under the inherited umask
		// and 0755 under umask 0077; thorough adds the 4-entry trees with 0755
		// under both umasks
		type tu struct {
			mode  os.FileMode
			umask int
		}
		all := []tu{{0o755, -1}, {0o700, -1}, {0o777, -1}, {0o755, 0o077}}
		n := 3
		if th {
			n = 4
		}
		codes := codesModes()
		genTrees(n, codes, func(g []gent) {
			combos := all
			if len(g) == 4 {
				combos = []tu{{0o755, -1}, {0o755, 0o077}}
			}
			for _, x := range combos {
				x := x
				yield(idx, func() caseSpec { return caseSpec{family, []item{buildItem("top", x.mode, g, codes)}, x.umask} })
				idx++
			}
		})
	case "blobs":
		n := 3
		if th {
			n = 4
		}
		all := blobItems()
		var cur []int
		var rec func()
		rec = func() {
			if len(cur) > 0 {
				sel := append([]int(nil), cur...)
				yield(idx, func() caseSpec {
					cs := caseSpec{family: family, umask: -1}
					for _, i := range sel {
						cs.items = append(cs.items, all[i])
					}
					return cs
				})
				idx++
			}
			if len(cur) == n {
				return
			}
			for i := range all {
				used := false
				for _, j := range cur {
					used = used || j == i
				}
				if used {
					continue
				}
				cur = append(cur, i)
				rec()
				cur = cur[:len(cur)-1]
			}
		}
		rec()
	}
}

func jobs(tier string) []driver.Job {
	th := tier == "thorough"
	var out []driver.Job
	for _, f := range []struct {
		name string
		nsh  int
	}{{"blobs", 32}, {"modes", 32}, {"odd", 8}, {"names", 160}} {
		for sh := 0; sh < f.nsh; sh++ {
			fam, sh, nsh := f.name, sh, f.nsh
			name := fmt.Sprintf("%s/shard%d.%d", fam, sh, nsh)
			out = append(out, driver.Job{Name: name, Run: func(c *driver.Ctx) { runShard(c, fam, th, sh, nsh) }})
		}
	}
	out = append(out, readdJob())
	return out
}

func processUmask() os.FileMode {
	m := syscall.Umask(0)
	syscall.Umask(m)
	return os.FileMode(m) & 0o777
}

func runShard(c *driver.Ctx, family string, th bool, sh, nsh int) {
	umask := processUmask()
	enumerate(family, th, func(idx int, mk func() caseSpec) {
		if idx%nsh != sh || c.Capped {
			return
		}
		if c.Expired() {
			c.Capped = true
			return
		}
		cs := mk()
		umask := umask
		if cs.umask >= 0 {
			old := syscall.Umask(cs.umask)
			defer syscall.Umask(old)
			umask = os.FileMode(cs.umask)
		}
		r := &run{c: c, cs: cs, umask: umask, count: true}
		r.evalCase()
		c.Count("cases_"+family, 1)
		if cs.nontrivial() {
			c.Nontriv(driver.Hash(cs.key()))
		}
		if len(r.fails) == 0 {
			return
		}
		// confirm: the same case must fail with the same signatures again
		want := r.sigs()
		for i := 0; i < 2; i++ {
			r2 := &run{c: c, cs: cs, umask: umask}
			r2.evalCase()
			if got := r2.sigs(); got != want {
				c.Infra = append(c.Infra, fmt.Sprintf("HARNESS-NONDETERMINISM %s: first run {%s}, re-run {%s}", cs.describe(), want, got))
				return
			}
		}
		for _, f := range r.fails {
			c.AddViolation(driver.Violation{Tier: c.Tier, Job: c.Job, Scenario: family, Sig: f.Sig, Detail: f.Detail})
		}
	})
}

// ---- one case

type run struct {
	c     *driver.Ctx
	cs    caseSpec
	umask os.FileMode
	count bool // first evaluation (counters are not touched by confirmation re-runs)
	fails []*driver.Fail
	base  string
}

func (r *run) sigs() string {
	var s []string
	for _, f := range r.fails {
		s = append(s, f.Sig)
	}
	sort.Strings(s)
	return strings.Join(s, " | ")
}

func (r *run) fail(f *driver.Fail, where string) {
	if f == nil {
		return
	}
	for _, o := range r.fails {
		if o.Sig == f.Sig {
			return
		}
	}
	f.Detail = r.cs.describe() + "\n" + where + "\n" + f.Detail
	r.fails = append(r.fails, f)
}

func (r *run) cnt(k string, n int64) {
	if r.count {
		r.c.Count(k, n)
	}
}

var (
	reTmp    = regexp.MustCompile(`oras_file_[0-9]+`)
	reDigest = regexp.MustCompile(`sha256:[0-9a-f]{64}`)
)

// errWords maps an error to a coarse, input-independent class for signatures.
func errWords(err error) string {
	s := err.Error()
	for _, w := range []string{"content digest mismatch", "mismatch", "duplicate name", "already exists", "not found", "outside of", "no symbolic link allowed",
		"file name too long", "invalid tar header", "header", "size", "permission denied", "no such file or directory", "file exists", "is a directory", "not a directory"} {
		if strings.Contains(s, w) {
			return w
		}
	}
	return "other error"
}

func (r *run) scrub(err error) string {
	s := err.Error()
	if r.base != "" {
		s = strings.ReplaceAll(s, r.base, "$BASE")
	}
	return short(reTmp.ReplaceAllString(s, "oras_file_*"))
}

var copyOpts = func() oras.CopyOptions {
	o := oras.DefaultCopyOptions
	o.Concurrency = 1
	return o
}()

// addPath is the path argument of Add for the k-th item (onDisk: where the
// harness puts it, relative to the working directory). Items flagged
// defaultPath are added with an empty path, i.e. from <working dir>/<name>;
// all others from a path that differs from the name.
func addPath(it item, k int, onDisk bool) string {
	if it.defaultPath {
		if onDisk {
			return filepath.FromSlash(it.name)
		}
		return ""
	}
	return fmt.Sprintf("in%d", k)
}

func itemClass(it item) string {
	if it.dir {
		return "directory"
	}
	return "file"
}

func (r *run) evalCase() {
	r.base = Scratch("c12")
	defer os.RemoveAll(r.base)
	defer func() {
		if p := recover(); p != nil {
			if e, ok := p.(harnessErr); ok {
				panic(e.err) // the harness's own file-system work failed: infrastructure, not a verdict
			}
			line := fmt.Sprint(p)
			if i := strings.IndexByte(line, '\n'); i > 0 {
				line = line[:i]
			}
			r.fail(fail("panic in the pipeline: "+reDigest.ReplaceAllString(line, "sha256:*"), "%v", p), "")
		}
	}()
	for _, tr := range []bool{false, true} {
		r.evalSource(tr)
	}
}

type harnessErr struct{ err error }

func hmust(err error) {
	if err != nil {
		panic(harnessErr{err})
	}
}

func (r *run) evalSource(tr bool) {
	ctx := context.Background()
	items := r.cs.items
	where := fmt.Sprintf("TarReproducible=%v", tr)
	srcwd := filepath.Join(r.base, fmt.Sprintf("src-%v", tr))
	hmust(os.Mkdir(srcwd, 0o777))
	for k, it := range items {
		hmust(materialise(it, filepath.Join(srcwd, addPath(it, k, true)), 0))
	}
	src, err := file.New(srcwd)
	hmust(err)
	defer src.Close()
	src.TarReproducible = tr

	descs := make([]ocispec.Descriptor, len(items))
	blobs := make([][]byte, len(items))
	for k, it := range items {
		d, err := src.Add(ctx, it.name, it.mediaType, addPath(it, k, false))
		if err != nil {
			r.fail(fail("Add failed ("+itemClass(it)+"): "+errWords(err), "%s", r.scrub(err)), where)
			return
		}
		descs[k] = d
		if d.Annotations[keyTitle] != it.name {
			r.fail(fail("descriptor returned by Add does not carry the name", "title %q", short(d.Annotations[keyTitle])), where)
		}
		rc, err := src.Fetch(ctx, d)
		if err != nil {
			r.fail(fail("adding store cannot serve the descriptor it returned ("+itemClass(it)+")", "%s", r.scrub(err)), where)
			return
		}
		b, err := io.ReadAll(rc)
		rc.Close()
		if err != nil {
			r.fail(fail("adding store cannot serve the descriptor it returned ("+itemClass(it)+")", "%s", r.scrub(err)), where)
			return
		}
		blobs[k] = b
		if string(d.Digest) != sha(b) || d.Size != int64(len(b)) {
			r.fail(fail("descriptor digest/size are not those of the stored bytes ("+itemClass(it)+")", "descriptor %s %d, bytes %s %d", d.Digest, d.Size, sha(b), len(b)), where)
		}
		if !it.dir {
			if !bytes.Equal(b, it.data) {
				r.fail(fail("adding store serves other bytes than the added file", "want %d bytes got %d", len(it.data), len(b)), where)
			}
			continue
		}
		if d.Annotations[keyUnpack] != "true" {
			r.fail(fail("directory descriptor is not marked for unpacking", "%v", d.Annotations), where)
		}
		r.fail(checkArchive(b, it, d.Annotations[keyDigest]), where)
	}

	// the same trees with other timestamps, added to a second store
	src2wd := filepath.Join(r.base, fmt.Sprintf("src2-%v", tr))
	hmust(os.Mkdir(src2wd, 0o777))
	for k, it := range items {
		hmust(materialise(it, filepath.Join(src2wd, addPath(it, k, true)), 1))
	}
	src2, err := file.New(src2wd)
	hmust(err)
	src2.TarReproducible = tr
	for k, it := range items {
		// the second store is given other spellings of the same path: absolute with a doubled separator,
		// absolute with a "." segment, through a symbolic link (files) or through "<dir>/.." (directories)
		p2, spelled := addPath(it, k, false), "as in the first store"
		if !it.defaultPath {
			switch (k + len(it.ents) + len(it.data)) % 3 {
			case 0:
				p2, spelled = src2wd+"//"+p2, "absolute path with a doubled separator"
			case 1:
				p2, spelled = src2wd+"/./"+p2, "absolute path with a '.' segment"
			default:
				if it.dir {
					p2, spelled = src2wd+"/"+p2+"/../"+p2, "absolute path through '<dir>/..'"
				} else {
					hmust(os.Symlink(p2, filepath.Join(src2wd, "ln-"+p2)))
					p2, spelled = "ln-"+p2, "relative path that is a symbolic link to the file"
				}
			}
		}
		w2 := where + " (second copy of the tree, path given to Add: " + spelled + ")"
		d2, err := src2.Add(ctx, it.name, it.mediaType, p2)
		if err != nil {
			r.fail(fail("Add failed ("+itemClass(it)+"): "+errWords(err), "%s", r.scrub(err)), w2)
			break
		}
		if rc, err := src2.Fetch(ctx, d2); err != nil {
			r.fail(fail("adding store cannot serve the descriptor it returned ("+itemClass(it)+")", "%s", r.scrub(err)), w2)
		} else {
			b, err := io.ReadAll(rc)
			rc.Close()
			switch {
			case err != nil:
				r.fail(fail("adding store cannot serve the descriptor it returned ("+itemClass(it)+")", "%s", r.scrub(err)), w2)
			case string(d2.Digest) != sha(b) || d2.Size != int64(len(b)):
				r.fail(fail("descriptor digest/size are not those of the stored bytes ("+itemClass(it)+")", "descriptor %s %d, bytes %s %d", d2.Digest, d2.Size, sha(b), len(b)), w2)
			case !it.dir && !bytes.Equal(b, it.data):
				r.fail(fail("adding store serves other bytes than the added file", "want %d bytes got %d", len(it.data), len(b)), w2)
			case it.dir:
				r.fail(checkArchive(b, it, d2.Annotations[keyDigest]), w2)
			}
		}
		same := reflect.DeepEqual(d2, descs[k])
		switch {
		case tr && !same:
			r.fail(fail("TarReproducible: trees equal up to timestamps give different descriptors", "first  %s %d %v\nsecond %s %d %v", descs[k].Digest, descs[k].Size, descs[k].Annotations[keyDigest], d2.Digest, d2.Size, d2.Annotations[keyDigest]), where)
		case tr && it.dir:
			r.cnt("reproducible_descriptor_pairs_equal", 1)
		case !tr && it.dir && !same:
			r.cnt("plain_tar_descriptor_changes_with_timestamps", 1)
		}
	}
	src2.Close()

	man, err := oras.PackManifest(ctx, src, oras.PackManifestVersion1_1, "application/vnd.c12.test", oras.PackManifestOptions{
		Layers:              descs,
		ManifestAnnotations: map[string]string{"org.opencontainers.image.created": "2000-01-01T00:00:00Z"},
	})
	if err != nil {
		r.fail(fail("PackManifest over the added descriptors failed: "+errWords(err), "%s", r.scrub(err)), where)
		return
	}
	if err := src.Tag(ctx, man, "v1"); err != nil {
		r.fail(fail("Tag of the packed manifest failed: "+errWords(err), "%s", r.scrub(err)), where)
		return
	}

	for _, mk := range mids {
		mid, reg, cleanup := newMid(mk)
		w := where + " intermediate=" + mk
		if _, err := oras.Copy(ctx, src, "v1", mid, "v1", copyOpts); err != nil {
			r.fail(fail("Copy from the adding file store to the intermediate "+mk+" store failed: "+errWords(err), "%s", r.scrub(err)), w)
			cleanup()
			continue
		}
		for _, o := range allDstOpts() {
			r.evalFinal(tr, mk, mid, man, descs, blobs, o)
		}
		if reg != nil && len(reg.Rejects) > 0 {
			r.cnt("registry_model_rejections", int64(len(reg.Rejects)))
		}
		cleanup()
	}

	// a wrong recorded uncompressed digest must make the unpack fail
	for k, it := range items {
		if !it.dir {
			continue
		}
		for _, o := range allDstOpts() {
			if o.skip || o.cas || o.ign {
				continue
			}
			for _, v := range []struct{ name, val string }{
				{"digest of the empty string", sha(nil)},
				{"digest of the compressed bytes", string(descs[k].Digest)},
			} {
				wd := filepath.Join(r.base, "wrong")
				hmust(os.Mkdir(wd, 0o777))
				st, err := file.New(wd)
				hmust(err)
				st.PreservePermissions, st.ForceCAS, st.IgnoreNoName = o.preserve, o.cas, o.ign
				bad := descs[k]
				bad.Annotations = map[string]string{}
				for a, b := range descs[k].Annotations {
					bad.Annotations[a] = b
				}
				bad.Annotations[keyDigest] = v.val
				err = st.Push(ctx, bad, bytes.NewReader(blobs[k]))
				r.cnt("wrong_digest_pushes", 1)
				if err == nil {
					r.fail(fail("unpack succeeded although the recorded uncompressed digest is wrong ("+v.name+")", "annotation %s", v.val), where+" "+o.String())
				}
				st.Close()
				hmust(os.RemoveAll(wd))
			}
		}
	}
}

func (r *run) evalFinal(tr bool, mk string, mid oras.Target, man ocispec.Descriptor, descs []ocispec.Descriptor, blobs [][]byte, o dstOpt) {
	ctx := context.Background()
	items := r.cs.items
	where := fmt.Sprintf("TarReproducible=%v intermediate=%s %s", tr, mk, o)
	dstwd := filepath.Join(r.base, "dst")
	hmust(os.Mkdir(dstwd, 0o777))
	defer func() { hmust(os.RemoveAll(dstwd)) }()
	dst, err := file.New(dstwd)
	hmust(err)
	defer dst.Close()
	dst.PreservePermissions, dst.SkipUnpack, dst.ForceCAS, dst.IgnoreNoName = o.preserve, o.skip, o.cas, o.ign
	if r.count {
		r.c.Evals++
	}
	if o.ign {
		err = oras.CopyGraph(ctx, mid, dst, man, copyOpts.CopyGraphOptions)
	} else {
		_, err = oras.Copy(ctx, mid, "v1", dst, "v1", copyOpts)
	}
	if err != nil {
		r.fail(fail("Copy from the intermediate store into the second file store failed: "+errWords(err), "%s", r.scrub(err)), where)
		return
	}
	present := make([]bool, len(items))
	for k, it := range items {
		p := filepath.Join(dstwd, filepath.FromSlash(it.name))
		if it.dir && !o.skip {
			present[k] = true
			r.fail(compareTree(p, it, o.preserve, r.umask), where)
			continue
		}
		fi, err := os.Lstat(p)
		if err != nil {
			continue // judged below, together with the names sharing its bytes
		}
		present[k] = true
		what := "file"
		if it.dir {
			what = "SkipUnpack archive"
		}
		if !fi.Mode().IsRegular() {
			r.fail(fail("restored "+what+" is not a regular file", "%s: %v", short(it.name), fi.Mode()), where)
			continue
		}
		b, err := os.ReadFile(p)
		hmust(err)
		if !bytes.Equal(b, blobs[k]) || sha(b) != string(descs[k].Digest) || int64(len(b)) != descs[k].Size {
			r.fail(fail("restored "+what+" does not hold the descriptor's bytes", "%s: descriptor %s %d, on disk %s %d", short(it.name), descs[k].Digest, descs[k].Size, sha(b), len(b)), where)
		}
	}
	nPresent := 0
	for k, it := range items {
		if present[k] {
			nPresent++
			continue
		}
		twins, twinPresent := 0, false
		for j, ot := range items {
			if j != k && !it.dir && !ot.dir && bytes.Equal(ot.data, it.data) {
				twins++
				twinPresent = twinPresent || present[j]
			}
		}
		switch {
		case twins == 0:
			r.fail(fail("added "+itemClass(it)+" is not restored under its name", "%s", short(it.name)), where)
		case !o.cas:
			r.fail(fail(fmt.Sprintf("blob sharing its bytes with another name does not materialise under its own name (ForceCAS=false, IgnoreNoName=%v)", o.ign), "%s is missing", short(it.name)), where)
		case !twinPresent:
			r.fail(fail("ForceCAS: none of the names sharing the same bytes materialises", "%s", short(it.name)), where)
		default:
			r.cnt("forcecas_deduplicated_names", 1)
		}
	}
	if r.count {
		r.c.Outcome(driver.Hash(r.cs.family, fmt.Sprint(o.skip, o.preserve, o.cas, o.ign), fmt.Sprint(len(items), nPresent)))
		if len(r.fails) == 0 && r.cs.nontrivial() && !tr && mk == "oci" && o == (dstOpt{}) {
			r.c.Sample(fmt.Sprintf("%s | %s | restored %d/%d names; tree below the added name equal to the source (umask %04o)", r.cs.describe(), where, nPresent, len(items), r.umask))
		}
	}
}
