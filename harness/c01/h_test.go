package c01

import (
	"context"
	"fmt"
	"strings"
	"sync"
	"testing"

	ocispec "github.com/opencontainers/image-spec/specs-go/v1"
	oras "oras.land/oras-go/v2"
	"oras.land/oras-go/v2/content"
	. "oras.land/oras-go/v2/internal/zzverif/common"
	"verif.local/engine/driver"
	"verif.local/engine/explore"
	"verif.local/engine/vs"
)

func TestVerif(t *testing.T) {
	driver.Main(t, driver.Harness{
		ID:    "C01",
		Level: "model_checking",
		Rule: "(a) every DAG of the exhaustive family U(n) x every root x every link-closed destination subset x Concurrency x API variant under the default schedule; " +
			"(b) every curated collision shape (plus 'urls-layer': an ordinary layer whose descriptor lists mirror URLs next to a foreign layer; 'index-with-blob': an index that lists a non-manifest entry next to a manifest) x pre-population x Concurrency under every schedule within the deviation bound of three base schedulers, " +
			"including Copy with the root named by its digest and a blank destination reference (MapRoot / target platform), CopyGraph into a destination that can mount blobs (mounted or copied after all is an input choice per blob and candidate repository; candidate lists: none, one, two, one twice, one and a blank), Copy with MapRoot / target-platform selection, and Copy into a destination that already holds the graph and whose destination reference already names another manifest of it (the unmapped root, or a manifest below the root); " +
			"(c') an index over two manifests whose layers carry the same title and different bytes, into memory, OCI and file destinations (the file store may refuse; success is judged); (c) curated shapes x ordered pairs of store kinds (memory, OCI layout, file, remote via Referrers API, remote via tag schema). Oracle: generator's own edge list. " +
			"non-trivial = distinct (shape, root, pre-population, variant) scenario in which at least one node was actually transferred",
		Assumptions: []string{
			"DAG universe bounded by the grammar in harness/common/dag.go (U(4) quick, U(5) thorough) plus the curated family",
			"schedules within the stated deviation bound; interleavings at sync/atomic/channel/file-system operation granularity",
			"remote endpoints are a Repository over the in-process registry model (with and without the Referrers API)",
		},
		Jobs:           jobs,
		BudgetQuick:    200,
		BudgetThorough: 1500,
	})
}

type scen struct {
	d        *DAG
	root     int
	prepop   []int
	conc     int
	api      string // graph | copy | copyref | maproot | platform
	src, dst string // store kinds
	pretag   int    // 1+id of the node the destination reference points at before the call (0: not tagged)
	mayFail  bool   // the destination may legitimately refuse the graph: only a reported success is judged
	byDigest bool   // the source reference is the root's digest string (and the destination reference is left blank)
	racing   bool   // a second writer may store a node between this copy's Exists and Push (World.Racing)
}

// family is the curated family plus the shapes only this harness adds.
func family() []*DAG { return append(Curated(), Extra("urls-layer"), Extra("index-with-blob")) }

func (s scen) name() string {
	nm := fmt.Sprintf("%s/root=%s/prep=%v/conc=%d/%s/%s->%s", s.d.Name, s.d.Nodes[s.root].Name, s.prepop, s.conc, s.api, s.src, s.dst)
	if s.pretag > 0 {
		nm += "/dst-ref-was=" + s.d.Nodes[s.pretag-1].Name
	}
	if s.byDigest {
		nm += "/source-reference-is-a-digest"
	}
	if s.racing {
		nm += "/racing-writer"
	}
	return nm
}

var (
	uniMu sync.Mutex
	uni   = map[int][]*DAG{}
)

func universe(n int) []*DAG {
	uniMu.Lock()
	defer uniMu.Unlock()
	if uni[n] == nil {
		uni[n] = Universe(n)
	}
	return uni[n]
}

func jobs(tier string) []driver.Job {
	var out []driver.Job
	th := tier == "thorough"
	// (a) shape sweep
	n, nshard := 4, 64
	if th {
		n, nshard = 5, 256
	}
	for sh := 0; sh < nshard; sh++ {
		sh := sh
		out = append(out, driver.Job{Name: fmt.Sprintf("sweep/U%d/shard%d.%d", n, sh, nshard), Run: func(c *driver.Ctx) {
			for i, d := range universe(n) {
				if i%nshard != sh {
					continue
				}
				if c.Expired() {
					c.Capped = true
					return
				}
				for root := range d.Nodes {
					for _, prep := range d.DownSets(root) {
						variants := []struct {
							conc int
							api  string
						}{{2, "graph"}}
						if !th {
							variants = append(variants, []struct {
								conc int
								api  string
							}{{1, "graph"}, {3, "copy"}, {2, "copyref"}}...)
						}
						for _, v := range variants {
							if v.api != "graph" && !d.Nodes[root].Kind.IsManifest() && false {
								continue
							}
							s := scen{d: d, root: root, prepop: prep, conc: v.conc, api: v.api, src: "memory", dst: "memory"}
							run(c, s, explore.Bounds{}, []int{0})
						}
					}
				}
			}
		}})
	}
	// (b) schedule sweep over the curated family
	D := 2
	for _, d := range family() {
		root := len(d.Nodes) - 1
		clo := d.Closure(root, true)
		preps := [][]int{nil, clo}
		for _, s := range d.DownSets(root) {
			if len(s) == 1 {
				preps = append(preps, s)
				break
			}
		}
		for _, prep := range preps {
			for _, conc := range []int{1, 2} {
				for _, api := range []string{"graph", "copy"} {
					s := scen{d: d, root: root, prepop: prep, conc: conc, api: api, src: "memory", dst: "memory"}
					heavy := len(prep) == 0 && conc == 2
					switch {
					case heavy && th:
						for sh := 0; sh < 16; sh++ {
							out = append(out, schedJob(s, explore.Bounds{Dev: 3}, []int{0}, sh, 16))
						}
						out = append(out, schedJob(s, explore.Bounds{Dev: D}, []int{1}, 0, 1), schedJob(s, explore.Bounds{Dev: D}, []int{2}, 0, 1))
					case heavy:
						for sh := 0; sh < 4; sh++ {
							out = append(out, schedJob(s, explore.Bounds{Dev: D}, []int{0, 1, 2}, sh, 4))
						}
					case th:
						out = append(out, schedJob(s, explore.Bounds{Dev: 2}, []int{0, 1, 2}, 0, 1))
					default:
						out = append(out, schedJob(s, explore.Bounds{Dev: 1}, []int{0, 1, 2}, 0, 1))
					}
				}
			}
		}
		// the destination reference already points at another manifest of the (fully present) graph
		for _, x := range clo {
			if x != root && d.Nodes[x].Kind.IsManifest() {
				s := scen{d: d, root: root, prepop: clo, conc: 2, api: "copy", src: "memory", dst: "memory", pretag: x + 1}
				out = append(out, schedJob(s, explore.Bounds{Dev: 1}, []int{0}, 0, 1))
			}
		}
		// root mapping variants
		if d.Name == "platform" || d.Name == "diamond" || d.Name == "nested-index" {
			for _, api := range []string{"maproot", "platform"} {
				for _, prep := range preps[:2] {
					for r := range d.Nodes {
						if !d.Nodes[r].Kind.IsManifest() {
							continue
						}
						s := scen{d: d, root: r, prepop: prep, conc: 2, api: api, src: "memory", dst: "memory"}
						if len(prep) > 0 {
							s.prepop = d.Closure(r, true)
						}
						out = append(out, schedJob(s, explore.Bounds{Dev: 1}, []int{0}, 0, 1))
						// the same with the root named by its digest and the destination reference left blank
						sd := s
						sd.byDigest = true
						out = append(out, schedJob(sd, explore.Bounds{Dev: 1}, []int{0}, 0, 1))
						if len(prep) > 0 {
							// the destination reference already names the unmapped root, or another manifest below it
							s.pretag = r + 1
							out = append(out, schedJob(s, explore.Bounds{Dev: 1}, []int{0}, 0, 1))
							for _, x := range s.prepop {
								if x != r && d.Nodes[x].Kind.IsManifest() {
									s.pretag = x + 1
									out = append(out, schedJob(s, explore.Bounds{Dev: 1}, []int{0}, 0, 1))
								}
							}
						}
					}
				}
			}
		}
	}
	// (b'') the destination can mount blobs from other repositories (registry.Mounter): whether a blob is
	// mounted or copied after all is an input choice per blob and candidate; success still means a complete copy
	for _, d := range family() {
		if d.Name != "diamond" && d.Name != "two-mediatypes" && d.Name != "urls-layer" {
			continue
		}
		for k := range MountCandidates {
			s := scen{d: d, root: len(d.Nodes) - 1, conc: 2, api: fmt.Sprintf("graph-mount%d", k), src: "memory", dst: "memory"}
			out = append(out, schedJob(s, explore.Bounds{Dev: 1}, []int{0}, 0, 1))
		}
	}
	// (b-racing) a second writer stores nodes (the root included) between this copy's Exists and Push: Copy still
	// leaves the destination reference resolving to the root
	for _, d := range family() {
		if d.Name != "diamond" && d.Name != "dup-layer" {
			continue
		}
		s := scen{d: d, root: len(d.Nodes) - 1, conc: 2, api: "copy", src: "memory", dst: "memory", racing: true}
		out = append(out, schedJob(s, explore.Bounds{Dev: 1}, []int{0}, 0, 1))
	}
	// (b') a context that is already cancelled, or cancelled while the root is resolved/mapped:
	// whatever the call returns, success must still mean a complete copy
	for _, d := range family() {
		root := len(d.Nodes) - 1
		for _, api := range []string{"graph-cancelled", "copy-cancelled", "copy-cancel-in-resolve", "copy-cancel-in-maproot"} {
			s := scen{d: d, root: root, conc: 2, api: api, src: "memory", dst: "memory"}
			out = append(out, schedJob(s, explore.Bounds{Dev: 1}, []int{0}, 0, 1))
		}
	}
	// (c') two layers with the same file name and different bytes: a file store cannot hold both and may
	// refuse the copy, but a reported success still means that every node arrived
	for _, dk := range []string{"memory", "oci", "file"} {
		for _, api := range []string{"graph", "copy"} {
			d := Extra("same-title")
			for _, conc := range []int{1, 2} {
				s := scen{d: d, root: len(d.Nodes) - 1, conc: conc, api: api, src: "memory", dst: dk, mayFail: dk == "file"}
				out = append(out, schedJob(s, explore.Bounds{Dev: 1}, []int{0}, 0, 1))
			}
		}
	}
	// (c) pairing sweep
	kinds := []string{"memory", "oci", "file", "remote-api", "remote-tags"}
	for _, d := range family() {
		root := len(d.Nodes) - 1
		for _, sk := range kinds {
			for _, dk := range kinds {
				if sk == "memory" && dk == "memory" {
					continue
				}
				for _, api := range []string{"graph", "copy"} {
					s := scen{d: d, root: root, conc: 2, api: api, src: sk, dst: dk}
					dev := 0
					if th || d.Name == "diamond" {
						dev = 1
					}
					out = append(out, schedJob(s, explore.Bounds{Dev: dev}, []int{0}, 0, 1))
				}
			}
		}
	}
	return out
}

func schedJob(s scen, b explore.Bounds, bases []int, sh, nsh int) driver.Job {
	name := fmt.Sprintf("sched/%s/%v/bases%v/shard%d.%d", s.name(), b, bases, sh, nsh)
	return driver.Job{Name: name, Run: func(c *driver.Ctx) {
		runSharded(c, s, b, bases, sh, nsh, name)
	}}
}

func run(c *driver.Ctx, s scen, b explore.Bounds, bases []int) {
	runSharded(c, s, b, bases, 0, 1, s.name())
}

func runSharded(c *driver.Ctx, s scen, b explore.Bounds, bases []int, sh, nsh int, name string) {
	transferred := false
	c.Explore(driver.Scenario{
		Name: name, Bases: bases, Bounds: b, Shard: sh, NShard: nsh,
		Make: func() (func(), func(*vs.Result) *driver.Fail) { return s.make(&transferred) },
	})
	if transferred {
		c.Nontriv(driver.Hash(s.name()))
	}
}

func (s scen) make(transferred *bool) (func(), func(*vs.Result) *driver.Fail) {
	d := s.d
	w := NewWorld(d, 0)
	srcS, cleanS := NewStore(s.src)
	dstS, cleanD := NewStore(s.dst)
	all := make([]int, len(d.Nodes))
	for i := range all {
		all[i] = i
	}
	if err := Populate(srcS, d, all); err != nil {
		panic(err)
	}
	if err := Populate(dstS, d, s.prepop); err != nil {
		panic(err)
	}
	rootDesc := d.Nodes[s.root].Desc
	if err := srcS.Tag(context.Background(), rootDesc, "ref"); err != nil {
		panic(err)
	}
	if s.pretag > 0 {
		if err := dstS.Tag(context.Background(), d.Nodes[s.pretag-1].Desc, "ref"); err != nil {
			panic(err)
		}
	}
	var src oras.ReadOnlyGraphTarget = &SrcTarget{Src: Src{W: w, Inner: srcS}, R: srcS, P: srcS}
	var dst oras.Target = &Dst{W: w, Inner: dstS}
	if strings.HasPrefix(s.src, "remote") || strings.HasPrefix(s.dst, "remote") {
		// hand the real stores to Copy so that the reference-fetch / reference-push
		// shortcuts of registry targets are taken; the final-state oracle still applies
		src, dst = srcS, dstS
	}
	opts := oras.CopyOptions{CopyGraphOptions: oras.CopyGraphOptions{Concurrency: s.conc}}
	w.Racing = s.racing
	var mountEvents []string
	if strings.HasPrefix(s.api, "graph-mount") {
		k := int(s.api[len("graph-mount")] - '0')
		dst = &MountDst{Dst: Dst{W: w, Inner: dstS}, Mounted: map[int]int{}, Events: &mountEvents}
		opts.MountFrom = func(ctx context.Context, desc ocispec.Descriptor) ([]string, error) { return MountCandidates[k], nil }
	}
	wantRoot := s.root
	dstRef := "ref"
	srcRef := "ref"
	if s.byDigest {
		srcRef = rootDesc.Digest.String()
		dstRef = srcRef
		if err := srcS.Tag(context.Background(), rootDesc, srcRef); err != nil {
			panic(err)
		}
	}
	expectErr := false
	switch s.api {
	case "copyref":
		dstRef = "other"
	case "maproot":
		// identity mapping through the proxy handed to MapRoot
		opts.MapRoot = func(ctx context.Context, st content.ReadOnlyStorage, root ocispec.Descriptor) (ocispec.Descriptor, error) {
			return root, nil
		}
	case "platform":
		opts.WithTargetPlatform(&ocispec.Platform{Architecture: "arm64", OS: "linux"})
		wantRoot = -1
		n := d.Nodes[s.root]
		switch {
		case n.Kind == KIndex || n.Kind == KDockerList:
			expectErr = true
			for _, m := range n.Succ {
				if d.Nodes[m].Kind == KManifest && strings.Contains(string(d.Nodes[d.Nodes[m].Succ[0]].Bytes), "arm64") && n.Subject != m {
					wantRoot, expectErr = m, false
					break
				}
			}
			if d.Name != "platform" {
				expectErr = true
				wantRoot = -1
			}
		case n.Kind == KManifest:
			cfg := d.Nodes[n.Succ[indexOfConfig(n)]]
			if strings.Contains(string(cfg.Bytes), "arm64") {
				wantRoot = s.root
			} else {
				expectErr = true
			}
		default:
			expectErr = true
		}
	}
	var err error
	var got ocispec.Descriptor
	ctx, cancel := context.WithCancel(context.Background())
	cancelled := strings.Contains(s.api, "cancel")
	switch s.api {
	case "graph-cancelled", "copy-cancelled":
		cancel()
	case "copy-cancel-in-resolve":
		src.(*SrcTarget).R = resolverFunc(func(c context.Context, ref string) (ocispec.Descriptor, error) {
			cancel()
			return srcS.Resolve(c, ref)
		})
	case "copy-cancel-in-maproot":
		opts.MapRoot = func(c context.Context, st content.ReadOnlyStorage, root ocispec.Descriptor) (ocispec.Descriptor, error) {
			cancel()
			return root, nil
		}
	}
	body := func() {
		defer cancel()
		if s.api == "graph-cancelled" {
			err = oras.CopyGraph(ctx, src, dst, rootDesc, opts.CopyGraphOptions)
		} else if cancelled {
			got, err = oras.Copy(ctx, src, "ref", dst, "", opts)
		} else if s.api == "graph" || strings.HasPrefix(s.api, "graph-mount") {
			err = oras.CopyGraph(context.Background(), src, dst, rootDesc, opts.CopyGraphOptions)
		} else {
			got, err = oras.Copy(context.Background(), src, srcRef, dst, map[bool]string{true: "other", false: ""}[s.api == "copyref"], opts)
		}
	}
	check := func(res *vs.Result) *driver.Fail {
		defer cleanS()
		defer cleanD()
		if f := driver.StdFail(res); f != nil {
			return f
		}
		if len(w.Fails) > 0 {
			return &driver.Fail{Sig: "closure monitor", Detail: strings.Join(w.Fails, "\n")}
		}
		if expectErr {
			if err == nil {
				return &driver.Fail{Sig: "platform selection succeeded without a matching manifest", Detail: s.name()}
			}
			return nil
		}
		if err != nil && (cancelled || s.mayFail) {
			return nil // a cancelled call may fail, and so may one whose destination cannot hold the graph; only a reported success is judged
		}
		if err != nil {
			return &driver.Fail{Sig: "fault-free copy failed", Detail: s.name() + ": " + err.Error()}
		}
		for _, n := range w.PushDone {
			if n > 0 {
				*transferred = true
			}
		}
		want := d.Closure(wantRoot, true)
		if bad := CheckCopied(dstS, d, want); bad != "" {
			return &driver.Fail{Sig: "success but a reachable node is missing or differs in the destination", Detail: s.name() + ": " + bad}
		}
		if s.api != "graph" && s.api != "graph-cancelled" && !strings.HasPrefix(s.api, "graph-mount") {
			wr := d.Nodes[wantRoot].Desc
			if got.Digest != wr.Digest || got.Size != wr.Size || got.MediaType != wr.MediaType {
				return &driver.Fail{Sig: "Copy returned a descriptor that is not the (mapped) root", Detail: fmt.Sprintf("%s: got %v want %v", s.name(), got, wr)}
			}
			r, rerr := dstS.Resolve(context.Background(), dstRef)
			if rerr != nil {
				return &driver.Fail{Sig: "destination reference does not resolve after Copy", Detail: s.name() + ": " + rerr.Error()}
			}
			if r.Digest != got.Digest || r.Size != got.Size || r.MediaType != got.MediaType {
				return &driver.Fail{Sig: "destination reference resolves to a different descriptor than Copy returned", Detail: fmt.Sprintf("%s: resolve %v returned %v", s.name(), r, got)}
			}
		}
		return nil
	}
	return body, check
}

func indexOfConfig(n *Node) int {
	if n.Subject >= 0 {
		return 1
	}
	return 0
}

type resolverFunc func(ctx context.Context, ref string) (ocispec.Descriptor, error)

func (f resolverFunc) Resolve(ctx context.Context, ref string) (ocispec.Descriptor, error) {
	return f(ctx, ref)
}
