#!/bin/bash
# Builds the framework offline from files on disk only and warms the build cache.
set -e
V=$(cd "$(dirname "$0")" && pwd)
export GOFLAGS=-mod=mod GOPROXY=off GOSUMDB=off GOTOOLCHAIN=local
export GOCACHE=$V/.gocache
mkdir -p "$V/bin" "$V/evidence" "$V/replays"
( cd "$V/tools/rewriter" && go1.26.8 build -o "$V/bin/rewriter" . )
( cd "$V/engine" && go1.26.8 build ./... )
# warm the cache: std + oras-go deps for the test build
( cd /repo && go1.26.8 build ./... ) || true
echo setup ok
