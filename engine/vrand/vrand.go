package vrand

import "math/rand/v2"

type Source = rand.Source
type PCG = rand.PCG

func NewPCG(a, b uint64) *PCG { return rand.NewPCG(a, b) }

type Rand struct{ r *rand.Rand }

func New(src Source) *Rand { return &Rand{rand.New(src)} }

// Int64N panics like the real one for n <= 0; the value is the low extreme
// (exploration of the high extreme hooks in here).
func (r *Rand) Int64N(n int64) int64 {
	if n <= 0 {
		panic("invalid argument to Int64N")
	}
	return 0
}
