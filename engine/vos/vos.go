// Package vos mirrors the subset of package os used by the instrumented
// packages. Every mutating call goes through hook() (scheduling point, op log,
// crash/fault plan) before being delegated to the real os.
package vos

import (
	"fmt"
	"io"
	"io/fs"
	"os"
	"path/filepath"
	"sync"
	"syscall"
	"time"

	"verif.local/engine/vs"
)

type (
	FileInfo  = os.FileInfo
	FileMode  = os.FileMode
	DirEntry  = os.DirEntry
	PathError = os.PathError
	LinkError = os.LinkError
)

const (
	O_RDONLY = os.O_RDONLY
	O_WRONLY = os.O_WRONLY
	O_RDWR   = os.O_RDWR
	O_APPEND = os.O_APPEND
	O_CREATE = os.O_CREATE
	O_EXCL   = os.O_EXCL
	O_SYNC   = os.O_SYNC
	O_TRUNC  = os.O_TRUNC

	ModeDir     = os.ModeDir
	ModeSymlink = os.ModeSymlink
	ModePerm    = os.ModePerm
	ModeType    = os.ModeType
)

var (
	ErrNotExist   = os.ErrNotExist
	ErrExist      = os.ErrExist
	ErrPermission = os.ErrPermission
	ErrInvalid    = os.ErrInvalid
)

// Op is one logged file-system operation.
type Op struct {
	Kind     string
	Path     string
	Path2    string
	Mutating bool
}

// Plan controls crash / fault / budget behaviour. A nil plan is pass-through.
type Plan struct {
	mu      sync.Mutex
	Log     []Op
	KeepLog bool
	CrashAt int // freeze the disk before the k-th mutating op (1-based); 0 = never
	FailAt  int // the k-th op (1-based, mutating or not) fails once with EIO; 0 = never
	Frozen  bool
	NMut    int // mutating ops seen so far
	NOps    int // ops seen so far
	Budget  int // max ops since the last ResetBudget; 0 = unlimited
	since   int
}

var current *Plan
var planMu sync.Mutex

func SetPlan(p *Plan) { planMu.Lock(); current = p; planMu.Unlock() }
func getPlan() *Plan  { planMu.Lock(); defer planMu.Unlock(); return current }

// ResetBudget starts a new budget window (call before each API call under test).
func (p *Plan) ResetBudget() { p.mu.Lock(); p.since = 0; p.mu.Unlock() }

// BudgetExceeded is the panic value raised when one API call issues more
// file-system operations than the plan allows: the wall-clock-free livelock verdict.
type BudgetExceeded struct{ N int }

func (b BudgetExceeded) Error() string {
	return fmt.Sprintf("vos: operation budget exceeded (%d file-system operations inside one call)", b.N)
}

// hook returns a non-nil error when the disk is frozen (crash mode) or the op is chosen to fail.
func hook(kind, path, path2 string, mutating bool) error {
	vs.Pt("fs:" + kind)
	p := getPlan()
	if p == nil {
		return nil
	}
	p.mu.Lock()
	defer p.mu.Unlock()
	p.since++
	if p.Budget > 0 && p.since > p.Budget {
		panic(BudgetExceeded{p.since})
	}
	p.NOps++
	if mutating && !p.Frozen {
		p.NMut++
		if p.CrashAt > 0 && p.NMut == p.CrashAt {
			p.Frozen = true
		}
	}
	if p.Frozen {
		return &os.PathError{Op: kind, Path: path, Err: syscall.EIO}
	}
	if p.FailAt > 0 && p.NOps == p.FailAt {
		return &os.PathError{Op: kind, Path: path, Err: syscall.EIO}
	}
	if p.KeepLog {
		p.Log = append(p.Log, Op{kind, path, path2, mutating})
	}
	return nil
}

// ---- File wrapper

type File struct{ f *os.File }

func wrap(f *os.File, err error) (*File, error) {
	if err != nil {
		return nil, err
	}
	return &File{f}, nil
}

func (f *File) Name() string                            { return f.f.Name() }
func (f *File) Read(p []byte) (int, error)              { return f.f.Read(p) }
func (f *File) ReadAt(p []byte, off int64) (int, error) { return f.f.ReadAt(p, off) }
func (f *File) Seek(off int64, wh int) (int64, error)   { return f.f.Seek(off, wh) }
func (f *File) Stat() (FileInfo, error)                 { return f.f.Stat() }
func (f *File) ReadDir(n int) ([]DirEntry, error)       { return f.f.ReadDir(n) }
func (f *File) Fd() uintptr                             { return f.f.Fd() }
func (f *File) Write(p []byte) (int, error) {
	if err := hook("write", f.f.Name(), "", true); err != nil {
		return 0, err
	}
	return f.f.Write(p)
}
func (f *File) WriteString(s string) (int, error) { return f.Write([]byte(s)) }

// ReadFrom hides os.File's fast paths so that every buffer fill is one write op.
func (f *File) ReadFrom(r io.Reader) (int64, error) {
	return io.Copy(struct{ io.Writer }{f}, r)
}
func (f *File) Close() error {
	if err := hook("close", f.f.Name(), "", false); err != nil {
		f.f.Close()
		return err
	}
	return f.f.Close()
}
func (f *File) Chmod(m FileMode) error {
	if err := hook("fchmod", f.f.Name(), "", true); err != nil {
		return err
	}
	return f.f.Chmod(m)
}
func (f *File) Sync() error {
	if err := hook("fsync", f.f.Name(), "", false); err != nil {
		return err
	}
	return f.f.Sync()
}
func (f *File) Truncate(n int64) error {
	if err := hook("ftruncate", f.f.Name(), "", true); err != nil {
		return err
	}
	return f.f.Truncate(n)
}

// ---- functions

func Open(name string) (*File, error) {
	if err := hook("open", name, "", false); err != nil {
		return nil, err
	}
	return wrap(os.Open(name))
}
func OpenFile(name string, flag int, perm FileMode) (*File, error) {
	mut := flag&(O_CREATE|O_TRUNC|O_WRONLY|O_RDWR|O_APPEND) != 0
	if err := hook("openat", name, "", mut); err != nil {
		return nil, err
	}
	return wrap(os.OpenFile(name, flag, perm))
}
func Create(name string) (*File, error) { return OpenFile(name, O_RDWR|O_CREATE|O_TRUNC, 0666) }
func CreateTemp(dir, pattern string) (*File, error) {
	if err := hook("openat", filepath.Join(dir, pattern), "", true); err != nil {
		return nil, err
	}
	return wrap(os.CreateTemp(dir, pattern))
}
func MkdirTemp(dir, pattern string) (string, error) {
	if err := hook("mkdir", filepath.Join(dir, pattern), "", true); err != nil {
		return "", err
	}
	return os.MkdirTemp(dir, pattern)
}
func Mkdir(name string, perm FileMode) error {
	if err := hook("mkdir", name, "", true); err != nil {
		return err
	}
	return os.Mkdir(name, perm)
}

// MkdirAll issues one mkdir op per missing component, like the real one.
func MkdirAll(path string, perm FileMode) error {
	if fi, err := os.Stat(path); err == nil {
		if fi.IsDir() {
			return nil
		}
		return &os.PathError{Op: "mkdir", Path: path, Err: syscall.ENOTDIR}
	}
	parent := filepath.Dir(path)
	if parent != path {
		if err := MkdirAll(parent, perm); err != nil {
			return err
		}
	}
	if err := Mkdir(path, perm); err != nil {
		if fi, e2 := os.Lstat(path); e2 == nil && fi.IsDir() {
			return nil
		}
		return err
	}
	return nil
}
func WriteFile(name string, data []byte, perm FileMode) error {
	f, err := OpenFile(name, O_WRONLY|O_CREATE|O_TRUNC, perm)
	if err != nil {
		return err
	}
	_, err = f.Write(data)
	if e := f.Close(); e != nil && err == nil {
		err = e
	}
	return err
}
func ReadFile(name string) ([]byte, error) {
	if err := hook("open", name, "", false); err != nil {
		return nil, err
	}
	return os.ReadFile(name)
}
func Rename(a, b string) error {
	if err := hook("rename", a, b, true); err != nil {
		return err
	}
	return os.Rename(a, b)
}

// Remove issues what os.Remove issues: unlink, and when that fails (missing
// file, or a directory) a second attempt with rmdir.
func Remove(name string) error {
	if err := hook("unlink", name, "", true); err != nil {
		return err
	}
	if fi, err := os.Lstat(name); err != nil || fi.IsDir() {
		if err := hook("unlink", name, "", true); err != nil {
			return err
		}
	}
	return os.Remove(name)
}
func RemoveAll(name string) error {
	if err := hook("unlinkall", name, "", true); err != nil {
		return err
	}
	return os.RemoveAll(name)
}
func Chmod(name string, m FileMode) error {
	if err := hook("chmod", name, "", true); err != nil {
		return err
	}
	return os.Chmod(name, m)
}
func Chtimes(name string, a, m time.Time) error {
	if err := hook("utimes", name, "", true); err != nil {
		return err
	}
	return os.Chtimes(name, a, m)
}
func Link(a, b string) error {
	if err := hook("link", a, b, true); err != nil {
		return err
	}
	return os.Link(a, b)
}
func Symlink(a, b string) error {
	if err := hook("symlink", a, b, true); err != nil {
		return err
	}
	return os.Symlink(a, b)
}
func Readlink(name string) (string, error) { return os.Readlink(name) }
func Stat(name string) (FileInfo, error) {
	if err := hook("stat", name, "", false); err != nil {
		return nil, err
	}
	return os.Stat(name)
}
func Lstat(name string) (FileInfo, error) {
	if err := hook("lstat", name, "", false); err != nil {
		return nil, err
	}
	return os.Lstat(name)
}
func ReadDir(name string) ([]DirEntry, error) {
	if err := hook("readdir", name, "", false); err != nil {
		return nil, err
	}
	return os.ReadDir(name)
}
func IsNotExist(err error) bool    { return os.IsNotExist(err) }
func IsExist(err error) bool       { return os.IsExist(err) }
func IsPermission(err error) bool  { return os.IsPermission(err) }
func Getwd() (string, error)       { return os.Getwd() }
func Getenv(k string) string       { return os.Getenv(k) }
func UserHomeDir() (string, error) { return os.UserHomeDir() }
func TempDir() string              { return os.TempDir() }

// DirFS wraps os.DirFS so that reads are scheduling points too.
type dirFS struct {
	root string
	fsys fs.FS
}

func DirFS(dir string) fs.FS { return &dirFS{dir, os.DirFS(dir)} }
func (d *dirFS) Open(name string) (fs.File, error) {
	if err := hook("open", filepath.Join(d.root, name), "", false); err != nil {
		return nil, err
	}
	return d.fsys.Open(name)
}
func (d *dirFS) Stat(name string) (fs.FileInfo, error) {
	if err := hook("stat", filepath.Join(d.root, name), "", false); err != nil {
		return nil, err
	}
	return fs.Stat(d.fsys, name)
}
