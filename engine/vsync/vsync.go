package vsync

import (
	"sync"
	"sync/atomic"

	"verif.local/engine/vs"
)

type Locker = sync.Locker

// passthrough reports whether the caller is not a controlled goroutine.
// In that case shims fall back to real primitives.

type Mutex struct {
	real sync.Mutex
	held atomic.Bool
	id   int32
}

func (m *Mutex) Lock() {
	if !vs.Controlled() {
		m.real.Lock()
		m.held.Store(true)
		return
	}
	vs.PointE("lock", func() bool { return !m.held.Load() })
	m.real.Lock()
	m.held.Store(true)
}
func (m *Mutex) Unlock() {
	vs.Pt("unlock")
	m.held.Store(false)
	m.real.Unlock()
}
func (m *Mutex) TryLock() bool {
	vs.Pt("trylock")
	if m.real.TryLock() {
		m.held.Store(true)
		return true
	}
	return false
}

type RWMutex struct {
	real    sync.RWMutex
	w       atomic.Bool
	readers atomic.Int32
	id      int32
}

func (m *RWMutex) Lock() {
	if vs.Controlled() {
		vs.PointE("wlock", func() bool { return !m.w.Load() && m.readers.Load() == 0 })
	}
	m.real.Lock()
	m.w.Store(true)
}
func (m *RWMutex) Unlock() { vs.Pt("wunlock"); m.w.Store(false); m.real.Unlock() }
func (m *RWMutex) RLock() {
	if vs.Controlled() {
		vs.PointE("rlock", func() bool { return !m.w.Load() })
	}
	m.real.RLock()
	m.readers.Add(1)
}
func (m *RWMutex) RUnlock()        { vs.Pt("runlock"); m.readers.Add(-1); m.real.RUnlock() }
func (m *RWMutex) RLocker() Locker { return (*rlocker)(m) }

type rlocker RWMutex

func (r *rlocker) Lock()   { (*RWMutex)(r).RLock() }
func (r *rlocker) Unlock() { (*RWMutex)(r).RUnlock() }

type WaitGroup struct {
	real sync.WaitGroup
	n    atomic.Int32
	id   int32
}

func (w *WaitGroup) Add(d int) { vs.Pt("wgadd"); w.n.Add(int32(d)); w.real.Add(d) }
func (w *WaitGroup) Done()     { vs.Pt("wgdone"); w.n.Add(-1); w.real.Done() }
func (w *WaitGroup) Wait() {
	if vs.Controlled() {
		vs.PointE("wgwait", func() bool { return w.n.Load() == 0 })
	}
	w.real.Wait()
}
func (w *WaitGroup) Go(f func()) { w.Add(1); vs.Go(func() { defer w.Done(); f() }) }

type Once struct {
	m    Mutex
	done atomic.Bool
}

func (o *Once) Do(f func()) {
	if o.done.Load() {
		vs.Pt("oncefast")
		return
	}
	o.m.Lock()
	defer o.m.Unlock()
	if !o.done.Load() {
		defer o.done.Store(true)
		f()
	}
}

// Map: insertion-ordered, deterministic Range.
type Map struct {
	mu   sync.Mutex
	m    map[any]any
	keys []any
	id   int32
}

func (m *Map) pt(k string) { vs.Pt(k) }

func (m *Map) Load(k any) (any, bool) {
	m.pt("mapload")
	m.mu.Lock()
	defer m.mu.Unlock()
	v, ok := m.m[k]
	return v, ok
}
func (m *Map) storeLocked(k, v any) {
	if m.m == nil {
		m.m = map[any]any{}
	}
	if _, ok := m.m[k]; !ok {
		m.keys = append(m.keys, k)
	}
	m.m[k] = v
}
func (m *Map) Store(k, v any) {
	m.pt("mapstore")
	m.mu.Lock()
	defer m.mu.Unlock()
	m.storeLocked(k, v)
}
func (m *Map) LoadOrStore(k, v any) (any, bool) {
	m.pt("maplos")
	m.mu.Lock()
	defer m.mu.Unlock()
	if old, ok := m.m[k]; ok {
		return old, true
	}
	m.storeLocked(k, v)
	return v, false
}
func (m *Map) deleteLocked(k any) {
	if _, ok := m.m[k]; !ok {
		return
	}
	delete(m.m, k)
	for i, x := range m.keys {
		if x == k {
			m.keys = append(m.keys[:i:i], m.keys[i+1:]...)
			break
		}
	}
}
func (m *Map) LoadAndDelete(k any) (any, bool) {
	m.pt("maplad")
	m.mu.Lock()
	defer m.mu.Unlock()
	v, ok := m.m[k]
	m.deleteLocked(k)
	return v, ok
}
func (m *Map) Delete(k any) { m.LoadAndDelete(k) }
func (m *Map) Swap(k, v any) (any, bool) {
	m.pt("mapswap")
	m.mu.Lock()
	defer m.mu.Unlock()
	old, ok := m.m[k]
	m.storeLocked(k, v)
	return old, ok
}
func (m *Map) CompareAndSwap(k, old, nw any) bool {
	m.pt("mapcas")
	m.mu.Lock()
	defer m.mu.Unlock()
	if cur, ok := m.m[k]; ok && cur == old {
		m.m[k] = nw
		return true
	}
	return false
}
func (m *Map) CompareAndDelete(k, old any) bool {
	m.pt("mapcad")
	m.mu.Lock()
	defer m.mu.Unlock()
	if cur, ok := m.m[k]; ok && cur == old {
		m.deleteLocked(k)
		return true
	}
	return false
}
func (m *Map) Range(f func(k, v any) bool) {
	m.pt("maprange")
	m.mu.Lock()
	keys := append([]any(nil), m.keys...)
	m.mu.Unlock()
	for _, k := range keys {
		m.mu.Lock()
		v, ok := m.m[k]
		m.mu.Unlock()
		if ok && !f(k, v) {
			return
		}
	}
}
func (m *Map) Clear() {
	m.pt("mapclear")
	m.mu.Lock()
	defer m.mu.Unlock()
	m.m, m.keys = nil, nil
}

// Pool: deterministic LIFO free list.
type Pool struct {
	New  func() any
	mu   sync.Mutex
	free []any
}

func (p *Pool) Get() any {
	p.mu.Lock()
	if n := len(p.free); n > 0 {
		x := p.free[n-1]
		p.free = p.free[:n-1]
		p.mu.Unlock()
		return x
	}
	p.mu.Unlock()
	if p.New != nil {
		return p.New()
	}
	return nil
}
func (p *Pool) Put(x any) {
	p.mu.Lock()
	p.free = append(p.free, x)
	p.mu.Unlock()
}

func OnceFunc(f func()) func() { var o Once; return func() { o.Do(f) } }
