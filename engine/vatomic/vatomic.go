// Package vatomic mirrors sync/atomic: every operation is a scheduling point
// followed by the real atomic operation.
package vatomic

import (
	"sync/atomic"
	"unsafe"

	"verif.local/engine/vs"
)

func LoadInt32(p *int32) int32          { vs.Pt("aload"); return atomic.LoadInt32(p) }
func StoreInt32(p *int32, v int32)      { vs.Pt("astore"); atomic.StoreInt32(p, v) }
func AddInt32(p *int32, d int32) int32  { vs.Pt("aadd"); return atomic.AddInt32(p, d) }
func SwapInt32(p *int32, v int32) int32 { vs.Pt("aswap"); return atomic.SwapInt32(p, v) }
func CompareAndSwapInt32(p *int32, o, n int32) bool {
	vs.Pt("acas")
	return atomic.CompareAndSwapInt32(p, o, n)
}

type Int32 struct{ v atomic.Int32 }

func (x *Int32) Load() int32                    { vs.Pt("aload"); return x.v.Load() }
func (x *Int32) Store(v int32)                  { vs.Pt("astore"); x.v.Store(v) }
func (x *Int32) Add(d int32) int32              { vs.Pt("aadd"); return x.v.Add(d) }
func (x *Int32) Swap(v int32) int32             { vs.Pt("aswap"); return x.v.Swap(v) }
func (x *Int32) CompareAndSwap(o, n int32) bool { vs.Pt("acas"); return x.v.CompareAndSwap(o, n) }
func (x *Int32) And(m int32) int32              { vs.Pt("aand"); return x.v.And(m) }
func (x *Int32) Or(m int32) int32               { vs.Pt("aor"); return x.v.Or(m) }

func LoadInt64(p *int64) int64          { vs.Pt("aload"); return atomic.LoadInt64(p) }
func StoreInt64(p *int64, v int64)      { vs.Pt("astore"); atomic.StoreInt64(p, v) }
func AddInt64(p *int64, d int64) int64  { vs.Pt("aadd"); return atomic.AddInt64(p, d) }
func SwapInt64(p *int64, v int64) int64 { vs.Pt("aswap"); return atomic.SwapInt64(p, v) }
func CompareAndSwapInt64(p *int64, o, n int64) bool {
	vs.Pt("acas")
	return atomic.CompareAndSwapInt64(p, o, n)
}

type Int64 struct{ v atomic.Int64 }

func (x *Int64) Load() int64                    { vs.Pt("aload"); return x.v.Load() }
func (x *Int64) Store(v int64)                  { vs.Pt("astore"); x.v.Store(v) }
func (x *Int64) Add(d int64) int64              { vs.Pt("aadd"); return x.v.Add(d) }
func (x *Int64) Swap(v int64) int64             { vs.Pt("aswap"); return x.v.Swap(v) }
func (x *Int64) CompareAndSwap(o, n int64) bool { vs.Pt("acas"); return x.v.CompareAndSwap(o, n) }
func (x *Int64) And(m int64) int64              { vs.Pt("aand"); return x.v.And(m) }
func (x *Int64) Or(m int64) int64               { vs.Pt("aor"); return x.v.Or(m) }

func LoadUint32(p *uint32) uint32           { vs.Pt("aload"); return atomic.LoadUint32(p) }
func StoreUint32(p *uint32, v uint32)       { vs.Pt("astore"); atomic.StoreUint32(p, v) }
func AddUint32(p *uint32, d uint32) uint32  { vs.Pt("aadd"); return atomic.AddUint32(p, d) }
func SwapUint32(p *uint32, v uint32) uint32 { vs.Pt("aswap"); return atomic.SwapUint32(p, v) }
func CompareAndSwapUint32(p *uint32, o, n uint32) bool {
	vs.Pt("acas")
	return atomic.CompareAndSwapUint32(p, o, n)
}

type Uint32 struct{ v atomic.Uint32 }

func (x *Uint32) Load() uint32                    { vs.Pt("aload"); return x.v.Load() }
func (x *Uint32) Store(v uint32)                  { vs.Pt("astore"); x.v.Store(v) }
func (x *Uint32) Add(d uint32) uint32             { vs.Pt("aadd"); return x.v.Add(d) }
func (x *Uint32) Swap(v uint32) uint32            { vs.Pt("aswap"); return x.v.Swap(v) }
func (x *Uint32) CompareAndSwap(o, n uint32) bool { vs.Pt("acas"); return x.v.CompareAndSwap(o, n) }
func (x *Uint32) And(m uint32) uint32             { vs.Pt("aand"); return x.v.And(m) }
func (x *Uint32) Or(m uint32) uint32              { vs.Pt("aor"); return x.v.Or(m) }

func LoadUint64(p *uint64) uint64           { vs.Pt("aload"); return atomic.LoadUint64(p) }
func StoreUint64(p *uint64, v uint64)       { vs.Pt("astore"); atomic.StoreUint64(p, v) }
func AddUint64(p *uint64, d uint64) uint64  { vs.Pt("aadd"); return atomic.AddUint64(p, d) }
func SwapUint64(p *uint64, v uint64) uint64 { vs.Pt("aswap"); return atomic.SwapUint64(p, v) }
func CompareAndSwapUint64(p *uint64, o, n uint64) bool {
	vs.Pt("acas")
	return atomic.CompareAndSwapUint64(p, o, n)
}

type Uint64 struct{ v atomic.Uint64 }

func (x *Uint64) Load() uint64                    { vs.Pt("aload"); return x.v.Load() }
func (x *Uint64) Store(v uint64)                  { vs.Pt("astore"); x.v.Store(v) }
func (x *Uint64) Add(d uint64) uint64             { vs.Pt("aadd"); return x.v.Add(d) }
func (x *Uint64) Swap(v uint64) uint64            { vs.Pt("aswap"); return x.v.Swap(v) }
func (x *Uint64) CompareAndSwap(o, n uint64) bool { vs.Pt("acas"); return x.v.CompareAndSwap(o, n) }
func (x *Uint64) And(m uint64) uint64             { vs.Pt("aand"); return x.v.And(m) }
func (x *Uint64) Or(m uint64) uint64              { vs.Pt("aor"); return x.v.Or(m) }

func LoadUintptr(p *uintptr) uintptr            { vs.Pt("aload"); return atomic.LoadUintptr(p) }
func StoreUintptr(p *uintptr, v uintptr)        { vs.Pt("astore"); atomic.StoreUintptr(p, v) }
func AddUintptr(p *uintptr, d uintptr) uintptr  { vs.Pt("aadd"); return atomic.AddUintptr(p, d) }
func SwapUintptr(p *uintptr, v uintptr) uintptr { vs.Pt("aswap"); return atomic.SwapUintptr(p, v) }
func CompareAndSwapUintptr(p *uintptr, o, n uintptr) bool {
	vs.Pt("acas")
	return atomic.CompareAndSwapUintptr(p, o, n)
}

type Uintptr struct{ v atomic.Uintptr }

func (x *Uintptr) Load() uintptr                    { vs.Pt("aload"); return x.v.Load() }
func (x *Uintptr) Store(v uintptr)                  { vs.Pt("astore"); x.v.Store(v) }
func (x *Uintptr) Add(d uintptr) uintptr            { vs.Pt("aadd"); return x.v.Add(d) }
func (x *Uintptr) Swap(v uintptr) uintptr           { vs.Pt("aswap"); return x.v.Swap(v) }
func (x *Uintptr) CompareAndSwap(o, n uintptr) bool { vs.Pt("acas"); return x.v.CompareAndSwap(o, n) }

func LoadPointer(p *unsafe.Pointer) unsafe.Pointer     { vs.Pt("aload"); return atomic.LoadPointer(p) }
func StorePointer(p *unsafe.Pointer, v unsafe.Pointer) { vs.Pt("astore"); atomic.StorePointer(p, v) }
func SwapPointer(p *unsafe.Pointer, v unsafe.Pointer) unsafe.Pointer {
	vs.Pt("aswap")
	return atomic.SwapPointer(p, v)
}
func CompareAndSwapPointer(p *unsafe.Pointer, o, n unsafe.Pointer) bool {
	vs.Pt("acas")
	return atomic.CompareAndSwapPointer(p, o, n)
}

type Bool struct{ v atomic.Bool }

func (b *Bool) Load() bool                    { vs.Pt("aload"); return b.v.Load() }
func (b *Bool) Store(x bool)                  { vs.Pt("astore"); b.v.Store(x) }
func (b *Bool) Swap(x bool) bool              { vs.Pt("aswap"); return b.v.Swap(x) }
func (b *Bool) CompareAndSwap(o, n bool) bool { vs.Pt("acas"); return b.v.CompareAndSwap(o, n) }

type Pointer[T any] struct{ v atomic.Pointer[T] }

func (p *Pointer[T]) Load() *T                    { vs.Pt("aload"); return p.v.Load() }
func (p *Pointer[T]) Store(x *T)                  { vs.Pt("astore"); p.v.Store(x) }
func (p *Pointer[T]) Swap(x *T) *T                { vs.Pt("aswap"); return p.v.Swap(x) }
func (p *Pointer[T]) CompareAndSwap(o, n *T) bool { vs.Pt("acas"); return p.v.CompareAndSwap(o, n) }

type Value struct{ v atomic.Value }

func (x *Value) Load() any                    { vs.Pt("aload"); return x.v.Load() }
func (x *Value) Store(v any)                  { vs.Pt("astore"); x.v.Store(v) }
func (x *Value) Swap(v any) any               { vs.Pt("aswap"); return x.v.Swap(v) }
func (x *Value) CompareAndSwap(o, n any) bool { vs.Pt("acas"); return x.v.CompareAndSwap(o, n) }
