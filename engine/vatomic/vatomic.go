package vatomic

import (
	"sync/atomic"

	"verif.local/engine/vs"
)

func LoadInt32(p *int32) int32         { vs.Pt("aload"); return atomic.LoadInt32(p) }
func StoreInt32(p *int32, v int32)     { vs.Pt("astore"); atomic.StoreInt32(p, v) }
func AddInt32(p *int32, d int32) int32 { vs.Pt("aadd"); return atomic.AddInt32(p, d) }
func CompareAndSwapInt32(p *int32, o, n int32) bool {
	vs.Pt("acas")
	return atomic.CompareAndSwapInt32(p, o, n)
}
func LoadInt64(p *int64) int64         { vs.Pt("aload"); return atomic.LoadInt64(p) }
func StoreInt64(p *int64, v int64)     { vs.Pt("astore"); atomic.StoreInt64(p, v) }
func AddInt64(p *int64, d int64) int64 { vs.Pt("aadd"); return atomic.AddInt64(p, d) }
func CompareAndSwapInt64(p *int64, o, n int64) bool {
	vs.Pt("acas")
	return atomic.CompareAndSwapInt64(p, o, n)
}

type Bool struct{ v atomic.Bool }

func (b *Bool) Load() bool                    { vs.Pt("aload"); return b.v.Load() }
func (b *Bool) Store(x bool)                  { vs.Pt("astore"); b.v.Store(x) }
func (b *Bool) Swap(x bool) bool              { vs.Pt("aswap"); return b.v.Swap(x) }
func (b *Bool) CompareAndSwap(o, n bool) bool { vs.Pt("acas"); return b.v.CompareAndSwap(o, n) }

type Int32 struct{ v atomic.Int32 }

func (b *Int32) Load() int32       { vs.Pt("aload"); return b.v.Load() }
func (b *Int32) Store(x int32)     { vs.Pt("astore"); b.v.Store(x) }
func (b *Int32) Add(d int32) int32 { vs.Pt("aadd"); return b.v.Add(d) }

type Int64 struct{ v atomic.Int64 }

func (b *Int64) Load() int64       { vs.Pt("aload"); return b.v.Load() }
func (b *Int64) Store(x int64)     { vs.Pt("astore"); b.v.Store(x) }
func (b *Int64) Add(d int64) int64 { vs.Pt("aadd"); return b.v.Add(d) }

type Value = atomic.Value
type Pointer[T any] = atomic.Pointer[T]
