module verif.local/engine

go 1.23.0
