// Package driver is the check driver shared by every harness: it enumerates a
// harness's jobs, runs them on worker processes, merges what they covered,
// writes the evidence file, matches violations against known_findings.txt and
// prints the VIOLATION / KNOWN-FINDING lines.
package driver

import (
	"bufio"
	"crypto/sha256"
	"encoding/hex"
	"encoding/json"
	"fmt"
	"hash/fnv"
	"os"
	"os/exec"
	"path/filepath"
	"runtime"
	"sort"
	"strconv"
	"strings"
	"sync"
	"testing"
	"time"

	"verif.local/engine/explore"
	"verif.local/engine/vs"
)

// Fail describes one oracle failure.
type Fail struct {
	Sig    string // defect-level signature (stable; matched against known_findings.txt)
	Detail string
}

// Violation is a confirmed failure with what is needed to replay it.
type Violation struct {
	Sig      string `json:"sig"`
	Job      string `json:"job"`
	Scenario string `json:"scenario"`
	Detail   string `json:"detail"`
	Prefix   []int  `json:"prefix"`
	Base     int    `json:"base"`
	Count    int64  `json:"count"`
	Tier     string `json:"tier"`
}

// Res is what one job reports.
type Res struct {
	Evals       int64            `json:"evals"`
	States      int64            `json:"states"`
	Transitions int64            `json:"transitions"`
	Traces      int64            `json:"traces"`
	Nontrivial  []uint64         `json:"nontrivial"`
	Outcomes    []uint64         `json:"outcomes"`
	Samples     []string         `json:"samples"`
	Violations  []Violation      `json:"violations"`
	Counters    map[string]int64 `json:"counters"`
	Capped      bool             `json:"capped"`
	Infra       []string         `json:"infra"`
	// Notes are printed and stored in the evidence; they make the run non-exhaustive but are neither a
	// violation nor an infrastructure error (used for broken assumptions of the machinery itself).
	Notes   []string `json:"notes"`
	MaxLive int      `json:"max_live"`
	nt, oc  map[uint64]struct{}
}

func Hash(parts ...string) uint64 {
	h := fnv.New64a()
	for _, p := range parts {
		h.Write([]byte(p))
		h.Write([]byte{0})
	}
	return h.Sum64()
}

func (r *Res) Nontriv(h uint64) {
	if r.nt == nil {
		r.nt = map[uint64]struct{}{}
	}
	r.nt[h] = struct{}{}
}
func (r *Res) Outcome(h uint64) {
	if r.oc == nil {
		r.oc = map[uint64]struct{}{}
	}
	r.oc[h] = struct{}{}
}
func (r *Res) Count(k string, n int64) {
	if r.Counters == nil {
		r.Counters = map[string]int64{}
	}
	r.Counters[k] += n
}
func (r *Res) Max(k string, n int64) {
	if r.Counters == nil {
		r.Counters = map[string]int64{}
	}
	if n > r.Counters["max:"+k] {
		r.Counters["max:"+k] = n
	}
}
func (r *Res) Sample(s string) {
	if len(r.Samples) < 2 {
		if len(s) > 1500 {
			s = s[:1500] + "…"
		}
		r.Samples = append(r.Samples, s)
	}
}
func (r *Res) seal() {
	for h := range r.nt {
		r.Nontrivial = append(r.Nontrivial, h)
	}
	for h := range r.oc {
		r.Outcomes = append(r.Outcomes, h)
	}
}

// AddViolation records a violation (one stored per signature and job; others counted).
func (r *Res) AddViolation(v Violation) {
	for i := range r.Violations {
		if r.Violations[i].Sig == v.Sig {
			r.Violations[i].Count++
			return
		}
	}
	v.Count = 1
	r.Violations = append(r.Violations, v)
}

// Ctx is handed to a running job.
type Ctx struct {
	*Res
	T       *testing.T
	Tier    string
	Job     string
	Replay  *Violation // non-nil in replay mode
	Verbose bool
	dl      time.Time
	known   map[string]bool // signatures listed in known_findings.txt: recorded, but the search goes on
}

// Violated reports whether this job has already recorded a violation.
func (c *Ctx) Violated() bool { return len(c.Violations) > 0 }

func (c *Ctx) Thorough() bool { return c.Tier == "thorough" }

// Expired reports whether the tier budget is used up; searches stop and report Capped.
func (c *Ctx) Expired() bool { return !c.dl.IsZero() && time.Now().After(c.dl) }

// Job is one unit of work; the list must be identical in master and workers.
type Job struct {
	Name string
	Run  func(c *Ctx)
}

// Harness describes one property check.
type Harness struct {
	ID          string
	Level       string // evidence level
	Rule        string
	Assumptions []string
	Jobs        func(tier string) []Job
	// BudgetS: soft wall-clock budget per tier in seconds (quick, thorough);
	// when used up, remaining work is skipped and exhaustive is false.
	BudgetQuick, BudgetThorough int
}

// ---- scheduler scenarios

// Scenario is a closed concurrent (or sequential) program explored over its choice tree.
type Scenario struct {
	Name       string
	Bases      []int // default schedulers to explore around (nil = {0})
	Bounds     explore.Bounds
	Sequential bool
	MapSite    func(string) bool
	Horizon    int
	MaxExec    int64
	// Shard/NShard: this call explores only its share of the level-1 subtrees.
	Shard, NShard int
	// Make builds fresh state and returns the body to run and the oracle to
	// evaluate afterwards (nil Fail = property held on this execution).
	Make func() (body func(), check func(res *vs.Result) *Fail)
	// Nontrivial, if set, classifies an execution; it returns a key to count
	// as distinct non-trivial ("" = trivial).
	Nontrivial func(res *vs.Result) string
}

// StdFail maps scheduler-level failures to a Fail: deadlock, livelock, panic.
func StdFail(res *vs.Result) *Fail {
	if strings.Contains(res.Deadlock, "did not return within") {
		return &Fail{Sig: "hang: the operation never returns", Detail: res.Deadlock}
	}
	if res.Deadlock != "" {
		return &Fail{Sig: "deadlock", Detail: res.Deadlock}
	}
	if res.Livelock {
		return &Fail{Sig: "livelock", Detail: "step horizon exceeded"}
	}
	if len(res.Panics) > 0 {
		first := res.Panics[0]
		line := first
		if i := strings.IndexByte(line, '\n'); i > 0 {
			line = line[:i]
		}
		return &Fail{Sig: "panic: " + line, Detail: first}
	}
	return nil
}

// Explore runs the scenario's bounded search and records coverage and violations.
func (c *Ctx) Explore(sc Scenario) {
	if c.Replay != nil && c.Replay.Scenario != sc.Name {
		return
	}
	bases := sc.Bases
	if len(bases) == 0 || sc.Sequential {
		bases = []int{0}
	}
	for _, base := range bases {
		if c.Replay != nil && c.Replay.Base != base {
			continue
		}
		c.exploreBase(sc, base)
	}
}

func (c *Ctx) runOnce(sc Scenario, base int, prefix []int, log func(string)) (vs.Result, *Fail) {
	body, check := sc.Make()
	res := vs.Run(c.T, vs.Config{Prefix: prefix, Base: base, Sequential: sc.Sequential, MapSite: sc.MapSite, Horizon: sc.Horizon, Log: log}, body)
	if res.Diverged != "" {
		return res, &Fail{Sig: "HARNESS-NONDETERMINISM", Detail: res.Diverged}
	}
	return res, check(&res)
}

// raceRuns is the number of free-running repetitions per scenario in the race pass (0 = normal mode).
func raceRuns() int {
	n, _ := strconv.Atoi(os.Getenv("VERIF_RACE"))
	return n
}

// freeRun runs the scenario body without the scheduler (real goroutines, real locks) so that a
// race detector built into the binary can observe unsynchronised accesses, which the cooperative
// scheduler's hand-offs would hide. Oracle failures seen here are reported as notes.
func (c *Ctx) freeRun(sc Scenario, n int) {
	for i := 0; i < n; i++ {
		body, check := sc.Make()
		res := vs.Run(c.T, vs.Config{Sequential: true, SeqTimeout: 120 * time.Second}, body)
		c.Evals++
		if f := check(&res); f != nil && len(c.Notes) < 5 {
			c.Notes = append(c.Notes, fmt.Sprintf("free-running execution of %s failed its oracle: %s", sc.Name, f.Sig))
		}
	}
}

func (c *Ctx) exploreBase(sc Scenario, base int) {
	if n := raceRuns(); n > 0 {
		if !sc.Sequential && base == 0 && sc.Shard == 0 {
			c.freeRun(sc, n)
		}
		return
	}
	e := &explore.Explorer{Bounds: sc.Bounds, MaxExec: sc.MaxExec, Deadline: c.Expired, Shard: sc.Shard, NShard: sc.NShard}
	first := true
	e.Run = func(prefix []int) (vs.Result, bool) {
		var log func(string)
		if c.Verbose {
			log = func(s string) { fmt.Println("   ", s) }
		}
		res, f := c.runOnce(sc, base, prefix, log)
		if first {
			first = false
			c.Sample(fmt.Sprintf("%s base=%d choices=%v steps=%d points=%d", sc.Name, base, res.Choices(), res.Steps, len(res.Trace)))
		}
		if sc.Nontrivial != nil {
			if k := sc.Nontrivial(&res); k != "" {
				c.Nontriv(Hash(sc.Name, k))
			}
		}
		if f == nil {
			return res, false
		}
		if f.Sig == "HARNESS-NONDETERMINISM" {
			c.Infra = append(c.Infra, fmt.Sprintf("HARNESS-NONDETERMINISM %s: %s", sc.Name, f.Detail))
			return res, true
		}
		// confirm: the same vector must fail the same way every time
		full := res.Choices()
		confirmations := 5
		if strings.HasPrefix(f.Sig, "hang:") {
			confirmations = 1 // each confirmation costs the full wall-clock guard
		}
		for i := 0; i < confirmations; i++ {
			_, f2 := c.runOnce(sc, base, full, nil)
			if f2 == nil || f2.Sig != f.Sig {
				got := "<none>"
				if f2 != nil {
					got = f2.Sig
				}
				c.Infra = append(c.Infra, fmt.Sprintf("HARNESS-NONDETERMINISM %s: replay %d of %v gave %q, first run %q", sc.Name, i, full, got, f.Sig))
				return res, true
			}
		}
		c.AddViolation(Violation{Tier: c.Tier, Sig: f.Sig, Job: c.Job, Scenario: sc.Name, Detail: f.Detail, Prefix: full, Base: base})
		return res, !c.known[f.Sig]
	}
	if c.Replay != nil {
		e.Only = c.Replay.Prefix
		if e.Only == nil {
			e.Only = []int{}
		}
	}
	e.Explore()
	c.Evals += e.Stats.Executions
	c.Traces += e.Stats.Executions
	c.States += e.Stats.TreeNodes
	c.Transitions += e.Stats.Transitions
	if e.Stats.MaxLive > c.MaxLive {
		c.MaxLive = e.Stats.MaxLive
	}
	if e.Capped {
		c.Capped = true
	}
	c.Max("dev", int64(e.Stats.MaxCost[0]))
	c.Max("order", int64(e.Stats.MaxCost[1]))
	c.Max("fault", int64(e.Stats.MaxCost[2]))
}

// ---- master / worker

type jobMsg struct {
	Idx int `json:"idx"`
}
type resMsg struct {
	Idx int   `json:"idx"`
	Res *Res  `json:"res"`
	Ms  int64 `json:"ms"`
}

func tier() string {
	if t := os.Getenv("VERIF_TIER"); t == "thorough" {
		return t
	}
	return "quick"
}

func verifDir() string {
	if d := os.Getenv("VERIF_DIR"); d != "" {
		return d
	}
	return "/verif"
}

// Main is called from the harness's TestVerif.
var currentID string

func Main(t *testing.T, h Harness) {
	currentID = h.ID
	tr := tier()
	jobs := h.Jobs(tr)
	budget := h.BudgetQuick
	if tr == "thorough" {
		budget = h.BudgetThorough
	}
	if s := os.Getenv("VERIF_BUDGET_S"); s != "" {
		budget, _ = strconv.Atoi(s)
	}
	if budget == 0 {
		budget = 240
		if tr == "thorough" {
			budget = 1500
		}
	}
	switch {
	case os.Getenv("VERIF_WORKER") != "":
		worker(t, jobs, tr)
	case os.Getenv("VERIF_REPLAY") != "":
		replay(t, h, jobs, tr, os.Getenv("VERIF_REPLAY"))
	default:
		master(h, jobs, tr, budget)
	}
}

func runJob(t *testing.T, j Job, tr string, dl time.Time, rp *Violation) (res *Res) {
	res = &Res{}
	c := &Ctx{Res: res, T: t, Tier: tr, Job: j.Name, dl: dl, Replay: rp, Verbose: rp != nil, known: map[string]bool{}}
	for _, f := range loadFindings(currentID) {
		c.known[f.sig] = true
	}
	defer func() {
		if r := recover(); r != nil {
			res.Infra = append(res.Infra, fmt.Sprintf("HARNESS-PANIC job %s: %v", j.Name, r))
		}
		res.seal()
	}()
	j.Run(c)
	return
}

func worker(t *testing.T, jobs []Job, tr string) {
	in := bufio.NewReader(os.NewFile(3, "jobs"))
	out := os.NewFile(4, "results")
	var dl time.Time
	if s := os.Getenv("VERIF_DEADLINE"); s != "" {
		n, _ := strconv.ParseInt(s, 10, 64)
		dl = time.Unix(n, 0)
	}
	for {
		line, err := in.ReadString('\n')
		if err != nil {
			return
		}
		var m jobMsg
		if json.Unmarshal([]byte(line), &m) != nil {
			return
		}
		t0 := time.Now()
		res := runJob(t, jobs[m.Idx], tr, dl, nil)
		b, _ := json.Marshal(resMsg{m.Idx, res, time.Since(t0).Milliseconds()})
		out.Write(append(b, '\n'))
	}
}

type finding struct{ prop, sig, text string }

func loadFindings(id string) []finding {
	b, err := os.ReadFile(filepath.Join(verifDir(), "known_findings.txt"))
	if err != nil {
		return nil
	}
	var out []finding
	for _, l := range strings.Split(string(b), "\n") {
		l = strings.TrimSpace(l)
		if !strings.HasPrefix(l, "finding:") {
			continue
		}
		rest := strings.TrimSpace(strings.TrimPrefix(l, "finding:"))
		f := finding{}
		// finding: property=<id> sig=<sig in double quotes> text
		if !strings.HasPrefix(rest, "property=") {
			continue
		}
		sp := strings.IndexByte(rest, ' ')
		if sp < 0 {
			continue
		}
		f.prop = rest[len("property="):sp]
		rest = strings.TrimSpace(rest[sp:])
		if strings.HasPrefix(rest, "sig=\"") {
			end := strings.Index(rest[5:], "\"")
			if end < 0 {
				continue
			}
			f.sig = rest[5 : 5+end]
			f.text = strings.TrimSpace(rest[5+end+1:])
		}
		if f.prop == id {
			out = append(out, f)
		}
	}
	return out
}

func master(h Harness, jobs []Job, tr string, budget int) {
	start := time.Now()
	dl := start.Add(time.Duration(budget) * time.Second)
	nw := runtime.NumCPU()
	if s := os.Getenv("VERIF_WORKERS"); s != "" {
		nw, _ = strconv.Atoi(s)
	}
	if nw > len(jobs) {
		nw = len(jobs)
	}
	if nw < 1 {
		nw = 1
	}
	seed, _ := strconv.Atoi(os.Getenv("VERIF_SEED"))
	total := &Res{Counters: map[string]int64{}}
	nt, oc := map[uint64]struct{}{}, map[uint64]struct{}{}
	var mu sync.Mutex
	next := 0
	skipped := 0
	var infra, notes []string
	// the watchdog is for workers that hang: a job stops exploring at the deadline by itself, so the
	// watchdog must never fire before the deadline has passed
	jobTimeout := 1800 * time.Second
	if d := time.Duration(budget)*time.Second + 300*time.Second; d > jobTimeout {
		jobTimeout = d
	}
	take := func() int {
		mu.Lock()
		defer mu.Unlock()
		if next >= len(jobs) {
			return -1
		}
		if time.Now().After(dl) {
			skipped += len(jobs) - next
			next = len(jobs)
			return -1
		}
		next++
		return next - 1
	}
	merge := func(r *Res) {
		mu.Lock()
		defer mu.Unlock()
		total.Evals += r.Evals
		total.States += r.States
		total.Transitions += r.Transitions
		total.Traces += r.Traces
		for _, x := range r.Nontrivial {
			nt[x] = struct{}{}
		}
		for _, x := range r.Outcomes {
			oc[x] = struct{}{}
		}
		for _, s := range r.Samples {
			if len(total.Samples) < 6 {
				total.Samples = append(total.Samples, s)
			}
		}
		for _, v := range r.Violations {
			found := false
			for i := range total.Violations {
				if total.Violations[i].Sig == v.Sig {
					total.Violations[i].Count += v.Count
					found = true
				}
			}
			if !found {
				total.Violations = append(total.Violations, v)
			}
		}
		for k, v := range r.Counters {
			if strings.HasPrefix(k, "max:") {
				if v > total.Counters[k] {
					total.Counters[k] = v
				}
			} else {
				total.Counters[k] += v
			}
		}
		if r.Capped {
			total.Capped = true
		}
		if r.MaxLive > total.MaxLive {
			total.MaxLive = r.MaxLive
		}
		infra = append(infra, r.Infra...)
		for _, n := range r.Notes {
			if len(notes) < 20 {
				notes = append(notes, n)
			}
		}
	}
	var wg sync.WaitGroup
	for w := 0; w < nw; w++ {
		wg.Add(1)
		go func(w int) {
			defer wg.Done()
			for {
				// (re)start a worker process
				jr, jw, _ := os.Pipe()
				rr, rw, _ := os.Pipe()
				cmd := exec.Command(os.Args[0], "-test.run", "^TestVerif$", "-test.timeout", "0")
				cmd.Env = append(os.Environ(), "VERIF_WORKER=1", "VERIF_TIER="+tr, "GOMAXPROCS=2", fmt.Sprintf("VERIF_DEADLINE=%d", dl.Unix()))
				cmd.ExtraFiles = []*os.File{jr, rw}
				cmd.Stdout = nil
				cmd.Stderr = os.Stderr
				if err := cmd.Start(); err != nil {
					mu.Lock()
					infra = append(infra, "cannot start worker: "+err.Error())
					mu.Unlock()
					return
				}
				jr.Close()
				rw.Close()
				rd := bufio.NewReaderSize(rr, 1<<20)
				died := false
				for {
					idx := take()
					if idx < 0 {
						break
					}
					b, _ := json.Marshal(jobMsg{idx})
					jw.Write(append(b, '\n'))
					type rl struct {
						line string
						err  error
					}
					ch := make(chan rl, 1)
					go func() {
						l, err := rd.ReadString('\n')
						ch <- rl{l, err}
					}()
					var got rl
					select {
					case got = <-ch:
					case <-time.After(jobTimeout):
						cmd.Process.Kill()
						got = <-ch
						got.err = fmt.Errorf("watchdog: job exceeded %v", jobTimeout)
					}
					if got.err != nil {
						mu.Lock()
						infra = append(infra, fmt.Sprintf("WORKER-DIED job=%s: %v", jobs[idx].Name, got.err))
						mu.Unlock()
						died = true
						break
					}
					var m resMsg
					if err := json.Unmarshal([]byte(got.line), &m); err != nil || m.Res == nil {
						mu.Lock()
						infra = append(infra, fmt.Sprintf("bad result for job=%s: %v", jobs[idx].Name, err))
						mu.Unlock()
						continue
					}
					if os.Getenv("VERIF_JOBLOG") != "" {
						fmt.Fprintf(os.Stderr, "job %s: evals=%d ms=%d capped=%v\n", jobs[idx].Name, m.Res.Evals, m.Ms, m.Res.Capped)
					}
					merge(m.Res)
				}
				jw.Close()
				cmd.Wait()
				rr.Close()
				if !died {
					return
				}
			}
		}(w)
	}
	wg.Wait()

	// classify violations
	known := loadFindings(h.ID)
	var unlisted []Violation
	var knownSeen []finding
	for _, v := range total.Violations {
		matched := false
		for _, f := range known {
			if f.sig == v.Sig {
				matched = true
				dup := false
				for _, k := range knownSeen {
					if k.sig == f.sig {
						dup = true
					}
				}
				if !dup {
					knownSeen = append(knownSeen, f)
				}
			}
		}
		if !matched {
			unlisted = append(unlisted, v)
		}
	}
	sort.Slice(unlisted, func(i, j int) bool { return unlisted[i].Sig < unlisted[j].Sig })
	exhaustive := !total.Capped && skipped == 0 && len(infra) == 0 && len(unlisted) == 0 && len(notes) == 0
	cov := map[string]any{
		"evaluations":                   total.Evals,
		"distinct_nontrivial":           len(nt),
		"distinct_outcomes":             len(oc),
		"rule":                          h.Rule,
		"samples":                       total.Samples,
		"states":                        total.States,
		"transitions":                   total.Transitions,
		"traces_validated_against_impl": total.Traces,
		"exhaustive":                    exhaustive,
		"jobs":                          len(jobs),
		"jobs_skipped_budget":           skipped,
		"budget_s":                      budget,
		"workers":                       nw,
		"max_live_goroutines":           total.MaxLive,
		"counters":                      total.Counters,
		"known_findings_seen":           len(knownSeen),
	}
	if len(notes) > 0 {
		cov["notes"] = notes
	}
	if total.Samples == nil {
		cov["samples"] = []string{fmt.Sprintf("%d jobs, first: %s", len(jobs), jobs[0].Name)}
	}
	// the model-checking keys are only meaningful when the harness counted them
	if total.States == 0 || total.Transitions == 0 {
		delete(cov, "states")
		delete(cov, "transitions")
		delete(cov, "traces_validated_against_impl")
	}
	ev := map[string]any{
		"property_id": h.ID,
		"tier":        tr,
		"seed":        seed,
		"level":       h.Level,
		"coverage":    cov,
		"assumptions": h.Assumptions,
		"wall_s":      time.Since(start).Seconds(),
		"violations":  len(unlisted),
	}
	os.MkdirAll(filepath.Join(verifDir(), "evidence"), 0o755)
	b, _ := json.MarshalIndent(ev, "", " ")
	os.WriteFile(filepath.Join(verifDir(), "evidence", h.ID+".json"), append(b, '\n'), 0o644)

	fmt.Printf("%s %s: jobs=%d evaluations=%d states=%d transitions=%d distinct_nontrivial=%d outcomes=%d exhaustive=%v wall=%.1fs\n",
		h.ID, tr, len(jobs), total.Evals, total.States, total.Transitions, len(nt), len(oc), exhaustive, time.Since(start).Seconds())
	keys := make([]string, 0, len(total.Counters))
	for k := range total.Counters {
		keys = append(keys, k)
	}
	sort.Strings(keys)
	for _, k := range keys {
		fmt.Printf("  %s=%d\n", k, total.Counters[k])
	}
	for _, f := range knownSeen {
		fmt.Printf("KNOWN-FINDING: property=%s %s %s\n", h.ID, f.sig, f.text)
	}
	for _, s := range notes {
		fmt.Println("NOTE:", strings.ReplaceAll(s, "\n", "\n  "))
	}
	for _, s := range infra {
		fmt.Println("INFRA:", s)
	}
	if len(unlisted) > 0 {
		os.MkdirAll(filepath.Join(verifDir(), "replays"), 0o755)
		for _, v := range unlisted {
			sum := sha256.Sum256([]byte(v.Sig + "\x00" + v.Job + "\x00" + v.Scenario))
			p := filepath.Join(verifDir(), "replays", h.ID+"-"+hex.EncodeToString(sum[:6])+".json")
			vb, _ := json.MarshalIndent(v, "", " ")
			os.WriteFile(p, append(vb, '\n'), 0o644)
			fmt.Printf("VIOLATION property=%s replay=%s\n", h.ID, p)
			d := v.Detail
			if len(d) > 3000 {
				d = d[:3000] + "…"
			}
			fmt.Printf("  sig=%q job=%s scenario=%s occurrences=%d\n  %s\n", v.Sig, v.Job, v.Scenario, v.Count, strings.ReplaceAll(d, "\n", "\n  "))
		}
		os.Exit(1)
	}
	if len(infra) > 0 {
		os.Exit(2)
	}
	os.Exit(0)
}

func replay(t *testing.T, h Harness, jobs []Job, tr, path string) {
	b, err := os.ReadFile(path)
	if err != nil {
		fmt.Println("INFRA: cannot read replay file:", err)
		os.Exit(2)
	}
	var v Violation
	if err := json.Unmarshal(b, &v); err != nil {
		fmt.Println("INFRA: bad replay file:", err)
		os.Exit(2)
	}
	for _, j := range jobs {
		if j.Name != v.Job {
			continue
		}
		res := runJob(t, j, tr, time.Time{}, &v)
		for _, s := range res.Infra {
			fmt.Println("INFRA:", s)
		}
		for _, got := range res.Violations {
			fmt.Printf("VIOLATION property=%s replay=%s\n  sig=%q\n  %s\n", h.ID, path, got.Sig, strings.ReplaceAll(got.Detail, "\n", "\n  "))
		}
		if len(res.Violations) > 0 {
			os.Exit(1)
		}
		fmt.Println("replay: no violation")
		os.Exit(0)
	}
	fmt.Println("INFRA: job not found:", v.Job)
	os.Exit(2)
}
