// Package explore is the choice-tree explorer: depth-first enumeration of every
// choice vector whose cost stays within a bound vector. An execution is
// run(prefix): replay prefix, then choice 0 everywhere.
package explore

import (
	"fmt"

	"verif.local/engine/vs"
)

// Bounds is the deviation budget per choice kind. Input and crash choices are
// free (always enumerated completely).
type Bounds struct {
	Dev     int  // scheduling deviations (delay bounding) or preemptions
	Preempt bool // true: Dev counts preemptions only (switching away from a still-enabled goroutine)
	Order   int  // non-default select picks and map orders
	Fault   int  // non-default environment answers
}

func (b Bounds) String() string {
	m := "D"
	if b.Preempt {
		m = "P"
	}
	return fmt.Sprintf("%s<=%d,O<=%d,F<=%d", m, b.Dev, b.Order, b.Fault)
}

type cost struct{ dev, order, fault int }

// Stats accumulates what a search covered.
type Stats struct {
	Executions  int64
	Transitions int64 // scheduling steps + recorded choice points, summed over executions
	TreeNodes   int64 // distinct choice-tree nodes visited (new points per execution)
	MaxLive     int
	MaxCost     [3]int // largest dev/order/fault cost of an executed vector
	Stopped     bool   // the run callback asked to stop (violation) or a cap was hit
}

// RunFunc executes one choice vector and evaluates the oracle. It returns the
// execution result and whether the search should stop.
type RunFunc func(prefix []int) (res vs.Result, stop bool)

// Explorer enumerates the choice tree of one scenario.
type Explorer struct {
	Run    RunFunc
	Bounds Bounds
	// Shard/NShard split the level-1 subtrees (the root execution belongs to shard 0).
	Shard, NShard int
	// Only, when non-nil, runs exactly this vector (replay mode).
	Only []int
	// MaxExec caps the number of executions (0 = none); hitting it sets Capped.
	MaxExec int64
	Capped  bool
	Stats   Stats
	// Deadline, when set, is polled; returning true stops the search and sets Capped.
	Deadline func() bool
	k        int
}

// Explore runs the search.
func (e *Explorer) Explore() {
	if e.NShard == 0 {
		e.NShard = 1
	}
	if e.Only != nil {
		res, _ := e.Run(e.Only)
		e.account(res, 0)
		return
	}
	e.explore(nil, cost{}, 0)
}

func (e *Explorer) account(res vs.Result, plen int) {
	e.Stats.Executions++
	e.Stats.Transitions += int64(res.Steps) + int64(len(res.Trace))
	n := len(res.Trace) - plen
	if n < 0 {
		n = 0
	}
	e.Stats.TreeNodes += int64(n) + 1
	if res.MaxLive > e.Stats.MaxLive {
		e.Stats.MaxLive = res.MaxLive
	}
}

func (e *Explorer) altCost(c cost, p vs.Point, alt int) cost {
	switch p.Kind {
	case vs.KSched:
		if e.Bounds.Preempt {
			if p.RunEn && alt != p.RunPos {
				c.dev++
			}
		} else {
			c.dev++
		}
	case vs.KPick, vs.KMapOrder:
		c.order++
	case vs.KFault:
		c.fault++
	}
	return c
}

func (e *Explorer) within(c cost) bool {
	return c.dev <= e.Bounds.Dev && c.order <= e.Bounds.Order && c.fault <= e.Bounds.Fault
}

func (e *Explorer) explore(prefix []int, c cost, level int) {
	if e.Stats.Stopped {
		return
	}
	if e.MaxExec > 0 && e.Stats.Executions >= e.MaxExec || e.Deadline != nil && e.Deadline() {
		e.Capped = true
		e.Stats.Stopped = true
		return
	}
	skipRoot := level == 0 && e.Shard != 0
	res, stop := e.Run(prefix)
	if !skipRoot {
		e.account(res, len(prefix))
		if c.dev > e.Stats.MaxCost[0] {
			e.Stats.MaxCost[0] = c.dev
		}
		if c.order > e.Stats.MaxCost[1] {
			e.Stats.MaxCost[1] = c.order
		}
		if c.fault > e.Stats.MaxCost[2] {
			e.Stats.MaxCost[2] = c.fault
		}
	}
	if stop {
		e.Stats.Stopped = true
		return
	}
	if res.Diverged != "" {
		return
	}
	tr := res.Trace
	for i := len(prefix); i < len(tr); i++ {
		p := tr[i]
		for alt := 0; alt < p.N; alt++ {
			if alt == p.Chosen {
				continue
			}
			nc := e.altCost(c, p, alt)
			if !e.within(nc) {
				continue
			}
			if level == 0 {
				e.k++
				if e.k%e.NShard != e.Shard {
					continue
				}
			}
			np := make([]int, i+1)
			for j := 0; j < i; j++ {
				np[j] = tr[j].Chosen
			}
			np[i] = alt
			e.explore(np, nc, level+1)
			if e.Stats.Stopped {
				return
			}
		}
	}
}
