package vs

import "time"

// Channel helpers inserted by the rewriter. Each is a scheduling point followed
// by the real operation; a goroutine that then blocks on the raw channel is
// durably blocked for synctest and simply is not at a point until woken.

func Close[T any](c chan<- T) { Pt("close"); close(c) }

func Recv[T any](c <-chan T) T { Pt("recv"); return <-c }

func Recv2[T any](c <-chan T) (T, bool) { Pt("recv"); v, ok := <-c; return v, ok }

func Send[T any](c chan<- T, v T) { Pt("send"); c <- v }

// ready probes a channel without consuming a buffered value. An unbuffered
// channel with a blocked sender cannot be probed non-destructively; oras-go has
// no such select (checked by the rewriter's construct census), so a value
// received by the probe is a hard error.
func ready[T any](c <-chan T) bool {
	if c == nil {
		return false
	}
	if _, isTimer := any(c).(<-chan time.Time); isTimer {
		// timer channels are synchronous since go1.23 and cannot be probed;
		// a timer is never treated as simultaneously ready with another case
		return false
	}
	if len(c) > 0 {
		return true
	}
	if cap(c) > 0 {
		// buffered and empty: ready only when closed
		select {
		case _, ok := <-c:
			if ok {
				panic("vs: probe raced with a sender on a buffered channel")
			}
			return true
		default:
			return false
		}
	}
	select {
	case _, ok := <-c:
		if ok {
			panic("vs: destructive probe (unbuffered rendezvous inside a multi-case select is not supported)")
		}
		return true
	default:
		return false
	}
}

// Pick2 is placed before a two-receive select. When both cases are ready the
// explorer decides which one wins; the loser is masked with a nil channel.
func Pick2[A, B any](a <-chan A, b <-chan B) (<-chan A, <-chan B) {
	if !Controlled() {
		return a, b
	}
	Pt("select")
	ra, rb := ready(a), ready(b)
	if ra && rb {
		if Choose(2, KPick, "select2") == 0 {
			return a, nil
		}
		return nil, b
	}
	return a, b
}

func Pick3[A, B, C any](a <-chan A, b <-chan B, c <-chan C) (<-chan A, <-chan B, <-chan C) {
	if !Controlled() {
		return a, b, c
	}
	Pt("select")
	r := []bool{ready(a), ready(b), ready(c)}
	var idx []int
	for i, x := range r {
		if x {
			idx = append(idx, i)
		}
	}
	if len(idx) >= 2 {
		w := idx[Choose(len(idx), KPick, "select3")]
		if w != 0 {
			a = nil
		}
		if w != 1 {
			b = nil
		}
		if w != 2 {
			c = nil
		}
	}
	return a, b, c
}
