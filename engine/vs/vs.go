//go:build go1.25

// Package vs is the virtual-sync runtime: a cooperative scheduler that owns
// every scheduling point of the instrumented oras-go tree, plus the choice
// points (select picks, map orders, faults, inputs, crash points) that the
// explorer enumerates. One execution is a deterministic function of a choice
// vector (Config.Prefix, then choice 0 everywhere).
package vs

import (
	"fmt"
	"runtime/debug"
	"sync"
	"sync/atomic"
	"testing"
	"testing/synctest"
	"time"
)

func getg() uintptr

// Kind classifies a choice point; the explorer charges a cost per kind.
type Kind uint8

const (
	KSched    Kind = iota // which enabled goroutine runs next
	KPick                 // which ready select case wins
	KMapOrder             // iteration order of a map range
	KFault                // environment answer: normal or a fault
	KInput                // free input choice (always enumerated completely)
	KCrash                // crash point (free)
)

func (k Kind) String() string {
	return [...]string{"sched", "pick", "maporder", "fault", "input", "crash"}[k]
}

// Point is one recorded choice point (only points with N > 1 are recorded).
type Point struct {
	N      int
	Chosen int
	Kind   Kind
	// RunEn: for KSched, whether the goroutine that ran last is still enabled
	// (switching away from it is a preemption); RunPos is its index.
	RunEn  bool
	RunPos int
	Label  string
}

// G is one controlled goroutine.
type G struct {
	ID      int
	permit  chan struct{}
	atPoint atomic.Bool
	done    atomic.Bool
	kind    string
	enabled func() bool
	noPts   int // >0: points are suppressed (Atomic sections, sequential mode)
}

// Config configures one execution.
type Config struct {
	Prefix     []int
	Base       int  // default scheduler: 0 lowest-id-first, 1 highest-id-first, 2 round-robin
	Sequential bool // run body on the calling goroutine, no scheduler, no bubble
	Horizon    int  // max scheduling steps (0 = 200000)
	// MapSite reports whether the map-range site is an explored choice point.
	MapSite func(site string) bool
	// SeqTimeout bounds one sequential execution in wall-clock time (0 = 60 s).
	SeqTimeout time.Duration
	// Log, when set, receives one line per scheduling step (replay diagnostics).
	Log func(string)
}

// Sched is the state of one execution.
type Sched struct {
	cfg      Config
	mu       sync.Mutex
	gs       []*G
	byGoid   sync.Map
	activity chan struct{}
	last     *G
	Trace    []Point
	Steps    int
	MaxLive  int
	Panics   []string
	Livelock bool
	Diverged string
	seqG     *G
	seqGoid  uintptr
	frozen   bool
}

// Freeze ends exploration for the rest of this execution: from now on every
// choice takes its default and is not recorded (used for follow-up phases such
// as a fault-free retry whose interleavings are not the subject).
func Freeze() {
	s, g := me()
	if g == nil {
		return
	}
	s.mu.Lock()
	s.frozen = true
	s.mu.Unlock()
}

var cur atomic.Pointer[Sched]

var freeMu sync.Mutex

func me() (*Sched, *G) {
	s := cur.Load()
	if s == nil {
		return nil, nil
	}
	if s.cfg.Sequential {
		if getg() == s.seqGoid {
			return s, s.seqG
		}
		return s, nil
	}
	v, ok := s.byGoid.Load(getg())
	if !ok {
		return s, nil
	}
	return s, v.(*G)
}

// Controlled reports whether the caller is a goroutine owned by the scheduler
// (false in sequential mode and for foreign goroutines).
func Controlled() bool {
	s, g := me()
	return g != nil && !s.cfg.Sequential
}

// Active reports whether an execution (scheduled or sequential) is running and
// the caller belongs to it.
func Active() bool {
	_, g := me()
	return g != nil
}

type abortExec struct{ why string }

// PointE is a scheduling point with an enabledness predicate (nil = always).
func PointE(kind string, enabled func() bool) {
	s, g := me()
	if g == nil || g.noPts > 0 || s.cfg.Sequential {
		return
	}
	g.kind, g.enabled = kind, enabled
	g.atPoint.Store(true)
	select {
	case s.activity <- struct{}{}:
	default:
	}
	<-g.permit
}

// Pt is an always-enabled scheduling point.
func Pt(kind string) { PointE(kind, nil) }

// Atomic runs f with scheduling points suppressed, so that an oracle sees one
// instantaneous state.
func Atomic(f func()) {
	sch, g := me()
	if g == nil || sch.cfg.Sequential {
		// free-running goroutine (race pass): serialise the harness's bookkeeping for real
		freeMu.Lock()
		defer freeMu.Unlock()
		f()
		return
	}
	g.noPts++
	defer func() { g.noPts-- }()
	f()
}

// Go starts f as a controlled goroutine (a plain goroutine outside the scheduler).
func Go(f func()) {
	s, g := me()
	if g == nil || s.cfg.Sequential {
		go f()
		return
	}
	Pt("spawn")
	s.spawn(f)
}

func (s *Sched) spawn(f func()) {
	s.mu.Lock()
	ng := &G{ID: len(s.gs), permit: make(chan struct{})}
	s.gs = append(s.gs, ng)
	s.mu.Unlock()
	ready := make(chan struct{})
	go func() {
		s.byGoid.Store(getg(), ng)
		close(ready)
		defer func() {
			if r := recover(); r != nil {
				if _, ok := r.(abortExec); !ok {
					s.mu.Lock()
					s.Panics = append(s.Panics, fmt.Sprintf("goroutine %d: %v\n%s", ng.ID, r, debug.Stack()))
					s.mu.Unlock()
				}
			}
			s.byGoid.Delete(getg())
			ng.done.Store(true)
			select {
			case s.activity <- struct{}{}:
			default:
			}
		}()
		Pt("start")
		f()
	}()
	<-ready
}

// choose records a choice point and returns the chosen index. Caller holds s.mu
// or is otherwise serialised.
func (s *Sched) choose(n int, kind Kind, label string, runEn bool, runPos int) int {
	if s.frozen {
		return 0
	}
	i := len(s.Trace)
	c := 0
	if i < len(s.cfg.Prefix) {
		c = s.cfg.Prefix[i]
		if c >= n || c < 0 {
			s.Diverged = fmt.Sprintf("replay diverged at point %d (%s %s): choice %d of %d", i, kind, label, c, n)
			c = 0
		}
	}
	s.Trace = append(s.Trace, Point{N: n, Chosen: c, Kind: kind, RunEn: runEn, RunPos: runPos, Label: label})
	return c
}

// Choose is an explorer-owned data choice among n alternatives; 0 is the
// default. Outside an execution it returns 0.
func Choose(n int, kind Kind, label string) int {
	s, g := me()
	if g == nil || n <= 1 {
		return 0
	}
	s.mu.Lock()
	defer s.mu.Unlock()
	return s.choose(n, kind, label, false, 0)
}

// ChooseAt is a scheduling point followed by a data choice.
func ChooseAt(n int, kind Kind, label string) int {
	Pt(label)
	return Choose(n, kind, label)
}

// Result summarises one execution.
type Result struct {
	Trace    []Point
	Steps    int
	MaxLive  int
	Panics   []string
	Deadlock string // non-empty: the bubble deadlocked (pending operations listed)
	Livelock bool
	Diverged string
	Leaked   bool
}

// Choices returns the chosen index at every recorded point.
func (r *Result) Choices() []int {
	out := make([]int, len(r.Trace))
	for i, p := range r.Trace {
		out[i] = p.Chosen
	}
	return out
}

var runMu sync.Mutex

// Run executes body as goroutine 0 under cfg and returns what happened.
func Run(t *testing.T, cfg Config, body func()) (res Result) {
	runMu.Lock()
	defer runMu.Unlock()
	if cfg.Horizon == 0 {
		cfg.Horizon = 200000
	}
	sc := &Sched{activity: make(chan struct{}, 1), cfg: cfg}
	fill := func() {
		res.Trace, res.Steps, res.MaxLive, res.Panics = sc.Trace, sc.Steps, sc.MaxLive, sc.Panics
		res.Livelock, res.Diverged = sc.Livelock, sc.Diverged
	}
	if cfg.Sequential {
		// The body runs on its own goroutine so that a body that never returns (a real deadlock of the
		// code under test: there is no scheduler in this mode) cannot wedge the worker. The limit is a
		// generous wall-clock guard for executions that normally take milliseconds; a hit is reported as
		// a hang verdict and the goroutine is abandoned.
		sc.seqG = &G{noPts: 1}
		cur.Store(sc)
		defer cur.Store(nil)
		done := make(chan struct{})
		go func() {
			defer close(done)
			sc.seqGoid = getg()
			defer func() {
				if r := recover(); r != nil {
					if _, ok := r.(abortExec); !ok {
						sc.mu.Lock()
						sc.Panics = append(sc.Panics, fmt.Sprintf("%v\n%s", r, debug.Stack()))
						sc.mu.Unlock()
					}
				}
			}()
			body()
		}()
		limit := cfg.SeqTimeout
		if limit == 0 {
			limit = 60 * time.Second
		}
		select {
		case <-done:
			fill()
		case <-time.After(limit):
			sc.mu.Lock()
			res.Trace = append([]Point{}, sc.Trace...)
			res.Deadlock = fmt.Sprintf("the operation did not return within %v (sequential execution, no scheduler): a goroutine is blocked forever", limit)
			sc.mu.Unlock()
		}
		return
	}
	defer func() {
		cur.Store(nil)
		if r := recover(); r != nil {
			msg := fmt.Sprint(r)
			fill()
			if sc.allDone() {
				// bubble exited with durably blocked foreign goroutines
				res.Leaked = true
				return
			}
			res.Deadlock = msg + "\n" + sc.pending()
		}
	}()
	synctest.Test(t, func(t *testing.T) {
		// created inside the bubble: only then is the scheduler's wait on it a durable
		// block, which lets the bubble go idle so that virtual timers fire
		sc.activity = make(chan struct{}, 1)
		cur.Store(sc)
		sc.spawn(body)
		for {
			synctest.Wait()
			sc.mu.Lock()
			var en []*G
			alldone := true
			live := 0
			for _, g := range sc.gs {
				if !g.done.Load() {
					alldone = false
					live++
				}
				if g.atPoint.Load() && (g.enabled == nil || g.enabled()) {
					en = append(en, g)
				}
			}
			if live > sc.MaxLive {
				sc.MaxLive = live
			}
			if alldone {
				sc.mu.Unlock()
				return
			}
			if len(en) == 0 {
				sc.mu.Unlock()
				<-sc.activity // durably blocked: virtual timers fire, or the runtime reports deadlock
				continue
			}
			if sc.Steps >= sc.cfg.Horizon {
				sc.Livelock = true
				sc.mu.Unlock()
				panic("vs: step horizon exceeded")
			}
			sc.order(en)
			runEn, runPos := false, 0
			for i, g := range en {
				if g == sc.last {
					runEn, runPos = true, i
				}
			}
			c := 0
			if len(en) > 1 {
				c = sc.choose(len(en), KSched, "", runEn, runPos)
			}
			g := en[c]
			sc.last = g
			sc.Steps++
			if sc.cfg.Log != nil {
				sc.cfg.Log(fmt.Sprintf("step %d: g%d %s (enabled %d)", sc.Steps, g.ID, g.kind, len(en)))
			}
			sc.mu.Unlock()
			g.atPoint.Store(false)
			g.permit <- struct{}{}
		}
	})
	fill()
	return
}

func (s *Sched) allDone() bool {
	for _, g := range s.gs {
		if !g.done.Load() {
			return false
		}
	}
	return true
}

func (s *Sched) pending() string {
	out := ""
	for _, g := range s.gs {
		if g.done.Load() {
			continue
		}
		st := "blocked on a raw channel/timer"
		if g.atPoint.Load() {
			st = "at " + g.kind
			if g.enabled != nil && !g.enabled() {
				st += " (disabled)"
			}
		}
		out += fmt.Sprintf("  g%d: %s\n", g.ID, st)
	}
	return out
}

// order puts the enabled set in the canonical order of the base scheduler;
// choice 0 is that scheduler's pick.
func (s *Sched) order(en []*G) {
	// en is in ascending id order on entry.
	switch s.cfg.Base {
	case 1:
		for i, j := 0, len(en)-1; i < j; i, j = i+1, j-1 {
			en[i], en[j] = en[j], en[i]
		}
		fallthrough
	case 0:
		for i, g := range en {
			if g == s.last {
				copy(en[1:i+1], en[0:i])
				en[0] = g
				break
			}
		}
	case 2:
		if s.last == nil {
			return
		}
		// cyclic order starting just after the goroutine that ran last
		k := 0
		for k < len(en) && en[k].ID <= s.last.ID {
			k++
		}
		rot := append(append([]*G{}, en[k:]...), en[:k]...)
		copy(en, rot)
	}
}
