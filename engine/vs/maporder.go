package vs

import (
	"fmt"
	"sort"
)

// MapOrder returns the keys of m in the order a rewritten `range m` visits
// them: canonical (sorted by fmt.Sprint) by default. At sites the harness opted
// in (Config.MapSite) the order is an explorer choice among a bounded set of
// permutations: all of them for <= 3 keys, otherwise identity, reverse and the
// rotations.
func MapOrder[M ~map[K]V, K comparable, V any](m M, site string) []K {
	keys := make([]K, 0, len(m))
	for k := range m {
		keys = append(keys, k)
	}
	n := len(keys)
	if n <= 1 {
		return keys
	}
	strs := make(map[K]string, n)
	for _, k := range keys {
		strs[k] = fmt.Sprintf("%v", k)
	}
	sort.Slice(keys, func(i, j int) bool { return strs[keys[i]] < strs[keys[j]] })
	s, g := me()
	if g == nil || s.cfg.MapSite == nil || !s.cfg.MapSite(site) {
		return keys
	}
	var alts int
	if n <= 3 {
		alts = 1
		for i := 2; i <= n; i++ {
			alts *= i
		}
	} else {
		alts = n + 1 // identity, n-1 rotations, reverse
	}
	c := Choose(alts, KMapOrder, site)
	if c == 0 {
		return keys
	}
	out := make([]K, n)
	if n <= 3 {
		perm := nthPerm(n, c)
		for i, p := range perm {
			out[i] = keys[p]
		}
		return out
	}
	if c == n {
		for i := range keys {
			out[i] = keys[n-1-i]
		}
		return out
	}
	for i := range keys {
		out[i] = keys[(i+c)%n]
	}
	return out
}

// nthPerm returns the c-th permutation of 0..n-1 in lexicographic order.
func nthPerm(n, c int) []int {
	avail := make([]int, n)
	for i := range avail {
		avail[i] = i
	}
	f := 1
	for i := 2; i < n; i++ {
		f *= i
	}
	out := make([]int, 0, n)
	for i := n - 1; i >= 0; i-- {
		k := c / f
		c %= f
		out = append(out, avail[k])
		avail = append(avail[:k], avail[k+1:]...)
		if i > 0 {
			f /= i
		}
	}
	return out
}
