#include "textflag.h"

// func getg() uintptr
TEXT ·getg(SB),NOSPLIT,$0-8
	MOVQ (TLS), AX
	MOVQ AX, ret+0(FP)
	RET
