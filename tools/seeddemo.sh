#!/bin/bash
# tools/seeddemo.sh <ID> <n> : run the seeded change's demonstration with and without the change (in its scratch worktree)
ID=$1; N=$2; WT=/tmp/seed/$ID; SD=$WT/_seed/$N
export GOFLAGS=-mod=mod GOPROXY=off GOSUMDB=off
git -C $WT checkout -q -- .
pkgname=$(grep -m1 '^package ' $SD/demo_test.go | awk '{print $2}')
case $pkgname in
  oras_test|oras) dir=. ;;
  oci|oci_test) dir=content/oci ;;
  memory|memory_test) dir=content/memory ;;
  file|file_test) dir=content/file ;;
  status|status_test) dir=internal/status ;;
  content|content_test) dir=content ;;
  remote|remote_test) dir=registry/remote ;;
  auth|auth_test) dir=registry/remote/auth ;;
  credentials|credentials_test) dir=registry/remote/credentials ;;
  retry|retry_test) dir=registry/remote/retry ;;
  cas|cas_test) dir=internal/cas ;;
  registry|registry_test) dir=registry ;;
  syncutil|syncutil_test) dir=internal/syncutil ;;
  *) echo "unknown package $pkgname"; exit 2 ;;
esac
cp $SD/demo_test.go $WT/$dir/zz_seed_demo_test.go
run() { (cd $WT && go test -count=1 -run 'Seed|Demo' ./$dir 2>&1 | tail -3 | cut -c1-160); }
echo "-- without the change:"; run
git -C $WT apply $SD/patch.diff
echo "-- with the change:"; run
git -C $WT checkout -q -- .; rm -f $WT/$dir/zz_seed_demo_test.go
