// rewriter: type-informed source rewriter producing a go build overlay.
package main

import (
	"bytes"
	"encoding/json"
	"flag"
	"fmt"
	"go/ast"
	"go/format"
	"go/token"
	"go/types"
	"os"
	"path/filepath"
	"strconv"
	"strings"

	"golang.org/x/tools/go/ast/astutil"
	"golang.org/x/tools/go/packages"
)

const engine = "verif.local/engine"

var osPkgs = map[string]bool{
	"oras.land/oras-go/v2/content/oci":                                   true,
	"oras.land/oras-go/v2/content/file":                                  true,
	"oras.land/oras-go/v2/internal/fs/tarfs":                             true,
	"oras.land/oras-go/v2/registry/remote/credentials/internal/config":   true,
	"oras.land/oras-go/v2/registry/remote/credentials/internal/ioutil":   true,
}
var randPkgs = map[string]bool{"oras.land/oras-go/v2/registry/remote/retry": true}

type rw struct {
	fset    *token.FileSet
	info    *types.Info
	pkgPath string
	usedVS  bool
	tmp     int
	errs    []string
	file    *ast.File
}

func (r *rw) unsupported(n ast.Node, what string) {
	r.errs = append(r.errs, fmt.Sprintf("UNSUPPORTED-CONSTRUCT %s: %s", r.fset.Position(n.Pos()), what))
}

func vsCall(name string, args ...ast.Expr) *ast.CallExpr {
	return &ast.CallExpr{Fun: &ast.SelectorExpr{X: ast.NewIdent("vs"), Sel: ast.NewIdent(name)}, Args: args}
}

func (r *rw) fresh(prefix string) *ast.Ident {
	r.tmp++
	return ast.NewIdent(fmt.Sprintf("_vs%s%d", prefix, r.tmp))
}

func (r *rw) site(n ast.Node) ast.Expr {
	p := r.fset.Position(n.Pos())
	return &ast.BasicLit{Kind: token.STRING, Value: strconv.Quote(fmt.Sprintf("%s:%d", filepath.Base(p.Filename), p.Line))}
}

func isBuiltin(info *types.Info, id *ast.Ident, name string) bool {
	if id.Name != name {
		return false
	}
	obj := info.Uses[id]
	_, ok := obj.(*types.Builtin)
	return ok
}

// rewriteImports swaps import paths, keeping the local name.
func (r *rw) rewriteImports(f *ast.File) {
	for _, im := range f.Imports {
		p, _ := strconv.Unquote(im.Path.Value)
		var np, name string
		switch {
		case p == "sync":
			np, name = engine+"/vsync", "sync"
		case p == "sync/atomic":
			np, name = engine+"/vatomic", "atomic"
		case p == "os" && osPkgs[r.pkgPath]:
			np, name = engine+"/vos", "os"
		case p == "math/rand/v2" && randPkgs[r.pkgPath]:
			np, name = engine+"/vrand", "rand"
		default:
			continue
		}
		im.Path.Value = strconv.Quote(np)
		if im.Name == nil {
			im.Name = ast.NewIdent(name)
		}
	}
}

func (r *rw) apply(f *ast.File) {
	r.file = f
	r.rewriteImports(f)
	inComm := map[ast.Node]bool{} // comm statements of select clauses: handled by select rule
	astutil.Apply(f, func(c *astutil.Cursor) bool {
		switch n := c.Node().(type) {
		case *ast.SelectStmt:
			for _, cl := range n.Body.List {
				if cc := cl.(*ast.CommClause); cc.Comm != nil {
					inComm[cc.Comm] = true
					switch s := cc.Comm.(type) {
					case *ast.ExprStmt:
						inComm[s.X] = true
					case *ast.AssignStmt:
						inComm[s.Rhs[0]] = true
					}
				}
			}
		}
		return true
	}, func(c *astutil.Cursor) bool {
		switch n := c.Node().(type) {
		case *ast.GoStmt:
			r.usedVS = true
			c.Replace(r.goStmt(n))
		case *ast.CallExpr:
			if id, ok := n.Fun.(*ast.Ident); ok && isBuiltin(r.info, id, "close") {
				r.usedVS = true
				c.Replace(vsCall("Close", n.Args...))
			}
		case *ast.UnaryExpr:
			if n.Op == token.ARROW && !inComm[n] {
				r.usedVS = true
				// v, ok := <-c handled at AssignStmt level below
				if as, ok := c.Parent().(*ast.AssignStmt); ok && len(as.Lhs) == 2 && len(as.Rhs) == 1 {
					c.Replace(vsCall("Recv2", n.X))
				} else if vs, ok := c.Parent().(*ast.ValueSpec); ok && len(vs.Names) == 2 && len(vs.Values) == 1 {
					c.Replace(vsCall("Recv2", n.X))
				} else {
					c.Replace(vsCall("Recv", n.X))
				}
			}
		case *ast.SendStmt:
			if !inComm[n] {
				r.usedVS = true
				c.Replace(&ast.ExprStmt{X: vsCall("Send", n.Chan, n.Value)})
			}
		case *ast.SelectStmt:
			if rep := r.selectStmt(n, c); rep != nil {
				c.Replace(rep)
			}
		case *ast.RangeStmt:
			if t := r.info.TypeOf(n.X); t != nil {
				switch t.Underlying().(type) {
				case *types.Map:
					if rep := r.rangeMap(n, c); rep != nil {
						c.Replace(rep)
					}
				case *types.Chan:
					r.unsupported(n, "range over channel")
				}
			}
		}
		return true
	})
	if r.usedVS {
		astutil.AddNamedImport(r.fset, f, "vs", engine+"/vs")
	}
}

func (r *rw) goStmt(n *ast.GoStmt) ast.Stmt {
	call := n.Call
	if fl, ok := call.Fun.(*ast.FuncLit); ok && len(call.Args) == 0 {
		return &ast.ExprStmt{X: vsCall("Go", fl)}
	}
	// hoist function value and arguments
	var lhs, rhs []ast.Expr
	fn := r.fresh("f")
	lhs = append(lhs, fn)
	rhs = append(rhs, call.Fun)
	var args []ast.Expr
	for _, a := range call.Args {
		id := r.fresh("a")
		lhs = append(lhs, id)
		rhs = append(rhs, a)
		args = append(args, id)
	}
	inner := &ast.CallExpr{Fun: fn, Args: args, Ellipsis: call.Ellipsis}
	lit := &ast.FuncLit{Type: &ast.FuncType{Params: &ast.FieldList{}}, Body: &ast.BlockStmt{List: []ast.Stmt{&ast.ExprStmt{X: inner}}}}
	return &ast.BlockStmt{List: []ast.Stmt{
		&ast.AssignStmt{Lhs: lhs, Tok: token.DEFINE, Rhs: rhs},
		&ast.ExprStmt{X: vsCall("Go", lit)},
	}}
}

func (r *rw) selectStmt(n *ast.SelectStmt, c *astutil.Cursor) ast.Stmt {
	var recvs []*ast.UnaryExpr
	nonDefault := 0
	sends := 0
	for _, cl := range n.Body.List {
		cc := cl.(*ast.CommClause)
		if cc.Comm == nil {
			continue
		}
		nonDefault++
		switch s := cc.Comm.(type) {
		case *ast.SendStmt:
			sends++
		case *ast.ExprStmt:
			if u, ok := s.X.(*ast.UnaryExpr); ok && u.Op == token.ARROW {
				recvs = append(recvs, u)
			}
		case *ast.AssignStmt:
			if u, ok := s.Rhs[0].(*ast.UnaryExpr); ok && u.Op == token.ARROW {
				recvs = append(recvs, u)
			}
		}
	}
	r.usedVS = true
	if _, labeled := c.Parent().(*ast.LabeledStmt); labeled {
		r.unsupported(n, "labeled select")
		return nil
	}
	if nonDefault <= 1 {
		pt := &ast.ExprStmt{X: vsCall("Pt", &ast.BasicLit{Kind: token.STRING, Value: `"select"`})}
		return &ast.BlockStmt{List: []ast.Stmt{pt, n}}
	}
	if sends > 0 {
		r.unsupported(n, "multi-case select with a send case")
		return nil
	}
	if len(recvs) > 4 {
		r.unsupported(n, "select with more than 4 receive cases")
		return nil
	}
	var lhs, args []ast.Expr
	for _, u := range recvs {
		id := r.fresh("c")
		lhs = append(lhs, id)
		args = append(args, u.X)
		u.X = id
	}
	pick := &ast.AssignStmt{Lhs: lhs, Tok: token.DEFINE, Rhs: []ast.Expr{vsCall(fmt.Sprintf("Pick%d", len(recvs)), args...)}}
	return &ast.BlockStmt{List: []ast.Stmt{pick, n}}
}

func (r *rw) rangeMap(n *ast.RangeStmt, c *astutil.Cursor) ast.Stmt {
	r.usedVS = true
	m := r.fresh("m")
	k := r.fresh("k")
	var pre []ast.Stmt
	isBlank := func(e ast.Expr) bool {
		if e == nil {
			return true
		}
		id, ok := e.(*ast.Ident)
		return ok && id.Name == "_"
	}
	if !isBlank(n.Key) {
		pre = append(pre, &ast.AssignStmt{Lhs: []ast.Expr{n.Key}, Tok: n.Tok, Rhs: []ast.Expr{k}})
	}
	okID := r.fresh("ok")
	var vLHS ast.Expr = ast.NewIdent("_")
	vTok := token.DEFINE
	if !isBlank(n.Value) {
		vLHS = n.Value
		if n.Tok == token.ASSIGN {
			// v, ok = m[k] with ok declared first
			pre = append(pre, &ast.DeclStmt{Decl: &ast.GenDecl{Tok: token.VAR, Specs: []ast.Spec{&ast.ValueSpec{Names: []*ast.Ident{okID}, Type: ast.NewIdent("bool")}}}})
			vTok = token.ASSIGN
		}
	}
	pre = append(pre, &ast.AssignStmt{Lhs: []ast.Expr{vLHS, okID}, Tok: vTok, Rhs: []ast.Expr{&ast.IndexExpr{X: m, Index: k}}})
	pre = append(pre, &ast.IfStmt{Cond: &ast.UnaryExpr{Op: token.NOT, X: okID}, Body: &ast.BlockStmt{List: []ast.Stmt{&ast.BranchStmt{Tok: token.CONTINUE}}}})
	body := &ast.BlockStmt{List: append(pre, n.Body.List...)}
	loop := &ast.RangeStmt{Key: ast.NewIdent("_"), Value: k, Tok: token.DEFINE, X: vsCall("MapOrder", m, r.site(n)), Body: body}
	var loopStmt ast.Stmt = loop
	if ls, ok := c.Parent().(*ast.LabeledStmt); ok {
		// move the label onto the new loop: L: for ... => { m := x; L: for ... }
		_ = ls
		r.unsupported(n, "labeled range over map")
		return nil
	}
	return &ast.BlockStmt{List: []ast.Stmt{
		&ast.AssignStmt{Lhs: []ast.Expr{m}, Tok: token.DEFINE, Rhs: []ast.Expr{n.X}},
		loopStmt,
	}}
}


func loadAndRewrite(repo, out, patterns string, inplace bool, overlay map[string]string) (nfiles, npkgs int, errs []string) {
	cfg := &packages.Config{
		Mode: packages.NeedName | packages.NeedFiles | packages.NeedCompiledGoFiles | packages.NeedSyntax | packages.NeedTypes | packages.NeedTypesInfo | packages.NeedImports | packages.NeedDeps,
		Dir:  repo,
		Env:  append(os.Environ(), "GOFLAGS=-mod=mod"),
	}
	pkgs, err := packages.Load(cfg, strings.Split(patterns, ",")...)
	if err != nil {
		return 0, 0, []string{"LOAD-ERROR " + err.Error()}
	}
	for _, p := range pkgs {
		for _, e := range p.Errors {
			errs = append(errs, "LOAD-ERROR "+e.Error())
		}
		for i, f := range p.Syntax {
			name := p.CompiledGoFiles[i]
			if strings.HasSuffix(name, "_test.go") || !strings.HasPrefix(name, repo) {
				continue
			}
			r := &rw{fset: p.Fset, info: p.TypesInfo, pkgPath: p.PkgPath}
			r.apply(f)
			errs = append(errs, r.errs...)
			var buf bytes.Buffer
			if err := format.Node(&buf, p.Fset, f); err != nil {
				errs = append(errs, fmt.Sprintf("FORMAT-ERROR %s: %v", name, err))
				continue
			}
			dst := name
			if !inplace {
				rel, _ := filepath.Rel(repo, name)
				dst = filepath.Join(out, "ov", rel)
				os.MkdirAll(filepath.Dir(dst), 0o755)
				overlay[name] = dst
			}
			if err := os.WriteFile(dst, buf.Bytes(), 0o644); err != nil {
				errs = append(errs, err.Error())
			}
			nfiles++
		}
	}
	return nfiles, len(pkgs), errs
}

func copyTree(src, dst string) error {
	return filepath.Walk(src, func(p string, fi os.FileInfo, err error) error {
		if err != nil {
			return err
		}
		rel, _ := filepath.Rel(src, p)
		d := filepath.Join(dst, rel)
		if fi.IsDir() {
			return os.MkdirAll(d, 0o755)
		}
		b, err := os.ReadFile(p)
		if err != nil {
			return err
		}
		return os.WriteFile(d, b, 0o644)
	})
}

func fatal(errs []string) {
	for _, e := range errs {
		fmt.Fprintln(os.Stderr, e)
	}
	os.Exit(2)
}

func main() {
	repo := flag.String("repo", "/repo", "module root to rewrite")
	out := flag.String("out", "", "scratch dir")
	engineDir := flag.String("engine", "/verif/engine", "engine module directory")
	harness := flag.String("harness", "", "comma separated harness directories to mount at <repo>/internal/zzverif/<base>")
	xsyncSrc := flag.String("xsync", "", "module cache directory of golang.org/x/sync to copy and rewrite")
	plain := flag.String("plain", "", "comma separated directories to mount (like -harness) for an UNINSTRUMENTED build: writes overlay_plain.json and alt_plain.mod")
	flag.Parse()
	if *out == "" {
		fatal([]string{"-out required"})
	}
	overlay := map[string]string{}
	nfiles, npkgs, errs := loadAndRewrite(*repo, *out, "./...", false, overlay)
	if len(errs) > 0 {
		fatal(errs)
	}
	// harness packages, mounted virtually inside the module
	if *harness != "" {
		for _, h := range strings.Split(*harness, ",") {
			ents, err := os.ReadDir(h)
			if err != nil {
				fatal([]string{err.Error()})
			}
			for _, e := range ents {
				if e.IsDir() || !strings.HasSuffix(e.Name(), ".go") {
					continue
				}
				overlay[filepath.Join(*repo, "internal", "zzverif", filepath.Base(h), e.Name())] = filepath.Join(h, e.Name())
			}
		}
	}
	// alt.mod = repo go.mod + engine (+ rewritten x/sync)
	mod, err := os.ReadFile(filepath.Join(*repo, "go.mod"))
	if err != nil {
		fatal([]string{err.Error()})
	}
	alt := string(mod) + "\nrequire " + engine + " v0.0.0\nreplace " + engine + " => " + *engineDir + "\n"
	if *xsyncSrc != "" {
		xs := filepath.Join(*out, "xsync")
		if err := copyTree(*xsyncSrc, xs); err != nil {
			fatal([]string{err.Error()})
		}
		gm, _ := os.ReadFile(filepath.Join(xs, "go.mod"))
		gm = append(gm, []byte("\nrequire "+engine+" v0.0.0\nreplace "+engine+" => "+*engineDir+"\n")...)
		os.WriteFile(filepath.Join(xs, "go.mod"), gm, 0o644)
		n2, _, errs := loadAndRewrite(xs, *out, "./errgroup,./semaphore", true, nil)
		if len(errs) > 0 {
			fatal(errs)
		}
		nfiles += n2
		alt += "replace golang.org/x/sync => " + xs + "\n"
	}
	os.WriteFile(filepath.Join(*out, "alt.mod"), []byte(alt), 0o644)
	if sum, err := os.ReadFile(filepath.Join(*repo, "go.sum")); err == nil {
		os.WriteFile(filepath.Join(*out, "alt.sum"), sum, 0o644)
	}
	if *plain != "" {
		po := map[string]string{}
		for _, h := range strings.Split(*plain, ",") {
			ents, err := os.ReadDir(h)
			if err != nil {
				fatal([]string{err.Error()})
			}
			for _, e := range ents {
				if e.IsDir() || !strings.HasSuffix(e.Name(), ".go") {
					continue
				}
				po[filepath.Join(*repo, "internal", "zzverif", filepath.Base(h), e.Name())] = filepath.Join(h, e.Name())
			}
		}
		pb, _ := json.MarshalIndent(map[string]any{"Replace": po}, "", " ")
		os.WriteFile(filepath.Join(*out, "overlay_plain.json"), pb, 0o644)
		pm := string(mod) + "\nrequire " + engine + " v0.0.0\nreplace " + engine + " => " + *engineDir + "\n"
		os.WriteFile(filepath.Join(*out, "alt_plain.mod"), []byte(pm), 0o644)
		if sum, err := os.ReadFile(filepath.Join(*repo, "go.sum")); err == nil {
			os.WriteFile(filepath.Join(*out, "alt_plain.sum"), sum, 0o644)
		}
	}
	b, _ := json.MarshalIndent(map[string]any{"Replace": overlay}, "", " ")
	os.WriteFile(filepath.Join(*out, "overlay.json"), b, 0o644)
	fmt.Printf("rewrote %d files in %d packages\n", nfiles, npkgs)
}
