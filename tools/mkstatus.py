#!/usr/bin/env python3
"""Rewrites the table between <!-- STATUS-BEGIN --> and <!-- STATUS-END --> in DESIGN.md from evidence/*.json."""
import json, glob, os, re
V = os.path.dirname(os.path.dirname(os.path.abspath(__file__)))
rows = []
for f in sorted(glob.glob(os.path.join(V, "evidence", "C*.json"))):
    e = json.load(open(f))
    c = e["coverage"]
    rows.append("| %s | %s | %s | %s | %s | %s | %s | %s | %.0f s |" % (
        e["property_id"], e["level"], e["tier"], f'{c.get("evaluations",0):,}', f'{c.get("states",0):,}', f'{c.get("transitions",0):,}',
        f'{c.get("distinct_nontrivial",0):,}', "yes" if c.get("exhaustive") else "no (budget)", e["wall_s"]))
table = "| id | level | tier | evaluations | states | transitions | distinct non-trivial | bound completed | wall |\n|---|---|---|---|---|---|---|---|---|\n" + "\n".join(rows)
p = os.path.join(V, "DESIGN.md")
s = open(p).read()
s = re.sub(r"<!-- STATUS-BEGIN -->.*<!-- STATUS-END -->", "<!-- STATUS-BEGIN -->\n" + table + "\n<!-- STATUS-END -->", s, flags=re.S)
open(p, "w").write(s)
print(table)
