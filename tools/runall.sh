#!/bin/bash
# tools/runall.sh [quick|thorough] [ids...] : run checks one after the other against /repo, print rc and wall time
T=${1:-quick}; shift
IDS=${@:-C01 C02 C03 C04 C05 C06 C07 C08 C09 C10 C11 C12 C13 C14 C15 C16 C17 C18 C19 C20}
cd "$(dirname "$0")/.."
for i in $IDS; do
  s=$(date +%s)
  out=$(./check $i $T 2>&1); rc=$?
  e=$(date +%s)
  echo "$i rc=$rc wall=$((e-s))s $(echo "$out" | grep "^$i $T" | sed 's/.*evaluations/evaluations/')"
  echo "$out" | grep "^VIOLATION\|^INFRA\|^KNOWN" | cut -c1-200
done
