#!/usr/bin/env python3
# tools/mkseedreadme.py : regenerate seeded/README.md from the meta.json files
import json,glob,os,re
rows=[];missed=0
def key(d):
    m=re.match(r'.*/(C\d\d)-(\d+)$',d); return (m.group(1),int(m.group(2)))
dirs=sorted([d for d in glob.glob('/verif/seeded/C??-*') if os.path.isdir(d)],key=key)
for d in dirs:
    m=json.load(open(d+'/meta.json'))
    name=os.path.basename(d)
    cb=m.get('caught_by',{})
    first='caught as built'
    if m.get('initially_missed'):
        missed+=1
        first='missed first; '+m.get('strengthening','')
    cell=lambda s,n: str(s).replace('|','/').replace('\n',' ')[:n]
    rows.append(f"| {name} | {cell(m.get('summary',''),160)} | {cell(m.get('needs',''),140)} | {cell(cb.get('check',''),8)}: {cell(cb.get('signature',''),110)} | {cell(first,190)} |")
n=len(rows)
head=f"""# Seeded property-breaking changes

Each directory holds `patch.diff`, the sub-agent's demonstration and `meta.json` (what it needs to manifest, what was run, what caught it). None of these is ever committed to /repo; to re-run one: `git -C <scratch worktree> apply patch.diff && VERIF_REPO=<scratch worktree> ./check <ID> quick`.

{n} changes from nine rounds (rounds 1-2 are <ID>-1/-2, round 3 is <ID>-3/-4, round 4 is <ID>-5/-6, rounds 5 and 6 - twelve and the other eight properties - are <ID>-7/-8, round 7 is <ID>-9/-10, round 8 is <ID>-11/-12, round 9 is <ID>-13/-14); {n-missed} were caught by the checks as they stood when the change arrived, {missed} were missed at first and each led to a strengthening of a check (last column), after which all {n} are caught. Three changes were not kept: C06-6 (round 4) repeated C05-1 and made an existing test fail; C07-8 and C18-8 (round 5) only show after a file-system operation fails and the process carries on, which neither statement quantifies over (the unchanged tree behaves alike at other operations).

| change | what it does | needs | caught by | first run |
|---|---|---|---|---|
"""
open('/verif/seeded/README.md','w').write(head+'\n'.join(rows)+'\n')
print(n,missed)
