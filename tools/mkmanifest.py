#!/usr/bin/env python3
"""Regenerates /verif/MANIFEST.json from the table below (keeps it schema-valid)."""
import json, os, sys
V = os.path.dirname(os.path.dirname(os.path.abspath(__file__)))
props = [json.loads(l) for l in open(os.path.join(V, "properties.jsonl"))]

SCHED = "bounded exhaustive schedule exploration of the real code under a cooperative scheduler (delay-bounded DFS over a choice tree)"
CHECKS = {
 "C01": dict(cat="model_checking", tech="stateless model checking: exhaustive DAG-universe sweep + delay-bounded schedule enumeration of real Copy/CopyGraph",
   text="Every DAG of a bounded universe x root x link-closed pre-population x concurrency x API variant is copied by the real code and compared with the generator's own edge list; curated collision shapes are additionally run under every goroutine schedule within a deviation bound around three base schedulers, and across store-kind pairs.",
   note="Bounds: U(4) quick / U(5) thorough; D<=2 quick / D<=3 thorough on curated shapes. Trusted: the rewriter's instrumentation (oras-go's own tests pass on the rewritten tree), testing/synctest, sequentially consistent interleavings at sync-operation granularity."),
 "C02": dict(cat="model_checking", tech="stateless model checking: schedule x fault-placement enumeration with a link-closure monitor at every completed push",
   text="All placements of up to F faults (error before/after effect, context cancellation) at every Fetch/Exists/Push/Predecessors/callback invocation, combined with every schedule within D deviations, on curated DAG shapes; a monitor checks link-closure at each completed destination push, the oracle demands a non-nil error, no deadlock/livelock, and a successful fault-free retry.",
   note="Bounds F1.D1 + F2.D0 quick, F1.D2 + F2.D1 thorough. 'Bounded time' is decided as deadlock-freedom within a step horizon. Memory stores on both sides."),
 "C03": dict(cat="model_checking", tech="exhaustive scenario enumeration (DAG x start x depth x filter x source kind) on real ExtendedCopy + delay-bounded schedules and map-order choices",
   text="Every curated shape and every U(4)/U(5) shape with an upward relation x start node x depth x filter x six source kinds is run through the real ExtendedCopy(Graph) and compared with the generator's inverse edge list (closure, depth sandwich, filter decided on manifest content).",
   note="Index nodes carry no artifactType; Docker manifests are not judged by the filter rule; remote sources are covered through the registry-model harnesses."),
 "C04": dict(cat="model_checking", tech="stateless model checking: delay-bounded schedule enumeration with begin/end-split storage operations and in-flight/callback monitors",
   text="Storage operations are split into begin and end scheduling points so that every relative placement of operation ends and begins within the deviation bound is explored; monitors count in-flight source reads and destination operations, per-node fetch/push counts and the callback order; callback errors are injected (F=1).",
   note="Bounds D<=2 (main scenarios, three base schedulers) quick, D<=3 thorough. Memory stores on both sides."),
}

checks, na = [], []
for p in props:
    i = p["id"]
    if i in CHECKS and os.path.isdir(os.path.join(V, "harness", i.lower())):
        c = CHECKS[i]
        checks.append({
            "property_id": i,
            "quick_cmd": "./check %s quick" % i,
            "thorough_cmd": "./check %s thorough" % i,
            "evidence_file": "/verif/evidence/%s.json" % i,
            "replay_cmd_template": "./check %s replay {path}" % i,
            "engine": "vs+explore+driver",
            "level_claimed": {"category": c["cat"], "text": c["text"], "design_ref": "DESIGN.md section 5, " + i},
            "level_note": c["note"],
            "technique": c["tech"],
        })
    else:
        na.append({"property_id": i, "reason": "check not built yet (work in progress; see DESIGN.md section 5)"})

m = {
 "version": 1,
 "setup_cmd": "./setup.sh",
 "hooks": {
   "guard": "verif",
   "enable": "no source hooks are committed: every check regenerates an instrumented overlay of /repo's working tree (tools/rewriter: sync/atomic/chan/select/map-range/os rewritten to the vs runtime) and builds it with go1.26.8 test -c -overlay -modfile",
   "baseline_off_cmd": "cd /repo && go test -vet=off -count=1 -timeout 25m ./...",
   "source_commits": [],
   "add_only": True,
 },
 "engines": [
   {"name": "vs", "path": "engine/vs", "serves_properties": [c["property_id"] for c in checks], "kind_free_text": "cooperative scheduler on testing/synctest; owns goroutine interleaving, select picks, map order, time, faults, crash points"},
   {"name": "explore", "path": "engine/explore", "serves_properties": [c["property_id"] for c in checks], "kind_free_text": "bounded DFS over choice vectors (delay/preemption/order/fault budgets)"},
   {"name": "rewriter", "path": "tools/rewriter", "serves_properties": [c["property_id"] for c in checks], "kind_free_text": "type-informed source rewriter producing a go build overlay of /repo's current tree"},
 ],
 "checks": checks,
 "not_applicable": na,
 "notes": "All checks rebuild from /repo's working tree on every run. exit 2 = infrastructure problem (never a VIOLATION).",
}
json.dump(m, open(os.path.join(V, "MANIFEST.json"), "w"), indent=1)
print("checks:", [c["property_id"] for c in checks])
