#!/usr/bin/env python3
"""Regenerates /verif/MANIFEST.json from the table below (keeps it schema-valid)."""
import json, os, sys
V = os.path.dirname(os.path.dirname(os.path.abspath(__file__)))
props = [json.loads(l) for l in open(os.path.join(V, "properties.jsonl"))]

SCHED = "bounded exhaustive schedule exploration of the real code under a cooperative scheduler (delay-bounded DFS over a choice tree)"
CHECKS = {
 "C01": dict(cat="model_checking", tech="stateless model checking: exhaustive DAG-universe sweep + delay-bounded schedule enumeration of real Copy/CopyGraph",
   text="Every DAG of a bounded universe x root x link-closed pre-population x concurrency x API variant is copied by the real code and compared with the generator's own edge list; curated collision shapes are additionally run under every goroutine schedule within a deviation bound around three base schedulers, and across store-kind pairs.",
   note="Bounds: U(4) quick / U(5) thorough; D<=2 quick / D<=3 thorough on curated shapes. Trusted: the rewriter's instrumentation (oras-go's own tests pass on the rewritten tree), testing/synctest, sequentially consistent interleavings at sync-operation granularity."),
 "C02": dict(cat="model_checking", tech="stateless model checking: schedule x fault-placement enumeration with a link-closure monitor at every completed push",
   text="All placements of up to F faults (error before/after effect, context cancellation) at every Fetch/Exists/Push/Predecessors/callback invocation, combined with every schedule within D deviations, on curated DAG shapes; a monitor checks link-closure at each completed destination push, the oracle demands a non-nil error, no deadlock/livelock, and a successful fault-free retry.",
   note="Bounds F1.D1 + F2.D0 quick, F1.D2 + F2.D1 thorough. 'Bounded time' is decided as deadlock-freedom within a step horizon. Memory stores on both sides."),
 "C03": dict(cat="model_checking", tech="exhaustive scenario enumeration (DAG x start x depth x filter x source kind) on real ExtendedCopy + delay-bounded schedules and map-order choices",
   text="Every curated shape and every U(4)/U(5) shape with an upward relation x start node x depth x filter x six source kinds is run through the real ExtendedCopy(Graph) and compared with the generator's inverse edge list (closure, depth sandwich, filter decided on manifest content).",
   note="Index nodes carry no artifactType; Docker manifests are not judged by the filter rule; remote sources are covered through the registry-model harnesses."),
 "C04": dict(cat="model_checking", tech="stateless model checking: delay-bounded schedule enumeration with begin/end-split storage operations and in-flight/callback monitors",
   text="Storage operations are split into begin and end scheduling points so that every relative placement of operation ends and begins within the deviation bound is explored; monitors count in-flight source reads and destination operations, per-node fetch/push counts and the callback order; callback errors are injected (F=1).",
   note="Bounds D<=2 (main scenarios, three base schedulers) quick, D<=3 thorough. Memory stores on both sides."),
 "C06": dict(cat="model_checking", tech="explicit operation-sequence enumeration against a content-map/tag-map reference model (lockstep), plus delay-bounded schedule enumeration with a permutation-serialisability oracle",
   text="Every history of mutating operations up to the depth bound is replayed on fresh real stores (memory, OCI layout, file store with its options) and the complete observation is compared with a reference model after every step (file store: the statement's clauses as invariants plus a differential 'refused operations are no-ops' oracle); 2-3 goroutine mixes on colliding keys are explored under every schedule within the deviation bound and must end in a state some interleaving of the same operations produces.",
   note="Depth 5 (memory) / 4 (OCI, file) quick, 6/5 thorough; D<=2 quick, D<=3 thorough. OCI AutoGC off here (C09)."),
 "C07": dict(cat="model_checking", tech="exhaustive enumeration of push orders / delete-GC-reopen sequences on real stores against the generator's inverse edge list; delay-bounded schedules for concurrent pushes",
   text="For every DAG of the universe, every subset and permutation of push order on each store kind, and for OCI every sequence of up to 3 Delete/GC/reopen steps (map-order deviations included), Predecessors of every node is compared as a multiset with the generator's inverse edges restricted to stored parents.",
   note="U(4) (+U(5) memory in thorough); OCI shapes need distinct digests."),
 "C08": dict(cat="model_checking", tech="explicit operation-sequence enumeration on a real OCI layout with a raw-directory validator and live-vs-reopened (rw, fs.FS, tar) observation equality after every step",
   text="Every history up to depth 4/5 over Push/Tag/Untag/Delete/GC (+SaveIndex) in four AutoSaveIndex x AutoGC configurations; after each step the directory is validated against image-layout.md and reopened three ways, and all answers are compared with the live store.",
   note="Quiescent points = API call returns. Universe: 2 blobs, 2 manifests, one sha512 blob, 3 references."),
 "C09": dict(cat="model_checking", tech="explicit history enumeration (tagging histories x delete targets x GC positions x map-iteration orders) on a real OCI layout against a least-fixed-point garbage model; operation budget for termination",
   text="Histories over referrer-heavy shapes are replayed on real layouts; after every Delete/GC the store's answers and the blobs/ listing are compared with a model written from the property text; map iteration order at the Delete/GC ranges is an explored choice; non-termination is decided by a per-call file-system operation budget.",
   note="States where the statement's clauses conflict are counted and not judged."),
 "C10": dict(cat="fault_enumeration", tech="exhaustive crash-point enumeration: disk frozen before every mutating file-system operation of the interrupted call, for every scripted history, then recovery check on the real directory",
   text="For every history of length <= 4 (5 thorough) and every mutating file-system operation of its last call, the layout is frozen at that point (as SIGKILL would leave it), reopened with oci.New and checked against the recovery oracle (opens, blobs match names, index entries name existing blobs, tag map old or new, earlier effects present).",
   note="Process-kill model at system-call boundaries; vos shim's operation sequence is the os package's (strace conformance described in DESIGN.md)."),
 "C13": dict(cat="model_checking", tech="explicit operation-sequence enumeration of a real Repository against an in-process reference registry model (lockstep + request validator), Read/Seek sequence enumeration, single-field response corruption enumeration",
   text="Every history of up to 3 (4) mutating Repository operations x every capability profile of the registry model x option sets; after each step a battery of reads is compared with the registry's state and every request is validated against distribution-spec MUSTs; every Read/Seek sequence on a blob reader is compared with bytes.Reader; every single-field corruption of every response of the descriptor/body-returning reads must be refused when it contradicts the request.",
   note="The registry model and its validator are trusted (allow-list of spec MUSTs); documented by-design failures (HEAD by tag without digest header, HEAD without length) are accepted errors."),
 "C14": dict(cat="model_checking", tech="stateless model checking: delay-bounded schedule enumeration (HTTP exchanges and merge-pool sync operations as scheduling points) x index fault placements, quiescent-state oracle from the registry model",
   text="2-3 goroutines push/delete referrers of one (or two) subjects through one Repository on a registry model without the Referrers API; every schedule within the deviation bound around three base schedulers, with up to one injected index fetch/push/delete failure; the final listing must equal the live manifests computed by the model (what a Referrers-API registry would list), no dangling index, index-delete failures reported as such, capability never flips.",
   note="D<=2 quick / D<=3 thorough; F<=1. Faulted runs are judged only on the clauses the statement gives for them."),
 "C15": dict(cat="exploration", tech="exhaustive enumeration of item lists x page splits x Link forms x last x page sizes x callback failures x body sizes at the limit against a scripted paging double",
   text="A scripted registry double serves every split of every list (length <= 4/5) into pages with every Link form and checks each follow-up request against the Link it issued; documents of size limit-1..limit+1 with three padding styles are served through a byte-counting body; OCI-layout Tags over every subset of tag names and every last.",
   note="A 'document' is the JSON value; trailing whitespace after a value that fits is not part of it."),
 "C19": dict(cat="exploration", tech="exhaustive enumeration of PackManifest/Pack inputs (version x artifactType strings x config x layers x subject x annotations x target kind) against hand-written RFC 6838 / RFC 3339 recognisers and a push recorder",
   text="All artifactType strings of length <= 3 (4) over a hostile alphabet plus curated boundary cases, crossed with every option combination and five target kinds (fresh and pre-populated); success is verified by re-fetching, re-hashing, re-parsing and CopyGraph; rejections are verified against a push log.",
   note="Three known findings (lenient time.Parse) are listed in known_findings.txt and printed as KNOWN-FINDING."),
 "C20": dict(cat="exploration", tech="exhaustive enumeration of reference strings (all strings up to length 8/9 over the 9 grammar characters, all token sequences up to 5/6, slot products, all single edits of seeds) against a hand-written scanner, plus recorded-URL shape checks",
   text="Every string is judged by an independent scanner of the documented grammar (accept/reject/not judged); accepted references must split, round-trip and resolve identically through Repository.ParseReference on four bases; every request URL an accepted reference produces is checked for the exact /v2/<repository>/<kind>/<reference> shape.",
   note="Strings ending in ':'/'@' and authorities only net/url can adjudicate are counted, not judged (as the property states)."),
 "C16": dict(cat="model_checking", tech="explicit request-sequence enumeration of the real auth.Client against an in-process two-registry/two-realm world with a secret-scanning innermost transport; delay-bounded schedule enumeration for concurrent requests (token-fetch sharing and hand-over)",
   text="Every request sequence up to length 3/4 x pair of per-registry auth modes x cache flavour x scheme change x challenge-scope rendering is run through the real client; the innermost transport scans every outgoing request for the other registry's secrets, counts sends and token fetches; 2-3 concurrent requests through one cache are explored under every schedule within the bound, including a first caller cancelled during the token fetch; CleanScopes is compared with an independent canonicaliser on every list of <= 3 scopes.",
   note="NewSingleContextCache is judged only on host and scheme (its documented contract)."),
 "C05": dict(cat="model_checking", tech="exhaustive enumeration of byte strings x descriptors x reader behaviours (chunking, zero reads, early EOF, errors, trailing bytes) x 18 targets; Read/Verify call-sequence enumeration; delay- and preemption-bounded schedule enumeration of racing good/bad pushes with a concurrent observer",
   text="Every content string of length <= 3 (4) over two bytes plus one buffer-crossing string, every descriptor variant and every reader behaviour is pushed/read through every built-in store, wrapper and helper; success is allowed only when the first Size bytes hash to Digest, failures must leave nothing visible and no new file under blobs/; 2-3 concurrent pushers of good and bad content under one digest (plus an observer) are explored under every schedule within D<=3 / P<=2.",
   note="Counted, not judged: refusing good content, Push accepting bytes beyond Size, ingest/ leftovers."),
 "C11": dict(cat="exploration", tech="exhaustive enumeration of title annotations (<= 4 segments, relative/absolute, 4 working-directory states) and tar entry sequences (regular/dir/symlink/hardlink over link-heavy alphabets, up to 2-5 entries) pushed into a real file store in a sandbox, with an outside-of-working-directory snapshot oracle and an independent symlink-aware path resolver",
   text="Every case is one real Push with default options; a recursive picture (type, mode, content, link target, inode identity) of everything outside the working directory is compared before/after, and a name or entry that the harness's own resolver places outside must be rejected.",
   note="Sandbox on tmpfs, process CWD inside it; absolute entry names and accepted symlinks that merely point outside are counted, not judged."),
 "C12": dict(cat="exploration", tech="exhaustive enumeration of directory trees (names, modes, sizes, symlinks, duplicate contents) x 128 option/intermediate-store configurations through the real Add -> PackManifest -> Copy -> Copy pipeline with a tar-level and tree-level oracle",
   text="Every tree of the three families (names, modes, duplicate blobs) is added to a file store, packed, copied through memory / OCI / remote (registry model) / file and restored into a second file store under all 16 option combinations; the archive is decoded entry by entry, the restored tree compared recursively, descriptors checked against the stored bytes, reproducible tars compared across timestamps, wrong uncompressed digests must be refused.",
   note="Runs as root (permission failures unreachable); umask 022 and 077. One known finding (IgnoreNoName drops same-bytes duplicates)."),
 "C18": dict(cat="model_checking", tech="explicit Put/Get/Delete history enumeration against a JSON-document model, crash-point enumeration of every save (vos freeze before each mutating file-system operation), delay-bounded schedule enumeration of 3 concurrent callers, strace/SIGKILL conformance of the shim",
   text="All histories of <= 4 (5) operations over 4 address pairs x 13 pre-existing documents in lockstep with a hand-written model; every credential in a 6^4 product round-trips; the last operation of every history is interrupted before each mutating file-system operation and the file must be the old or the new complete document with mode 0600; 3 goroutines under every schedule within D<=2 (3) must leave the file equal to some permutation.",
   note="Unknown values are compared as JSON values (the encoder may re-escape bytes). Process-kill crash model."),
 "C17": dict(cat="fault_enumeration", tech="explicit enumeration of server-answer sequences x body kinds x policies on the real auth+retry stack under a virtual clock (synctest bubble), with cancellation at every pause; exhaustive sweep of the backoff policy's parameter grid",
   text="Every sequence of registry answers of length <= MaxRetry+4 over a 10-13 letter alphabet is served to the real auth.Client -> retry.Transport stack for 7 body kinds, 3 sizes, partial body reads, MaxRetry 0..2 and two cache states; every attempt's body, attempt counts, every pause on the virtual clock and the outcome are checked against an independent oracle; each call is re-run once per pause with the context cancelled at half of it; the policy grid (attempt 0..70 x backoff x factor x jitter x bounds x Retry-After) is swept for bounds and panics.",
   note="math/rand/v2 in the retry package is replaced by a shim returning the low extreme; bounds are insensitive to it because of the clamp."),
}

# scenario families added by the seeding rounds 4-5 (appended to the notes above)
EXTRA = {
 "C01": " Also: an index that lists a non-manifest entry; a destination that can mount blobs (mounted / copied after all per blob and candidate repository), a destination reference that already names another manifest, an ordinary layer with mirror URLs, two layers with one file name into a file store.",
 "C02": " Also: the retry reuses the failed call's options value; ExtendedCopyGraph with FilterAnnotation/FilterArtifactType (their manifest reads are fault points), a mounting destination with fault menus; injected source-read failures also match errdef.ErrNotFound.",
 "C03": " Also: ExtendedCopy into a destination that already holds everything, indexes carrying the filtered annotation; a source that lost one node's content (every node in turn), a referrer whose subject is a blob, one wide shape with 70 referrers.",
 "C05": " Also: a pre-consumed VerifyReader handed to Push, all-bad concurrent pushes under an observer; the file store's restore-duplicates path, a named push over a longer existing file, a named directory layer; visibility is probed through the bare descriptor too.",
 "C06": " Also: two references sharing one annotated descriptor, a failing push under the second name of stored content (file store).",
 "C07": " Also: a chain index -> index -> manifest, reopening from an archive brought up to date by appending; AutoGC off in the OCI histories, the file store with ForceCAS, reopening an OCI layout after concurrent pushes.",
 "C10": " Also: the point right after the interrupted call returned; six pairs of concurrent non-conflicting operations x schedules (D<=2 / D<=3) x crash points: effects of operations that returned survive.",
 "C11": " Also: a hard link through a link chain, a link chain ending at a file; after an accepted archive that leaves links which really lead outside, a second push (named blob / archive) through every such link; hard-link targets read relative to the archive root; a working directory with otherwise empty ancestors.",
 "C13": " Also: a wrong digest header under another algorithm; Read/Seek sequences against a chunked registry; bodies of known length deliver io.EOF together with the last byte.",
 "C16": " Also: a Bearer challenge without realm, scope names containing a colon; registry B on registry A's host name with another port; the base endpoint /v2/ (challenge without scope); every attached bearer token is judged by the scope set it was issued for.",
 "C18": " Also: concurrent calls through credentials.NewStore; the store that executed a history and a fresh store on the same file must agree on Get wherever at most one entry can be meant.",
}
EXTRA.update({
 "C08": " Also: a push of non-JSON bytes under a manifest media type (refused; the layout stays usable).",
 "C09": " Also: tags on non-manifest nodes.",
 "C12": " Also: names beginning with dots, link targets not in shortest form, a path added twice and rewritten in between.",
 "C15": " Also: query-only and relative-path Link references, empty pages without their list member, slices retained by the callback, an over-long chunked answer on the tag-schema path.",
 "C17": " Also: bounds with MinWait above Retry-After.",
 "C20": " Also: a Repository built from a reference that carries a tag or digest; bare tags through a Repository.",
 "C04": " Also: a destination that can mount, a racing second writer (push meets ErrAlreadyExists after Exists said false).",
 "C06": " Also: GC racing a push that is then tagged.",
})
EXTRA["C06"] = " Also: two references sharing one annotated descriptor, a failing push under the second name of stored content (file store), GC racing a push that is then tagged, a name held by other content."
for _k, _v in {
 "C01": " A second writer racing the copy.",
 "C02": " An upload that hangs until its context is cancelled (counts as a fault) on the smallest graph with a shared leaf.",
 "C03": " The copy reads through a Repository value that has not yet learnt the registry's capabilities.",
 "C05": " Malformed digests whose encoded part is a relative path of the hex length.",
 "C07": " Predecessors is asked after every push of an order.",
 "C08": " A tag made with a descriptor that carries a foreign reference-name annotation.",
 "C09": " A lone image and a store of blobs only.",
 "C10": " Histories of length <= 2 on a layout whose index.json is a symbolic link.",
 "C11": " Read-only directory entries; one store carrying a failed named push, the archive and the repeated push.",
 "C12": " Other spellings of the added path (doubled separator, dot segment, '<dir>/..', through a symbolic link).",
 "C13": " An answer with Content-Length 0.",
 "C14": " Also: a referrer larger than MaxMetadataBytes next to one that fits.",
 "C15": " Further legal spellings of rel=next; an oversize referrers index with declared length, with and without digest header.",
 "C16": " Registry B as a sub-domain of A, credentials through StaticCredential, a re-targeted clone of the caller's last request.",
 "C17": " A blob pushed from a file-like ReadSeeker positioned behind a header.",
 "C18": " After concurrent calls the live store must read back what the file holds; after every crash point a restart that saves a shorter document.",
}.items():
    EXTRA[_k] = EXTRA.get(_k, "") + _v
for _k, _v in EXTRA.items():
    CHECKS[_k]["note"] += _v

checks, na = [], []
for p in props:
    i = p["id"]
    if i in CHECKS and os.path.isdir(os.path.join(V, "harness", i.lower())):
        c = CHECKS[i]
        checks.append({
            "property_id": i,
            "quick_cmd": "./check %s quick" % i,
            "thorough_cmd": "./check %s thorough" % i,
            "evidence_file": "/verif/evidence/%s.json" % i,
            "replay_cmd_template": "./check %s replay {path}" % i,
            "engine": "vs+explore+driver",
            "level_claimed": {"category": c["cat"], "text": c["text"], "design_ref": "DESIGN.md section 5, " + i},
            "level_note": c["note"],
            "technique": c["tech"],
        })
    else:
        na.append({"property_id": i, "reason": "check not built yet (work in progress; see DESIGN.md section 5)"})

m = {
 "version": 1,
 "setup_cmd": "./setup.sh",
 "hooks": {
   "guard": "verif",
   "enable": "no source hooks are committed: every check regenerates an instrumented overlay of /repo's working tree (tools/rewriter: sync/atomic/chan/select/map-range/os rewritten to the vs runtime) and builds it with go1.26.8 test -c -overlay -modfile",
   "baseline_off_cmd": "cd /repo && go test -vet=off -count=1 -timeout 25m ./...",
   "source_commits": [],
   "add_only": True,
 },
 "engines": [
   {"name": "vs", "path": "engine/vs", "serves_properties": [c["property_id"] for c in checks], "kind_free_text": "cooperative scheduler on testing/synctest; owns goroutine interleaving, select picks, map order, time, faults, crash points"},
   {"name": "explore", "path": "engine/explore", "serves_properties": [c["property_id"] for c in checks], "kind_free_text": "bounded DFS over choice vectors (delay/preemption/order/fault budgets)"},
   {"name": "rewriter", "path": "tools/rewriter", "serves_properties": [c["property_id"] for c in checks], "kind_free_text": "type-informed source rewriter producing a go build overlay of /repo's current tree"},
 ],
 "checks": checks,
 "not_applicable": na,
 "notes": "All checks rebuild from /repo's working tree on every run. exit 2 = infrastructure problem (never a VIOLATION).",
}
json.dump(m, open(os.path.join(V, "MANIFEST.json"), "w"), indent=1)
print("checks:", [c["property_id"] for c in checks])
