#!/bin/bash
# tools/seedtest.sh <ID> <n> [check-id] : validate a seeded change in its scratch worktree and run the check against it.
ID=$1; N=$2; CK=${3:-$ID}
WT=/tmp/seed/$ID; SD=$WT/_seed/$N
export GOFLAGS=-mod=mod GOPROXY=off GOSUMDB=off
git -C $WT checkout -q -- . || exit 2
git -C $WT apply $SD/patch.diff || { echo "PATCH DOES NOT APPLY"; exit 2; }
echo "== files: $(git -C $WT diff --stat | tail -1)"
echo "== upstream tests with the change:"
(cd $WT && go test -count=1 ./... 2>&1 | grep -v "^ok\|no test files" | grep -v "TestStore_Dir_OverwriteSymlink_RemovalFailed\|file_unix_test.go:472" | head -10)
echo "== check $CK quick against the changed tree:"
(cd /verif && VERIF_REPO=$WT ./check $CK quick 2>&1 | grep -A3 "^VIOLATION\|^$CK \|INFRA" | head -24)
git -C $WT checkout -q -- .
