#!/bin/bash
# tools/seedbatch.sh <log> <n...> : for every /tmp/seed/<ID>/_seed/<n> not yet in <log>, run seedtest + seeddemo and append a summary
LOG=$1; shift
touch $LOG
for d in /tmp/seed/C??; do
  ID=$(basename $d)
  for n in "$@"; do
    [ -f $d/_seed/$n/patch.diff ] && [ -f $d/_seed/$n/meta.json ] || continue
    grep -q "^##### $ID $n\$" $LOG && continue
    {
      echo "##### $ID $n"
      /verif/tools/seedtest.sh $ID $n 2>&1 | cut -c1-260 | grep -A3 "^VIOLATION\|^$ID \|INFRA\|^--- FAIL\|PATCH DOES NOT" | grep -v "^  [a-zA-Z_:(). =+,'/<>-]*=[0-9]*$" | head -14
      /verif/tools/seeddemo.sh $ID $n 2>&1 | grep "^--\|^ok\|^FAIL\|unknown" | grep -v "^FAIL$" | cut -c1-100
    } >> $LOG
  done
done
